/-
  L7 — the nadir LRM altimetry solver (`smrt/rtsolver/nadir_lrm_altimetry.py`), as list functions over a scalar type.

  Inputs that the solver obtains from other parts of SMRT are *inputs* of the model: per layer the real part of the
  effective permittivity, the extinction `ke`, the backward phase value, the coherent transmission of the interface on
  top of the layer; per interface (and substrate) and incidence sample the diffuse backscatter value; the gate depths
  (`gate_depth`) and the `PFS_PTR_PDF` vector of the waveform model.

  Everything after that is modelled: merged depth grid, `fill_forward`, `fill`, sub-gate backscatter with the analytic
  Beer–Lambert integration, cumulative two-way attenuations, gate aggregation (`cumsum` / mask / `diff`), padding, the
  three convolution paths of `convolve_with_PFS_PTR_PDF`, truncation, down-sampling by gate mean, the
  `return_contributions` bookkeeping, the constructor's option normalisation and the `z_gate` bookkeeping.
-/
import SmrtVerif.Model.Basic

namespace Smrt.Altimetry

inductive Err where
  | smrt      -- SMRTError
  | value     -- ValueError raised by numpy/scipy/xarray (shape mismatch)
deriving Repr, BEq, DecidableEq

def Err.name : Err → String
  | .smrt => "SMRTError"
  | .value => "foreign:ValueError"

/-- what an entry of the merged depth grid is: top of a layer (an interface that is not the last one), the bottom of
    the snowpack (the last interface), or a gate -/
inductive Tag where
  | lay | bottom | gate
deriving Repr, BEq, DecidableEq

def Tag.isLay : Tag → Bool | .lay => true | _ => false
def Tag.isGate : Tag → Bool | .gate => true | _ => false
def Tag.isInterface : Tag → Bool | .gate => false | _ => true

section
variable {α : Type}

/-! ### elementwise helpers -/

/-- elementwise sum of two arrays of the same length (`a + b`) -/
def vadd [Add α] (a b : List α) : List α := List.zipWith (· + ·) a b
def vmul [Mul α] (a b : List α) : List α := List.zipWith (· * ·) a b
def zeros [OfNat α 0] (n : Nat) : List α := List.replicate n 0

/-- `np.append(x, np.zeros(n - len(x)))` when `len(x) < n` -/
def padTo [OfNat α 0] (n : Nat) (xs : List α) : List α := xs ++ zeros (n - xs.length)

/-- `np.cumsum`, sequential accumulation -/
def cumsumFrom [Add α] (acc : α) : List α → List α
  | [] => []
  | x :: xs => (acc + x) :: cumsumFrom (acc + x) xs
def cumsum [Add α] [OfNat α 0] (xs : List α) : List α := cumsumFrom 0 xs

/-- `np.cumprod` -/
def cumprodFrom [Mul α] (acc : α) : List α → List α
  | [] => []
  | x :: xs => (acc * x) :: cumprodFrom (acc * x) xs

/-- boolean-mask selection `x[mask]` -/
def select : List α → List Bool → List α
  | x :: xs, true :: m => x :: select xs m
  | _ :: xs, false :: m => select xs m
  | _, _ => []

/-- `np.diff(np.insert(y, 0, p))` -/
def diffFrom [Sub α] (p : α) : List α → List α
  | [] => []
  | y :: ys => (y - p) :: diffFrom y ys

/-- integrated backscatter per gate: `np.diff(np.insert(np.cumsum(x)[b_gate], 0, 0))` -/
def gateAgg [Add α] [Sub α] [OfNat α 0] (xs : List α) (bgate : List Bool) : List α :=
  diffFrom 0 (select (cumsum xs) bgate)

/-! ### the merged depth grid (`combined_depth_grid`) -/

/-- stable merge of the (ascending) layer boundaries and the (ascending) gate depths: what `np.argsort` of the
    concatenation `(z_lay, z_gate)` gives when ties keep the order of the concatenation (layer boundary first). -/
def merge [LT α] [DecidableRel (fun a b : α => a < b)] : List (α × Tag) → List α → List (α × Tag)
  | [], gs => gs.map (fun g => (g, Tag.gate))
  | a :: ls, gs =>
    (gs.takeWhile (fun g => decide (g < a.1))).map (fun g => (g, Tag.gate))
      ++ a :: merge ls (gs.dropWhile (fun g => decide (g < a.1)))

/-- tag the layer boundaries `snowpack.z`: all `lay` but the last one (`b_layer[i == len(z_lay) - 1] = False`) -/
def tagLayers : List α → List (α × Tag)
  | [] => []
  | [z] => [(z, Tag.bottom)]
  | z :: zs => (z, Tag.lay) :: tagLayers zs

def grid [LT α] [DecidableRel (fun a b : α => a < b)] (zl zg : List α) : List (α × Tag) := merge (tagLayers zl) zg

/-- `np.diff(z)` -/
def diff [Sub α] : List α → List α
  | [] => []
  | z :: zs => List.zipWith (fun b a => b - a) zs (z :: zs)

/-! ### `fill_forward`, `fill` -/

/-- `fill_forward(a, where)`: entry `k` is `a[cumsum(where)[k] - 1]` (NaN before the first `True`).
    `cur` is the value being propagated. -/
def fillForwardFrom (cur : α) : List α → List Bool → List α
  | _, [] => []
  | a, false :: m => cur :: fillForwardFrom cur a m
  | x :: a, true :: m => x :: fillForwardFrom x a m
  | [], true :: m => cur :: fillForwardFrom cur [] m     -- numpy: IndexError (more `True` than values); outside the domain

def fillForward [Div α] [OfNat α 0] (a : List α) (mask : List Bool) : List α := fillForwardFrom ((0 : α) / 0) a mask

/-- `fill(a, where)`: values of `a` at the `True` positions, 0 elsewhere -/
def fill [OfNat α 0] : List α → List Bool → List α
  | _, [] => []
  | a, false :: m => 0 :: fill a m
  | x :: a, true :: m => x :: fill a m
  | [], true :: m => 0 :: fill [] m                      -- numpy: assertion error; outside the domain

/-! ### `vertical_scattering_distribution` -/

variable [Add α] [Sub α] [Mul α] [Div α] [Neg α] [OfScientific α] [NatCast α] [OfNat α 0] [OfNat α 1] [Transc α]

/-- two-way optical depth of each sub-gate: `2 * subgate_layer_extinction * dz` -/
def subgateDtau (ke dz : List α) : List α := List.zipWith (fun k d => 2.0 * k * d) ke dz

/-- analytic integration of the backscatter in one sub-gate: `(1 - exp(-dtau)) / (2 ke) * gamma` -/
def subgateRaw (dtau ke gam : List α) : List α :=
  List.zipWith (fun (tk : α × α) g => (1 - Transc.exp (-tk.1)) / (2.0 * tk.2) * g) (List.zip dtau ke) gam

/-- `exp(-insert(cumsum(dtau), 0, 0))`: two-way volume attenuation at every grid node -/
def attenuationV (dtau : List α) : List α := ((0 : α) :: cumsum dtau).map (fun t => Transc.exp (-t))

/-- sub-gate volume backscatter seen from above: raw value times the attenuation at the top of the sub-gate
    (`subgate_attenuation_v[:-1] * subgate_attenuation_i[1:]`) -/
def attenuate (raw attv atti1 : List α) : List α :=
  List.zipWith (fun b (a : α × α) => b * (a.1 * a.2)) raw (List.zip attv atti1)

/-- the sub-gate volume backscatter of a stack: `ke`, `gam` already filled forward onto the sub-gates -/
def subgateVolume (ke gam dz atti1 : List α) : List α :=
  let dtau := subgateDtau ke dz
  attenuate (subgateRaw dtau ke gam) (attenuationV dtau) atti1

/-- `fill(layer_echo, b_interface) * subgate_attenuation_v * subgate_attenuation_i` for one incidence sample -/
def subgateInterface (echo : List α) (binterface : List Bool) (attv atti : List α) : List α :=
  List.zipWith (fun e (a : α × α) => e * a.1 * a.2) (fill echo binterface) (List.zip attv atti)

/-- the per-layer quantities the solver gets from the emmodels and the interfaces -/
structure Stack (α : Type) where
  eps : List α          -- Re effective permittivity
  ke : List α           -- mean of the diagonal of `ke(mu=1)`
  phase : List α        -- `phase(mu_s=-1, mu_i=1, dphi=pi)[0,0].real`
  trans : List α        -- `coherent_transmission_matrix(mu1=1)[0,0]` of the interface above the layer
  echo : List (List α)  -- per incidence sample: `diffuse_reflection_matrix(...).diagonal[0]` of each interface
  subEcho : Option (List α)   -- per incidence sample: the same for the substrate (`none`: no substrate)

/-- `eps_upper_interface = insert(eps[:-1], 0, 1)` -/
def epsUpper (eps : List α) : List α := (1 : α) :: eps.dropLast

/-- `layer_echo` of one incidence sample `m`, after the division by the permittivity of the medium above -/
def layerEcho (s : Stack α) (m : Nat) : List α :=
  let e := List.zipWith (fun x e1 => x / e1) (s.echo.getD m []) (epsUpper s.eps)
  match s.subEcho with
  | some se => e ++ [se.getD m 0 / s.eps.getLastD 1]
  | none => e ++ [0]

/-- first row / first-entry-zeroed copy (`subgate_backscatter_i[..., 0] = 0`) -/
def zeroHead : List α → List α
  | [] => []
  | _ :: xs => 0 :: xs

/-- `gate_backscatter_s`: zeros with the surface echo in gate 0 -/
def surfaceRow (c : α) : Nat → List α
  | 0 => []
  | n + 1 => c :: zeros n

/-- `z_top >= snowpack.z[-1]`: the nodes of the merged grid from the bottom of the snowpack on -/
def belowBottom : List Tag → List Bool
  | [] => []
  | Tag.bottom :: ts => true :: ts.map (fun _ => true)
  | _ :: ts => false :: belowBottom ts

/-- `x[mask] = 0` -/
def maskZero (xs : List α) (mask : List Bool) : List α := List.zipWith (fun x b => if b then 0 else x) xs mask

/-- everything `vertical_scattering_distribution` computes before the gate aggregation:
    (sub-gate volume backscatter with a leading 0, sub-gate interface backscatter per incidence sample, gate mask) -/
def subgates (s : Stack α) (tags : List Tag) (dz : List α) (nmu : Nat) : List α × List (List α) × List Bool :=
  let blayer := (tags.map Tag.isLay).dropLast
  let binterface := tags.map Tag.isInterface
  let bgate := tags.map Tag.isGate
  let ke := fillForward s.ke blayer
  let gam := fillForward (List.zipWith (fun p e => p / 12.566370614359172 / e) s.phase s.eps) blayer
  let cumT := cumprodFrom 1 (s.trans.map (fun t => t * t))
  let atti := (1 : α) :: fillForward cumT blayer
  let dtau := subgateDtau ke dz
  let attv := attenuationV dtau
  -- no volume scattering below the bottom of the snowpack (the last gate lies slightly deeper than the bottom)
  let bv := maskZero (subgateVolume ke gam dz atti.tail) (belowBottom tags)
  let bi := (List.range nmu).map (fun m => subgateInterface (layerEcho s m) binterface attv atti)
  ((0 : α) :: bv, bi, bgate)

/-- `vertical_scattering_distribution(return_contributions=True)`: rows surface (per sample), interfaces (per sample), volume -/
def vsdContrib (s : Stack α) (tags : List Tag) (dz : List α) (nmu : Nat) : List (List α) :=
  let bv := (subgates s tags dz nmu).1
  let bi := (subgates s tags dz nmu).2.1
  let bgate := (subgates s tags dz nmu).2.2
  let ng := bgate.count true
  bi.map (fun b => surfaceRow (b.headD 0) ng) ++ bi.map (fun b => gateAgg (zeroHead b) bgate) ++ [gateAgg bv bgate]

/-- `vertical_scattering_distribution(return_contributions=False)` (one incidence sample) -/
def vsdTotal (s : Stack α) (tags : List Tag) (dz : List α) : List α :=
  let bv := (subgates s tags dz 1).1
  let bi := (subgates s tags dz 1).2.1
  let bgate := (subgates s tags dz 1).2.2
  gateAgg (vadd (bi.headD []) bv) bgate

/-! ### convolution, interpolation, down-sampling -/

/-- add two arrays, the shorter one being padded with zeros -/
def addPad : List α → List α → List α
  | [], ys => ys
  | xs, [] => xs
  | x :: xs, y :: ys => (x + y) :: addPad xs ys

/-- discrete full convolution `scipy.signal.convolve(p, b, mode='full')` (length `|p| + |b| - 1`):
    `Σ_j b_j · (p shifted by j)` -/
def conv (p : List α) : List α → List α
  | [] => []
  | b :: bs => addPad (p.map (fun x => x * b)) (0 :: conv p bs)

variable [LT α] [DecidableRel (fun a b : α => a < b)]

/-- `np.interp(x, xp, fp)` (ascending `xp`): constant outside, `slope * (x - xp[j]) + fp[j]` inside -/
def interp (x : α) : List α → List α → α
  | [_], [f0] => f0
  | x0 :: x1 :: xs, f0 :: f1 :: fs =>
    if x < x0 then f0
    else if x < x1 then (f1 - f0) / (x1 - x0) * (x - x0) + f0
    else interp x (x1 :: xs) (f1 :: fs)
  | _, _ => (0 : α) / 0

/-- `t_gate = arange(0, n) / (B * oversampling)` -/
def tGate (n : Nat) (bw : α) (os : Nat) : List α := (List.range n).map (fun (k : Nat) => (k : α) / (bw * (os : α)))

/-- `t_inc_sample = linspace(0, ngate / B, tis + 1)` -/
def tInc (ngate : Nat) (bw : α) (tis : Nat) : List α :=
  let stop := (ngate : α) / bw
  let step := stop / (tis : α)
  (List.range tis).map (fun (j : Nat) => (j : α) * step) ++ [stop]

/-- `np.interp(t_gate, t_inc_sample, col) * pfs_ptr_pdf` -/
def angularResponse (tg ti pfs col : List α) : List α := vmul (tg.map (fun t => interp t ti col)) pfs

/-- the loop over the sub-gate columns of the interface backscatter in `convolve_with_PFS_PTR_PDF`:
    `if col[0] > 0: waveform_interface[i : i + len(t_gate)] += interp(t_gate, t_inc_sample, col) * pfs_ptr_pdf`;
    the result starts at the index of the first column of the list -/
def interfaceLoop (tg ti pfs : List α) : List (List α) → List α
  | [] => []
  | col :: cols =>
    let rest := (0 : α) :: interfaceLoop tg ti pfs cols
    if (0 : α) < col.headD 0 then addPad (angularResponse tg ti pfs col) rest else rest

/-- columns of a matrix given by rows of length `n` -/
def columns (rows : List (List α)) (n : Nat) : List (List α) :=
  (List.range n).map (fun i => rows.map (fun r => r.getD i 0))

/-- transposition by peeling heads (linear time); equal to `columns` on rectangular input -/
def transposeN : Nat → List (List α) → List (List α)
  | 0, _ => []
  | n + 1, rows => rows.map (fun r => r.headD 0) :: transposeN n (rows.map List.tail)

/-- sum of a list in order -/
def lsum : List α → α
  | [] => 0
  | x :: xs => x + lsum xs

/-- `np.mean(w.reshape(-1, os), axis=-1)`; `fuel` bounds the recursion (any value ≥ number of gates) -/
def downsample (os : Nat) : Nat → List α → List α
  | 0, _ => []
  | fuel + 1, w => if w.isEmpty then [] else (lsum (w.take os) / (os : α)) :: downsample os fuel (w.drop os)

/-- every `os`-th entry: `z[::os]` -/
def stride (os : Nat) : Nat → List α → List α
  | 0, _ => []
  | fuel + 1, w => match w with
    | [] => []
    | x :: _ => x :: stride os fuel (w.drop os)

/-! ### `solve` -/

structure Opts where
  oversampling : Nat
  tis : Nat                 -- theta_inc_sampling
  rc : Bool                 -- return_contributions
  ro : Bool                 -- return_oversampled
  sk : Bool                 -- skip_pfs_convolution
  rt : Bool                 -- return_theta_inc_sampling
deriving Repr

/-- the constructor's normalisation of `return_theta_inc_sampling` -/
def Opts.rtEff (o : Opts) : Bool :=
  let rt := if o.sk && decide (1 < o.tis) then true else o.rt
  if rt && decide (o.tis ≤ 1) then false else rt

structure Input (α : Type) where
  ngate : Nat
  bw : α                    -- pulse_bandwidth
  zl : List α               -- snowpack.z
  zg : List α               -- gate_depth()[0]
  stack : Stack α
  pfs : List α              -- PFS_PTR_PDF(t_gate, sigma_surface, surface_slope)

/-- `convolve_with_PFS_PTR_PDF` on padded rows -/
def convolve (o : Opts) (inp : Input α) (rows : List (List α)) : List (List α) :=
  let n := inp.ngate * o.oversampling
  if 1 < o.tis && !o.rtEff then
    let nmu := o.tis + 1
    let tg := tGate n inp.bw o.oversampling
    let ti := tInc inp.ngate inp.bw o.tis
    let surf := (rows.take nmu).map (fun r => r.headD 0)
    let ifaces := (rows.drop nmu).take nmu
    let vol := rows.getLastD []
    let wv := conv inp.pfs vol
    let ws := padTo wv.length (angularResponse tg ti inp.pfs surf)
    let wi := padTo wv.length (interfaceLoop tg ti inp.pfs (transposeN vol.length ifaces))
    if o.rc then [ws, wi, wv] else [vadd (vadd ws wi) wv]
  else rows.map (conv inp.pfs)

/-- `limit the waveform to the number of gates` and `downsample` (one row) -/
def finish (o : Opts) (ngate : Nat) (row : List α) : List α :=
  let r := row.take (ngate * o.oversampling)
  if decide (1 < o.oversampling) && !o.ro then downsample o.oversampling ngate r else r

/-- the merged grid of an input: tags and sub-gate thicknesses -/
def gridTags (inp : Input α) : List Tag := (grid inp.zl inp.zg).map Prod.snd
def gridDz (inp : Input α) : List α := diff ((grid inp.zl inp.zg).map Prod.fst)

/-- the waveform rows before the `return_contributions` bookkeeping: `vertical_scattering_distribution`, padding,
    convolution (unless skipped), truncation, down-sampling -/
def waveRows (o : Opts) (inp : Input α) : List (List α) :=
  let nmu := if 1 < o.tis then o.tis + 1 else 1
  let rows := if o.rc || decide (1 < o.tis) then vsdContrib inp.stack (gridTags inp) (gridDz inp) nmu
              else [vsdTotal inp.stack (gridTags inp) (gridDz inp)]
  let rows := rows.map (padTo (inp.ngate * o.oversampling))
  (if o.sk then rows else convolve o inp rows).map (finish o inp.ngate)

/-- `self.z_gate` after `solve`: strided when down-sampling, then cut or extended with NaN to the number of gates -/
def zGateOut (o : Opts) (inp : Input α) : List α :=
  let ds := decide (1 < o.oversampling) && !o.ro
  let zg := if ds then stride o.oversampling inp.zg.length inp.zg else inp.zg
  let nt := if ds then inp.ngate else inp.ngate * o.oversampling
  if nt ≤ zg.length then zg.take nt else zg ++ List.replicate (nt - zg.length) ((0 : α) / 0)

/-- the waveform rows `solve` puts in the result and the `z_gate` it attaches:
    one row (total) or four rows (surface, interfaces, volume, total) -/
def solve (o : Opts) (inp : Input α) : Except Err (List (List α) × List α) :=
  if 1 < o.tis && inp.ngate % o.tis != 0 then .error .smrt
  else if 1 < o.tis && o.rtEff then .error .value     -- known finding: broadcast / coords mismatch
  else if o.rc then
    match waveRows o inp with
    | [s, i, v] => .ok ([s, i, v, vadd (vadd s i) v], zGateOut o inp)
    | _ => .error .value
  else .ok (waveRows o inp, zGateOut o inp)

end

end Smrt.Altimetry
