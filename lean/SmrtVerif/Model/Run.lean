/-
  C09 — `Model.run` (smrt/core/model.py): batch, parallel and repeated runs.  Core Lean only.

  Part 1: sensors as `axis ↦ values`, `Sensor.configurations` / `Sensor.iterate` (smrt/core/sensor.py), the axes the
          solver does not broadcast (`get_sensor_configurations`).
  Part 2: normalisation of the snowpack container (`prepare_simulations`): SensitivityStudy / dict / DataFrame column /
          Series / sequence / single snowpack ↦ (dimension, list).
  Part 3: the flat list of simulations (`prepare_recursive`, and the sensor-list branch), runners, the regrouping loop
          `for dimension in reversed(dimensions): results = [concat_results(results[i:i+n], dimension) for i in range(0, len, n)]`
          on the finite-map results of `Model/ResultMap.lean` (`Res.concat`), and the specification `table`.
  Part 4: one simulation as a program over a store (user objects, fresh instances, shared memo caches):
          `run_single_simulation`.

  Coordinates, sensor values and snowpack identities are canonical strings.
-/
import SmrtVerif.Model.ResultMap

namespace Smrt.Run
open Smrt.RM

/-! ## Part 1 — sensors -/

/-- a dimension of the result: name and coordinate values, `(axis, values)` in the code -/
structure Dim where
  name : String
  vals : List String
deriving Repr, DecidableEq

/-- a sensor: the value list of each axis (`np.atleast_1d(getattr(sensor, axis))`); an absent axis is `None` -/
abbrev Sensor := List (String × List String)

/-- the fixed order of `Sensor.configurations` -/
def axisOrder : List String := ["frequency", "theta_inc", "polarization_inc", "theta", "phi", "polarization"]

def values (s : Sensor) (a : String) : List String := (s.lookup a).getD []

/-- `setattr(sensor_subset, axis, v)` on a shallow copy -/
def set (s : Sensor) (a : String) (v : List String) : Sensor :=
  s.map fun p => if p.1 == a then (p.1, v) else p

/-- `Sensor.configurations()`: the axes with more than one value, in the fixed order -/
def configurations (s : Sensor) : List Dim :=
  axisOrder.filterMap fun a => if 1 < (values s a).length then some ⟨a, values s a⟩ else none

/-- `get_sensor_configurations`: those the solver cannot broadcast (`_broadcast_capability`) -/
def sensorConfigurations (bc : List String) (s : Sensor) : List Dim :=
  (configurations s).filter fun d => !bc.contains d.name

/-- `Sensor.iterate(axis)`: one shallow copy per value, that axis set to the single value -/
def iterate (s : Sensor) (a : String) : List Sensor := (values s a).map fun v => set s a [v]

/-! ## Part 2 — the snowpack container -/

/-- the `snowpack_dimension` argument: `(name, values)`; `nameIsStr = false` models a non-string first component -/
structure DimArg where
  name : String
  nameIsStr : Bool
  vals : Option (List String)
deriving Repr

/-- what the user passes as `snowpack` -/
inductive Container (S : Type) where
  | single (sp : S)
  | seq (sps : List S) (isTuple : Bool)                 -- list / tuple / ndarray of snowpacks
  | dict (items : List (String × S))
  | series (indexName : Option String) (index : List String) (sps : List S)
  | frame (columns : List String) (snowColumn : String) (indexName : Option String) (index : List String) (sps : List S)
  | study (varName : String) (vals : List String) (sps : List S)
deriving Repr

/-- the normalised container: the snowpacks (one, or a list) and the dimension to concatenate them along -/
structure Norm (S : Type) where
  sps : List S
  isSeq : Bool
  dim : Option Dim
deriving Repr

/-- `"i<k>"`: the token of the integer `k` (default coordinates `range(len(snowpack))`) -/
def rangeVals (n : Nat) : List String := (List.range n).map fun k => "i" ++ toString k

/-- the first part of `prepare_simulations` (down to the two `raise SMRTError`) -/
def normalise {S : Type} (c : Container S) (dimArg : Option DimArg) (snowpackColumn : String) : Except Err (Norm S) := do
  -- SensitivityStudy, Mapping, DataFrame → Series, Series: each overrides `snowpack_dimension`
  let (sps, isSeq, isTuple, dimArg) ←
    match c with
    | .single sp => pure ([sp], false, false, dimArg)
    | .seq sps t => pure (sps, true, t, dimArg)
    | .study v vals sps => pure (sps, true, false, some ⟨v, true, some vals⟩)
    | .dict items => pure (items.map (·.2), true, false, some ⟨"snowpack", true, some (items.map (·.1))⟩)
    | .series nm idx sps => pure (sps, true, false, some ⟨nm.getD "snowpack", true, some idx⟩)
    | .frame cols col nm idx sps =>
      if snowpackColumn != col || !cols.contains col then throw Err.smrt
      else pure (sps, true, false, some ⟨nm.getD "snowpack", true, some idx⟩)
  -- a sequence without dimension gets ('snowpack', range(len))
  let dimArg : Option DimArg :=
    if isSeq then
      match dimArg with
      | none => some ⟨"snowpack", true, some (rangeVals sps.length)⟩
      | some d => some ⟨d.name, d.nameIsStr, some (d.vals.getD (rangeVals sps.length))⟩
    else dimArg
  match dimArg with
  | none => pure ⟨sps, isSeq, none⟩
  | some d =>
    if isTuple && sps.length != (d.vals.getD []).length then throw Err.smrt
    else if !d.nameIsStr then throw Err.smrt
    else pure ⟨sps, isSeq, some ⟨d.name, d.vals.getD []⟩⟩

/-! ## Part 3 — simulations, runners, regrouping -/

/-- `prepare_recursive`: sensor axes outermost in the order of the configuration list, snowpacks innermost -/
def prepare {S : Type} : Sensor → List Dim → List S → List (Sensor × S)
  | s, [], sps => sps.map fun sp => (s, sp)
  | s, d :: ds, sps => (iterate s d.name).flatMap fun s' => prepare s' ds sps

/-- the sensor-list branch **as the code has it**: for each pair (sensor, snowpack) the configurations of that sensor
    (pair-major order) -/
def prepareZipCode {S : Type} (ss : List Sensor) (ds : List Dim) (sps : List S) : List (Sensor × S) :=
  (ss.zip sps).flatMap fun p => prepare p.1 ds [p.2]

/-- the sensor-list branch **as the regrouping requires it**: configurations outermost, pairs innermost -/
def prepareZip {S : Type} : List Sensor → List Dim → List S → List (Sensor × S)
  | ss, [], sps => ss.zip sps
  | ss, d :: ds, sps =>
    (List.range d.vals.length).flatMap fun i => prepareZip (ss.map fun s => ((iterate s d.name)[i]?).getD s) ds sps

/-- a runner: anything that returns the results of `function` on the argument list, in order
    (`SequentialRunner`: a list comprehension; `JoblibParallelRunner`: `Parallel(...)(delayed(f)(*a) for a in args)`) -/
def sequentialRunner {A B : Type} (f : A → B) (args : List A) : List B := args.map f

/-- a runner evaluating in an arbitrary order given by a permutation `π` of the positions and putting every result
    back at its position (what an order-preserving parallel map does); `d` is never used when `π` is a permutation -/
def scheduledRunner {A B : Type} (π : List Nat) (f : A → B) (args : List A) : List B :=
  let done : List (Nat × Option B) := π.map fun i => (i, (args[i]?).map f)
  (List.range args.length).filterMap fun i => (done.lookup i).bind id

/-- `results[i : i + n] for i in range(0, len(results), n)` -/
def chunk {α : Type} (n : Nat) (l : List α) : List (List α) :=
  (List.range ((l.length + n - 1) / n)).map fun i => (l.drop (i * n)).take n

/-- `[f x for x in l]` where `f` may raise -/
def mapE {α β ε : Type} (f : α → Except ε β) : List α → Except ε (List β)
  | [] => .ok []
  | a :: l => match f a with
    | .error e => .error e
    | .ok b => match mapE f l with
      | .error e => .error e
      | .ok bs => .ok (b :: bs)

/-- one pass of the regrouping loop; `assert n > 0` -/
def regroupStep {β : Type} (d : Dim) (rs : List (Res β)) : Except Err (List (Res β)) :=
  if d.vals.length = 0 then .error .shape else mapE (Res.concat d.name d.vals) (chunk d.vals.length rs)

/-- `for dimension in reversed(dimensions): …` -/
def regroup {β : Type} (dims : List Dim) (rs : List (Res β)) : Except Err (List (Res β)) :=
  dims.reverse.foldl (fun acc d => match acc with | .error e => .error e | .ok rs => regroupStep d rs) (.ok rs)

/-- `assert len(results) == 1; results = results[0]` -/
def theOne {β : Type} : List (Res β) → Except Err (Res β)
  | [r] => .ok r
  | _ => .error .shape

/-- what the user passes as `sensor` -/
inductive SensorArg where
  | one (s : Sensor)
  | many (ss : List Sensor)       -- a python sequence of sensors
deriving Repr

inductive ZipOrder where
  | code        -- pair-major (smrt before the `fix:` commit db74c75)
  | required    -- configuration-major (what the regrouping loop assumes)
deriving Repr, DecidableEq

/-- `prepare_simulations`: the flat list of simulations and the list of dimensions -/
def prepareSimulations {S : Type} (zo : ZipOrder) (bc : List String) (sensor : SensorArg) (c : Container S)
    (dimArg : Option DimArg) (snowpackColumn : String) : Except Err (List (Sensor × S) × List Dim) := do
  let nz ← normalise c dimArg snowpackColumn
  match sensor with
  | .one s =>
    let ds := sensorConfigurations bc s
    pure (prepare s ds nz.sps, ds ++ nz.dim.toList)
  | .many ss =>
    if ss.length != nz.sps.length then throw Err.smrt
    match ss with
    | [] => throw Err.shape        -- `next(iter(sensor))` on an empty list: StopIteration, outside the model
    | s0 :: _ =>
      let ds := sensorConfigurations bc s0
      let sims := match zo with
        | .code => prepareZipCode ss ds nz.sps
        | .required => prepareZip ss ds nz.sps
      pure (sims, ds ++ nz.dim.toList)

/-- `Model.run` with a runner: prepare, run every simulation, regroup -/
def runModel {S β : Type} (zo : ZipOrder) (bc : List String) (runner : (Sensor × S → Res β) → List (Sensor × S) → List (Res β))
    (f : Sensor × S → Res β) (sensor : SensorArg) (c : Container S) (dimArg : Option DimArg) (snowpackColumn : String) :
    Except Err (Res β) := do
  let (sims, dims) ← prepareSimulations zo bc sensor c dimArg snowpackColumn
  let rs ← regroup dims (runner f sims)
  theOne rs

/-! ### the specification: a table indexed by coordinates -/

/-- the flat row-major list of the leaves `g [i₁, …, i_k]`, `i_j < |dims_j|` -/
def flat {X : Type} : List Dim → (List Nat → X) → List X
  | [], g => [g []]
  | d :: ds, g => (List.range d.vals.length).flatMap fun i => flat ds fun t => g (i :: t)

/-- the table `(c₁, …, c_k) ++ key ↦ value of leaf g [i₁, …, i_k] at key`, with `c_j` the `i_j`-th value of dimension `j` -/
def table {β : Type} : List Dim → (List Nat → Res β) → Res β
  | [], g => g []
  | d :: ds, g =>
    ⟨d.name :: (table ds fun t => g (0 :: t)).dims,
     (List.range d.vals.length).flatMap fun i =>
       (table ds fun t => g (i :: t)).cells.map fun c => (d.vals.getD i "" :: c.1, c.2)⟩

/-- the coordinates of an index tuple -/
def coordsOf : List Dim → List Nat → Key
  | d :: ds, i :: t => d.vals.getD i "" :: coordsOf ds t
  | _, _ => []

/-- an index tuple within the bounds of the dimensions -/
def ValidIdx : List Dim → List Nat → Prop
  | [], [] => True
  | d :: ds, i :: t => i < d.vals.length ∧ ValidIdx ds t
  | _, _ => False

/-- the sensor subset reached by choosing the `i_j`-th value along each iterated axis -/
def cfgAt : Sensor → List Dim → List Nat → Sensor
  | s, d :: ds, i :: t => cfgAt (((iterate s d.name)[i]?).getD s) ds t
  | s, _, _ => s

/-- the simulation at an index tuple `(i₁, …, i_k, j)`: configuration `(i₁ … i_k)` of the sensor, `j`-th snowpack -/
def simAt {S X : Type} [Inhabited S] (f : Sensor × S → X) (s : Sensor) (ds : List Dim) (sps : List S) (idx : List Nat) : X :=
  f (cfgAt s ds (idx.take ds.length), sps.getD (idx.getD ds.length 0) default)

/-- the same for a list of sensors paired with the snowpacks: the `j`-th sensor with the `j`-th snowpack -/
def simAtZip {S X : Type} [Inhabited S] (f : Sensor × S → X) (ss : List Sensor) (ds : List Dim) (sps : List S)
    (idx : List Nat) : X :=
  let j := idx.getD ds.length 0
  f (cfgAt (ss.getD j []) ds (idx.take ds.length), sps.getD j default)

/-! ## Part 4 — one simulation as a program over a store -/

/-- who owns a storage location -/
inductive Owner where
  | user (obj : String)              -- snowpack, layer k, interface k, substrate, atmosphere, sensor, model: the caller's objects
  | fresh (sim : Nat) (inst : String)  -- objects created by simulation number `sim`: emmodel instances, the rtsolver instance, sensor copies
  | shared (cache : String)          -- module-level memo caches and warn-once class flags
deriving Repr, DecidableEq

structure Loc where
  owner : Owner
  field : String
deriving Repr, DecidableEq

abbrev Store (V : Type) := Loc → Option V

def Store.set {V : Type} (st : Store V) (l : Loc) (v : V) : Store V := fun l' => if l' = l then some v else st l'

/-- a simulation: reads of user locations, writes, memoised shared computations (`lru_cache`, `cached_roots_legendre`,
    numba's compilation cache, warn-once flags), and finally the result -/
inductive Prog (V : Type) where
  | ret (v : V)
  | read (obj field : String) (k : Option V → Prog V)
  | write (l : Loc) (v : V) (k : Prog V)
  | memo (cache key : String) (k : V → Prog V)

/-- execution against a store; `g cache key` is the (pure) function a cache memoises -/
def Prog.run {V : Type} (g : String → String → V) : Prog V → Store V → V × Store V
  | .ret v, st => (v, st)
  | .read o fld k, st => (k (st ⟨.user o, fld⟩)).run g st
  | .write l v k, st => k.run g (st.set l v)
  | .memo c key k, st =>
    match st ⟨.shared c, key⟩ with
    | some v => (k v).run g st
    | none => (k (g c key)).run g (st.set ⟨.shared c, key⟩ (g c key))

/-- the locations a program may write (over all branches), shared cache fills excluded -/
def Prog.WritesOnly {V : Type} (P : Loc → Prop) : Prog V → Prop
  | .ret _ => True
  | .read _ _ k => ∀ x, (k x).WritesOnly P
  | .write l _ k => P l ∧ k.WritesOnly P
  | .memo _ _ k => ∀ x, (k x).WritesOnly P

/-- every cache entry present holds the value of the memoised function -/
def Consistent {V : Type} (g : String → String → V) (st : Store V) : Prop :=
  ∀ c key v, st ⟨.shared c, key⟩ = some v → v = g c key

def readAll {V : Type} : List (String × String) → (List (Option V) → Prog V) → Prog V
  | [], k => k []
  | (o, f) :: r, k => .read o f fun x => readAll r fun xs => k (x :: xs)

def memoAll {V : Type} : List (String × String) → (List V → Prog V) → Prog V
  | [], k => k []
  | (c, key) :: r, k => .memo c key fun x => memoAll r fun xs => k (x :: xs)

def writeAll {V : Type} : List (Loc × V) → Prog V → Prog V
  | [], k => k
  | (l, v) :: r, k => .write l v (writeAll r k)

/-- the substrate under the snowpack, as far as the write set is concerned -/
inductive SubstrateKind where
  | none | other
  | reflectorUnset              -- `Reflector(specular_reflection=None)`
  | reflectorBackscatterUnset   -- `ReflectorBackscatter(specular_reflection=None)`
  | reflectorBackscatterSet
deriving Repr, DecidableEq

/-- the shape of one simulation that its write set depends on -/
structure Shape where
  nlayer : Nat
  substrate : SubstrateKind
  active : Bool
  emmodel : String
  nstream : String
deriving Repr

inductive WriteMode where
  | required   -- what the property demands: nothing of the caller's is written
  | code       -- smrt before the `fix:` commits b1c217a / c98a363: the lazily defaulted attributes of the two reflector substrates
deriving Repr, DecidableEq

/-- the caller's locations a simulation reads -/
def Shape.inputs (sh : Shape) : List (String × String) :=
  [("model", "emmodel"), ("model", "emmodel_options"), ("model", "rtsolver"), ("model", "rtsolver_options"),
   ("sensor", "frequency"), ("sensor", "theta"), ("sensor", "theta_inc"), ("sensor", "polarization"),
   ("sensor", "polarization_inc"), ("sensor", "phi"), ("snowpack", "layers"), ("snowpack", "interfaces"),
   ("snowpack", "substrate"), ("snowpack", "atmosphere")]
  ++ (List.range sh.nlayer).flatMap (fun k => [("layer " ++ toString k, "*"), ("interface " ++ toString k, "*")])
  ++ [("substrate", "specular_reflection"), ("substrate", "*"), ("atmosphere", "*")]

/-- the fields of the objects the simulation creates: one emmodel instance per layer (`prepare_emmodels`), the rtsolver
    instance (`self.rtsolver(**self.rtsolver_options)`; `DORT.solve` stores `emmodels, snowpack, sensor, atmosphere, …` on it) -/
def Shape.freshLocs (sh : Shape) (i : Nat) : List Loc :=
  (List.range sh.nlayer).flatMap (fun k => [⟨.fresh i ("emmodel " ++ toString k), "*"⟩])
  ++ ["options", "emmodels", "snowpack", "sensor", "atmosphere", "temperature", "effective_permittivity", "streams"].map
      (fun f => (⟨.fresh i "rtsolver", f⟩ : Loc))

/-- the shared memoised computations: `import_class` (lru_cache) for the emmodel, `cached_roots_legendre`, numba's
    compilation of `todiag`, and the warn-once class flag of `ReflectorBackscatter` in active mode -/
def Shape.memos (sh : Shape) : List (String × String) :=
  [("import_class", "emmodel." ++ sh.emmodel), ("cached_roots_legendre", sh.nstream), ("compiled_todiag", "signature")]
  ++ (if sh.active && (sh.substrate == .reflectorBackscatterUnset || sh.substrate == .reflectorBackscatterSet)
      then [("ReflectorBackscatter.stop_pol2_warning", "flag")] else [])

/-- the writes into the caller's objects **that smrt performs** (the model of the defect):
    `Reflector.specular_reflection_matrix` / `emissivity_matrix`: `if self.specular_reflection is None: self.specular_reflection = 1`,
    (both reflector classes).  Not modelled: in active mode `ReflectorBackscatter.emissivity_matrix` also sets
    `self.stop_pol2_warning = True` on the caller's substrate, but only in the first such simulation of a process (afterwards the
    class-level flag shadows it); the oracle observes it in its warm-up run (`user-write:ReflectorBackscatter.stop_pol2_warning`). -/
def Shape.userWrites {V : Type} (one : V) (sh : Shape) : WriteMode → List (Loc × V)
  | .required => []
  | .code =>
    (if sh.substrate == .reflectorUnset || sh.substrate == .reflectorBackscatterUnset
     then [(⟨.user "substrate", "specular_reflection"⟩, one)] else [])

/-- `run_single_simulation` for simulation number `i` of shape `sh`: `solve` is the (pure) numerical map from the values
    read and the memoised values to the result -/
def simulation {V : Type} (one : V) (wm : WriteMode) (i : Nat) (sh : Shape) (fill : V)
    (solve : List (Option V) → List V → V) : Prog V :=
  memoAll sh.memos fun ms =>
  readAll sh.inputs fun xs =>
  writeAll ((sh.freshLocs i).map fun l => (l, fill)) <|
  writeAll (sh.userWrites one wm) <|
  .ret (solve xs ms)

/-- the caller's locations a program writes along the execution from a given store -/
def Prog.userWritten {V : Type} (g : String → String → V) : Prog V → Store V → List Loc
  | .ret _, _ => []
  | .read o fld k, st => (k (st ⟨.user o, fld⟩)).userWritten g st
  | .write l v k, st =>
    (match l.owner with | .user _ => [l] | _ => []) ++ k.userWritten g (st.set l v)
  | .memo c key k, st =>
    match st ⟨.shared c, key⟩ with
    | some v => (k v).userWritten g st
    | none => (k (g c key)).userWritten g (st.set ⟨.shared c, key⟩ (g c key))

end Smrt.Run
