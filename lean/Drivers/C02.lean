import SmrtVerif.Driver.C02
def main : IO Unit := Smrt.Driver.mainLoop Smrt.Driver.C02.handle
