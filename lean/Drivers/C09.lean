import SmrtVerif.Driver.C09
def main : IO Unit := Smrt.Driver.mainLoop Smrt.Driver.C09.handle
