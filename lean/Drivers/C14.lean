import SmrtVerif.Driver.C14
def main : IO Unit := Smrt.Driver.mainLoop Smrt.Driver.C14.handle
