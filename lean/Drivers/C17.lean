import SmrtVerif.Driver.C17
def main : IO Unit := Smrt.Driver.mainLoop Smrt.Driver.C17.handle
