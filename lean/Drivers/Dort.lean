import SmrtVerif.Driver.Dort
def main : IO Unit := Smrt.Driver.mainLoop Smrt.Driver.DortD.handle
