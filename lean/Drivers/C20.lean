import SmrtVerif.Driver.C20
def main : IO Unit := Smrt.Driver.mainLoop Smrt.Driver.C20.handle
