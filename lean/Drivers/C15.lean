import SmrtVerif.Driver.C15
def main : IO Unit := Smrt.Driver.mainLoop Smrt.Driver.C15.handle
