import SmrtVerif.Driver.C18
def main : IO Unit := Smrt.Driver.mainLoop Smrt.Driver.C18.handle
