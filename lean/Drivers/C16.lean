import SmrtVerif.Driver.C16
def main : IO Unit := Smrt.Driver.mainLoop Smrt.Driver.C16.handle
