import SmrtVerif.Driver.C12
def main : IO Unit := Smrt.Driver.mainLoop Smrt.Driver.C12.handle
