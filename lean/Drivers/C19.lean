import SmrtVerif.Driver.C19
def main : IO Unit := Smrt.Driver.mainLoop Smrt.Driver.C19.handle
