import SmrtVerif.Driver.C08
def main : IO Unit := Smrt.Driver.mainLoop Smrt.Driver.C08.handle
