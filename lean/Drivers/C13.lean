import SmrtVerif.Driver.C13
def main : IO Unit := Smrt.Driver.mainLoop Smrt.Driver.C13.handle
