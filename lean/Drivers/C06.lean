import SmrtVerif.Driver.C06
def main : IO Unit := Smrt.Driver.mainLoop Smrt.Driver.C06.handle
