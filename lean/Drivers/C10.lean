import SmrtVerif.Driver.C10
def main : IO Unit := Smrt.Driver.mainLoop Smrt.Driver.C10.handle
