import SmrtVerif.Driver.C11
def main : IO Unit := Smrt.Driver.mainLoop Smrt.Driver.C11.handle
