import SmrtVerif.Driver.C07
def main : IO Unit := Smrt.Driver.mainLoop Smrt.Driver.C07.handle
