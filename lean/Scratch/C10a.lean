import SmrtVerif.Model.Emmodel
import SmrtVerif.Proofs.RealTransc
import Mathlib.Analysis.SpecialFunctions.Trigonometric.Basic
import Mathlib.Analysis.SpecialFunctions.Sqrt
import Mathlib.Tactic.Ring
import Mathlib.Tactic.Linarith
import Mathlib.Tactic.NormNum
import Mathlib.Tactic.IntervalCases
import Mathlib.Tactic.LinearCombination

open Smrt Smrt.Em

theorem t1 (ks μs μi φ : ℝ) (hs : μs * μs ≤ 1) (hi : μi * μi ≤ 1) (p q : Nat) (hp : p < 3) (hq : q < 3) :
    rayPhase ks p q μs μi φ = ∑ m ∈ Finset.range 3, ulaby ks m p q μs μi * basis p q m φ := by
  have ha : Real.sqrt (1 - μs * μs) ^ 2 = 1 - μs * μs := Real.sq_sqrt (by linarith)
  have hb : Real.sqrt (1 - μi * μi) ^ 2 = 1 - μi * μi := Real.sq_sqrt (by linarith)
  have hc := Real.sin_sq_add_cos_sq φ
  simp only [Finset.sum_range_succ, Finset.sum_range_zero]
  interval_cases p <;> interval_cases q <;>
    simp only [rayPhase, rayP, ulaby, ulabySigned, ulabyRaw, basis, fvv, fvh, fhv, fhh, sinOf, transc_sqrt_real, transc_cos_real, transc_sin_real] <;>
    norm_num [Real.cos_two_mul, Real.sin_two_mul] <;>
    generalize Real.sqrt (1 - μs * μs) = a at ha ⊢ <;>
    generalize Real.sqrt (1 - μi * μi) = b at hb ⊢ <;>
    generalize Real.cos φ = c at hc ⊢ <;>
    generalize Real.sin φ = s at hc ⊢ <;>
    trace_state <;> sorry
