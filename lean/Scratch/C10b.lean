import SmrtVerif.Model.Emmodel
import SmrtVerif.Proofs.RealTransc
import Mathlib.Analysis.SpecialFunctions.Integrals.Basic
import Mathlib.Tactic.Ring
import Mathlib.Tactic.Linarith
import Mathlib.Tactic.NormNum
import Mathlib.Tactic.IntervalCases

open Smrt Smrt.Em

theorem poly_int (a b : ℝ) : ∫ x in (-1:ℝ)..1, (a + b * x ^ 2) = 2 * a + 2 / 3 * b := by
  have h1 : IntervalIntegrable (fun _ : ℝ => a) MeasureTheory.volume (-1) 1 := intervalIntegrable_const
  have h2 : IntervalIntegrable (fun x : ℝ => b * x ^ 2) MeasureTheory.volume (-1) 1 :=
    (continuous_const.mul (continuous_pow 2)).intervalIntegrable _ _
  rw [intervalIntegral.integral_add h1 h2, intervalIntegral.integral_const_mul, integral_pow]
  simp; ring

theorem e1 (ks μi : ℝ) (pcol : Nat) (hp : pcol < 2) :
    (1 / 2 : ℝ) * ∫ μs in (-1:ℝ)..1, (ulaby ks 0 0 pcol μs μi + ulaby ks 0 1 pcol μs μi) = ks := by
  interval_cases pcol
  · have : ∀ μs : ℝ, ulaby ks 0 0 0 μs μi + ulaby ks 0 1 0 μs μi
        = (3 * ks / 2 * ((1 - μi * μi) + 1 / 2 * (μi * μi))) + (3 * ks / 2 * (1 / 2 * (μi * μi) - (1 - μi * μi))) * μs ^ 2 := by
      intro μs
      simp only [ulaby, ulabySigned, ulabyRaw]; norm_num; ring
    simp only [this, poly_int]; ring
  · have : ∀ μs : ℝ, ulaby ks 0 0 1 μs μi + ulaby ks 0 1 1 μs μi
        = (3 * ks / 2 * (1 / 2)) + (3 * ks / 2 * (1 / 2)) * μs ^ 2 := by
      intro μs
      simp only [ulaby, ulabySigned, ulabyRaw]; norm_num; ring
    simp only [this, poly_int]; ring
