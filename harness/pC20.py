"""C20 — compact matrix containers and the Fourier helper: correspondence harness and property oracle."""
import itertools, math
import numpy as np
import common as C
from common import Corr, Tol, Finding, f2t, fs

PROP = "C20"
DRIVER = "C20"
LEAN_TARGETS = ["SmrtVerif.Props.C20", "SmrtVerif.Driver.C20"]
TRUSTED = ["correspondence harness harness/pC20.py and driver SmrtVerif/Driver/C20.lean",
           "scipy.linalg.solve_banded storage convention ab[u+i-j, j] = a[i, j]", "np.fft.fft is the DFT",
           "real arithmetic in the theorems vs IEEE doubles in the code (rounding not modelled)"]
ASSUMPTIONS = ["operators are compared on matching shapes (numpy broadcasting of mismatched shapes is outside the model)"]
RULE = ("all container kind pairs x npol {2,3} x 1..6 directions x 0..4 modes x every operator; todiag for block shapes <= 12x12 at "
        "offsets of banded systems <= 60x60 (python and numba twins); Fourier helper on random band-limited matrices; "
        "distinct = distinct (slice, input line); values are random so every case is non-trivial")

TOL = Tol(1e-13, 1e-300)


def lib():
    from smrt.core import lib
    return lib


def ser_sm(m):
    """canonical line fragment of a smrt_matrix (same as the driver's showSM)"""
    if m.mtype == "0":
        return "0"
    v = np.asarray(m.values, dtype=float)
    if m.mtype == "diagonal4":
        return f"d4 {v.shape[0]} {v.shape[1]} " + fs(v)
    if m.mtype == "diagonal5":
        return f"d5 {v.shape[0]} {v.shape[1]} {v.shape[2]} " + fs(v)
    if m.mtype == "dense4":
        assert v.shape[0] == v.shape[1]
        return f"e4 {v.shape[0]} {v.shape[2]} {v.shape[3]} " + fs(v)
    if m.mtype == "dense5":
        assert v.shape[0] == v.shape[1]
        return f"e5 {v.shape[0]} {v.shape[2]} {v.shape[3]} {v.shape[4]} " + fs(v)
    raise ValueError(m.mtype)


def ser_cv(x):
    L = lib()
    if isinstance(x, L.smrt_diag):
        return f"diag {len(x.diag)} " + fs(x.diag)
    if np.isscalar(x) or getattr(x, "shape", None) == ():
        return "0" if x == 0 else "scalar " + f2t(x)
    x = np.asarray(x, dtype=float)
    return f"dense {x.shape[0]} {x.shape[1]} " + fs(x)


def impl(fn, ser):
    """run an implementation operation; canonical output or error kind"""
    try:
        return ser(fn())
    except Exception as e:  # noqa
        from smrt.core.error import SMRTError
        if isinstance(e, SMRTError):
            return "ERR SMRTError"
        if isinstance(e, NotImplementedError):
            return "ERR NotImplementedError"
        if isinstance(e, (ValueError, AssertionError)):
            return "ERR ShapeError"
        if isinstance(e, IndexError):
            return "ERR IndexError"
        return "ERR foreign:" + type(e).__name__


def rand_sm(rng, kind, npol, n, nm, ni=None):
    L = lib()
    ni = n if ni is None else ni
    r = lambda *s: rng.uniform(-2, 2, size=s)
    if kind == "0":
        return L.smrt_matrix(0)
    if kind == "d4":
        return L.smrt_matrix(r(npol, n))
    if kind == "d5":
        return L.smrt_matrix(r(npol, nm, n))
    if kind == "e4":
        return L.smrt_matrix(r(npol, npol, n, ni))
    if kind == "e5":
        return L.smrt_matrix(r(npol, npol, nm, n, ni))


KINDS = ["0", "d4", "d5", "e4", "e5"]


def correspond(ctx):
    L = lib()
    from smrt.rtsolver import dort
    co = Corr(PROP, DRIVER)
    rng = ctx.np
    reps = ctx.n(1, 4)

    # ---- smrt_diag operators
    for n in range(1, 7):
        for _ in range(reps):
            a, b = rng.uniform(-2, 2, n), rng.uniform(-2, 2, n)
            M = rng.uniform(-2, 2, (n, int(rng.integers(1, 7))))
            Mr = rng.uniform(-2, 2, (int(rng.integers(1, 7)), n))
            Sq = rng.uniform(-2, 2, (n, n))
            s = float(rng.uniform(-3, 3))
            da, db = f"{n} {fs(a)}", f"{n} {fs(b)}"
            mat = lambda X: f"{X.shape[0]} {X.shape[1]} {fs(X)}"
            D = L.smrt_diag
            co.add("diag.matmul", f"dd_matmul {da} {db}", impl(lambda: D(a.copy()) @ D(b.copy()), ser_cv), TOL)
            co.add("diag.matmul", f"dm_matmul {da} {mat(M)}", impl(lambda: D(a.copy()) @ M.copy(), ser_cv), TOL)
            co.add("diag.matmul", f"md_matmul {mat(Mr)} {da}", impl(lambda: Mr.copy() @ D(a.copy()), ser_cv), TOL)
            co.add("diag.scalar", f"d_mul {da} {f2t(s)}", impl(lambda: D(a.copy()) * s, ser_cv), TOL)
            co.add("diag.scalar", f"d_rmul {da} {f2t(s)}", impl(lambda: s * D(a.copy()), ser_cv), TOL)
            co.add("diag.add", f"dd_add {da} {db}", impl(lambda: D(a.copy()) + D(b.copy()), ser_cv), TOL)
            co.add("diag.add", f"dd_add {da} {db}", impl(lambda: D(a.copy()).__iadd__(D(b.copy())), ser_cv), TOL)
            co.add("diag.sub", f"dd_sub {da} {db}", impl(lambda: D(a.copy()) - D(b.copy()), ser_cv), TOL)
            co.add("diag.sub", f"dd_sub {da} {db}", impl(lambda: D(a.copy()).__isub__(D(b.copy())), ser_cv), TOL)
            co.add("diag.add_ndarray", f"dm_add {da} {mat(Sq)}", impl(lambda: D(a.copy()) + Sq.copy(), ser_cv), TOL)
            co.add("diag.add_ndarray", f"dm_add {da} {mat(Sq)}", impl(lambda: Sq.copy() + D(a.copy()), ser_cv), TOL)
            co.add("diag.todense", f"d_todense {da}", impl(lambda: np.array([[D(a)[i, j] for j in range(n)] for i in range(n)]), ser_cv), TOL)
            i, j = int(rng.integers(0, n)), int(rng.integers(0, n))
            co.add("diag.getitem", f"d_get {da} {i} {j}", impl(lambda: f2t(D(a)[i, j]), str), TOL)
            # helpers of dort.py on compressed values
            co.add("dort.matmul", f"cv_matmul diag {da} dense {mat(M)}", impl(lambda: dort.matmul(D(a.copy()), M.copy()), ser_cv), TOL)
            co.add("dort.matmul", f"cv_matmul dense {mat(Mr)} diag {da}", impl(lambda: dort.matmul(Mr.copy(), D(a.copy())), ser_cv), TOL)
            co.add("dort.matmul", f"cv_matmul 0 dense {mat(M)}", impl(lambda: dort.matmul(np.float64(0.), M.copy()), ser_cv), TOL)
            co.add("dort.matmul", f"cv_matmul dense {mat(Mr)} dense {mat(M)}", impl(lambda: dort.matmul(Mr.copy(), M.copy()), ser_cv), TOL)
            co.add("dort.muleye", f"cv_muleye diag {da}", impl(lambda: fs(dort.muleye(D(a))), str), TOL)
            co.add("dort.muleye", f"cv_muleye dense {mat(Mr)}", impl(lambda: fs(dort.muleye(Mr)), str), TOL)

    # ---- smrt_matrix: unary operations on every kind, binary on every kind pair
    for npol in (2, 3):
        for n in range(1, 7):
            for nm in (1, 2, 3, 5) if ctx.thorough else (1, 3):
                ni = n if rng.random() < 0.5 else int(rng.integers(1, 7))
                mats = {k: rand_sm(rng, k, npol, n, nm, ni if k in ("e4", "e5") else None) for k in KINDS}
                for k, m in mats.items():
                    s = ser_sm(m)
                    for mode in [-1] + list(range(nm)):
                        for ar in (0, 1):
                            co.add("matrix.compress", f"compress {mode} {ar} {s}",
                                   impl(lambda: m.compress(mode=None if mode < 0 else mode, auto_reduce_npol=bool(ar)), ser_cv), TOL)
                            if mode >= 0 and k != "0":
                                co.add("matrix.sel", f"sel {mode} {ar} {s}",
                                       impl(lambda: m.sel(mode=mode, auto_reduce_npol=bool(ar)), ser_sm), TOL)
                    if k != "0":
                        co.add("matrix.todense", f"todense {s}", impl(lambda: m.to_dense(), ser_sm), TOL)
                    if k in ("d4", "d5") or (k in ("e4", "e5") and m.values.shape[-1] == m.values.shape[-2]):
                        co.add("matrix.diagonal", f"diagonal {s}", impl(lambda: L.smrt_matrix(np.array(m.diagonal)), ser_sm), TOL)
                    sc = float(rng.uniform(-3, 3))
                    co.add("matrix.scalar", f"muls {f2t(sc)} {s}", impl(lambda: m * sc, ser_sm), TOL)
                    co.add("matrix.scalar", f"muls {f2t(sc)} {s}", impl(lambda: sc * m, ser_sm), TOL)
                    co.add("matrix.scalar", f"muls {f2t(1 / sc)} {s}", impl(lambda: m / sc, ser_sm), Tol(1e-12))
                for ka, kb in itertools.product(KINDS, KINDS):
                    a = mats[ka]
                    if ka in ("e4", "e5") and kb in ("d4", "d5"):
                        a = rand_sm(rng, ka, npol, n, nm)      # mixed layouts: square dense operand
                    if ka == kb and ka != "0":
                        b = L.smrt_matrix(rng.uniform(-2, 2, a.values.shape))
                    else:
                        b = rand_sm(rng, kb, npol, n, nm)
                    same = (ka == kb) or ka == "0" or kb == "0"
                    sl = "matrix.addsub" if same else "matrix.addsub.mixed"
                    co.add(sl, f"add {ser_sm(a)} {ser_sm(b)}", impl(lambda: a + b, ser_sm), TOL)
                    co.add(sl, f"sub {ser_sm(a)} {ser_sm(b)}", impl(lambda: a - b, ser_sm), TOL)
                    co.note(f"pair {ka}/{kb}")
                # shapes that do not match and cannot be broadcast: both sides must refuse
                for k in ("d4", "e4"):
                    a = rand_sm(rng, k, npol, n + 1, nm)
                    b = rand_sm(rng, k, npol, n + 2, nm)
                    co.add("matrix.addsub.shape", f"add {ser_sm(a)} {ser_sm(b)}", impl(lambda: a + b, ser_sm), TOL)

    # ---- extend_2pol_npol
    for npol in (2, 3):
        for n in range(1, 5):
            x = rng.uniform(-2, 2, 2 * n)
            X = rng.uniform(-2, 2, (2 * n, 2 * int(rng.integers(1, 4))))
            co.add("extend_2pol", f"extend2vec {npol} {len(x)} {fs(x)}", impl(lambda: fs(dort.extend_2pol_npol(x, npol)), str), TOL)
            co.add("extend_2pol", f"extend2mat {npol} {X.shape[0]} {X.shape[1]} {fs(X)}", impl(lambda: fs(dort.extend_2pol_npol(X, npol)), str), TOL)

    # ---- todiag (the numba twin is `dort.todiag`, the python twin its py_func) and banded = dense
    py_todiag = getattr(getattr(dort, "compiled_todiag", None), "py_func", None)
    twins = [("numba", dort.todiag)] + ([("python", py_todiag)] if py_todiag else [])
    shapes = [(n, m) for n in range(1, 13) for m in range(1, 13)]
    if not ctx.thorough:
        shapes = [shapes[i] for i in rng.choice(len(shapes), 40, replace=False)] + [(1, 1), (12, 12), (1, 12), (12, 1)]
    for (n, m) in shapes:
        for _ in range(ctx.n(1, 3)):
            N = int(rng.integers(max(n, m), 61))
            u = int(rng.integers(max(n, m) - 1, min(N, 3 * max(n, m)) + 1))
            # offsets such that the block lies in the band (the solver's case), occasionally outside
            oi = int(rng.integers(0, N - n + 1))
            lo, hi = max(0, oi + n - 1 - u), min(N - m, oi + u - (m - 1))
            inside = lo <= hi and rng.random() < 0.9
            oj = int(rng.integers(lo, hi + 1)) if inside else int(rng.integers(0, N - m + 1))
            d = np.arange(1, n * m + 1, dtype=float).reshape(n, m) + float(rng.integers(0, 5))
            init = rng.integers(-9, 0, size=(2 * u + 1, N)).astype(float)
            in_band = (u + oi - oj - (m - 1) >= 0) and (u + oi - oj + n - 1 <= 2 * u)
            co.note("todiag in-band" if in_band else "todiag out-of-band")
            for name, fn in twins:
                if not in_band and name == "numba":
                    continue  # numba does not bound-check: undefined behaviour, never exercised
                def run():
                    b = init.copy()
                    if not in_band and (u + oi - oj - (m - 1) < 0):
                        raise IndexError("negative row would wrap")   # numpy silently wraps; outside the contract
                    fn(b, oi, oj, d.copy())
                    return fs(b)
                co.add("todiag." + name, f"todiag {u} {N} {oi} {oj} {n} {m} {fs(init)} {fs(d)}", impl(run, str), C.EXACT,
                       desc={"u": u, "N": N, "oi": oi, "oj": oj, "n": n, "m": m})
    # banded storage stands for the dense matrix: solve_banded(ab) = solve(dense(ab))
    import scipy.linalg
    for _ in range(ctx.n(6, 40)):
        N = int(rng.integers(2, 25)); u = int(rng.integers(1, N))
        ab = rng.uniform(-1, 1, (2 * u + 1, N)); ab[u] += 8.0
        rhs = rng.uniform(-1, 1, N)
        x = scipy.linalg.solve_banded((u, u), ab, rhs)
        # the implementation side: dense matrix that reproduces scipy's solution, recovered independently of the model
        dense = np.zeros((N, N))
        for i in range(N):
            for j in range(N):
                if abs(i - j) <= u:
                    dense[i, j] = ab[u + i - j, j]
        assert np.allclose(dense @ x, rhs, atol=1e-9)
        co.add("banded.dense", f"banded_dense {u} {N} {fs(ab)}", fs(dense), C.EXACT)

    # ---- Fourier helper on random band-limited matrices (even V/H block, odd VU/HU/UV/UH entries)
    for case in fourier_cases(ctx):
        npol, N, m_max, ns, ni, coefA, fn = case
        K = N // 2 + 1
        dphi = np.linspace(0, np.pi, K)
        samples = fn(dphi).values            # npol, npol, K, ns, ni
        out = impl(lambda: fs(L.generic_ft_even_matrix(fn, m_max, nsamples=N).values), str)
        co.add("fourier", f"fourier {npol} {N} {m_max} {ns} {ni} {fs(samples)}", out, Tol(1e-12, 1e-13),
               desc={"npol": npol, "nsamples": N, "m_max": m_max, "ns": ns, "ni": ni})
        co.note(f"fourier npol={npol} N={N}")

    # ---- block offsets / band width of dort_modem_banded, observed through special_return="bBC"
    for ns, npol, nband, nboundary in dort_layouts(ctx):
        co.add("dort.layout", f"layout {npol} " + " ".join(map(str, ns)),
               "%d %d" % (nband, nboundary), C.EXACT, desc={"streams": ns, "npol": npol})
    return co


def fourier_cases(ctx, n=None):
    """random trigonometric-polynomial phase matrices of degree <= m_max, with the parity the helper assumes"""
    L = lib()
    rng = ctx.np
    out = []
    for _ in range(n or ctx.n(8, 40)):
        npol = int(rng.choice([2, 3]))
        m_max = int(rng.integers(0, 5))
        deg = int(rng.integers(0, m_max + 1))
        N = int(rng.choice([v for v in (4, 6, 8, 10, 16, 32, 64) if v > 2 * m_max]))
        ns, ni = int(rng.integers(1, 4)), int(rng.integers(1, 4))
        A = rng.uniform(-2, 2, (npol, npol, deg + 1, ns, ni))   # cos coefficients (even entries), sin coefficients (odd entries)
        odd = np.zeros((npol, npol), dtype=bool)
        if npol == 3:
            odd[0:2, 2] = True; odd[2, 0:2] = True
            A[odd, 0] = 0.0

        def fn(dphi, A=A, odd=odd, npol=npol, deg=deg):
            dphi = np.atleast_1d(dphi)
            n = np.arange(deg + 1)
            c = np.cos(np.outer(n, dphi)); sn = np.sin(np.outer(n, dphi))        # deg+1, K
            p = np.einsum("pqnij,nk->pqkij", A, c)
            po = np.einsum("pqnij,nk->pqkij", A, sn)
            p[odd] = po[odd]
            return L.smrt_matrix(p)
        out.append((npol, N, m_max, ns, ni, (A, odd, deg), fn))
    return out


def dort_layouts(ctx):
    """band width and system size the solver really allocates, for stacks with varying stream counts"""
    from smrt import make_snowpack, make_model, sensor_list
    from smrt.rtsolver.dort import DORT
    out = []
    rng = ctx.np
    for _ in range(ctx.n(4, 20)):
        nl = int(rng.integers(1, 6))
        dens = rng.uniform(150, 900, nl)
        if nl >= 2 and rng.random() < 0.4:
            dens[0], dens[1] = rng.uniform(850, 915), rng.uniform(50, 90)       # ice crust over fresh snow: n0 >= 2 n1 + 1
        sp = make_snowpack(thickness=rng.uniform(0.1, 2, nl), microstructure_model="homogeneous", density=dens, temperature=260)
        nmax = int(rng.integers(8, 17))
        for mode_passive in (True, False):
            sensor = sensor_list.passive(13e9, 40) if mode_passive else sensor_list.active(13e9, 40)
            m = make_model("nonscattering", "dort", rtsolver_options=dict(n_max_stream=nmax))
            emmodels = [m.emmodel[0](sensor, lay) if isinstance(m.emmodel, list) else m.emmodel(sensor, lay) for lay in sp.layers]
            solver = DORT(n_max_stream=nmax)
            solver.emmodels, solver.snowpack, solver.sensor, solver.atmosphere = emmodels, sp, sensor, None
            solver.effective_permittivity = np.array([e.effective_permittivity() for e in emmodels])
            solver.substrate_permittivity = None
            solver.temperature = [l.temperature for l in sp.layers] if mode_passive else None
            for mm in ([0] if mode_passive else [0, 1]):
                from smrt.rtsolver.dort import compute_stream
                try:
                    st = compute_stream(nmax, solver.effective_permittivity, None)
                except AssertionError:
                    continue          # fewer than 3 streams somewhere: outside the solver's own validity
                bBC, b = solver.dort(m_max=mm, special_return="bBC") if mm == 0 else dort_mode(solver, mm)
                npol = 2 if mm == 0 else 3
                out.append(([int(v) for v in st.n], npol, (bBC.shape[0] - 1) // 2, bBC.shape[1]))
    return out


def dort_mode(solver, m):
    """call dort_modem_banded for mode m with special_return (dort() only exposes mode 0)"""
    from smrt.rtsolver import dort as D
    streams = D.compute_stream(solver.n_max_stream, solver.effective_permittivity, solver.substrate_permittivity, mode=solver.stream_mode)
    solver.atmosphere_result = None
    i0, ih, inc = solver.prepare_intensity_array(streams)
    interfaces = D.InterfaceProperties(solver.sensor.frequency, solver.snowpack.interfaces, solver.snowpack.substrate,
                                       solver.effective_permittivity, streams, m, 3)
    eig = [D.EigenValueSolver(solver.emmodels[l].ke, solver.emmodels[l].ks, solver.emmodels[l].ft_even_phase, streams.mu[l],
                              streams.weight[l], m, solver.phase_normalization, solver.diagonalization_method)
           for l in range(len(solver.emmodels))]
    return solver.dort_modem_banded(m, streams, eig, interfaces, ih, special_return="bBC")


# ---------------------------------------------------------------------------------------------
# the property itself on the implementation (search for a failing input)

def check_band_solution(dens, nmax, active=False):
    """on a real run: the dense matrix made of the blocks handed to todiag (at their offsets) is the matrix the banded storage handed to
    scipy.linalg.solve_banded stands for, and the returned x solves it - whatever the band layout the solver chooses"""
    import scipy.linalg
    from smrt import make_snowpack, make_model, sensor_list
    from smrt.rtsolver import dort as D
    blocks, calls = [], []
    orig_todiag, orig_solve = D.todiag, scipy.linalg.solve_banded

    def todiag(bmat, oi, oj, dmat, *a, **k):
        blocks.append((int(oi), int(oj), np.array(dmat, dtype=float)))
        return orig_todiag(bmat, oi, oj, dmat, *a, **k)

    def solve_banded(l_and_u, ab, b, *a, **k):
        ab0, b0 = np.array(ab, dtype=float), np.array(b, dtype=float)
        x = orig_solve(l_and_u, ab, b, *a, **k)
        calls.append((tuple(int(v) for v in l_and_u), ab0, b0, np.array(x, dtype=float), list(blocks)))
        blocks.clear()
        return x
    D.todiag, scipy.linalg.solve_banded = todiag, solve_banded
    try:
        sp = make_snowpack([0.05 + 0.1 * i for i in range(len(dens))], "exponential", density=list(dens), corr_length=1e-4, temperature=260)
        m = make_model("iba", "dort", rtsolver_options=dict(n_max_stream=nmax, m_max=1))
        sensor = sensor_list.active(13e9, 35.) if active else sensor_list.passive(19e9, 35.)
        m.run(sensor, sp)
    except AssertionError:
        return None
    finally:
        D.todiag, scipy.linalg.solve_banded = orig_todiag, orig_solve
    for (lo, up), ab, b, x, blks in calls:
        N = ab.shape[1]
        dense = np.zeros((N, N))
        for oi, oj, dm in blks:
            dense[oi:oi + dm.shape[0], oj:oj + dm.shape[1]] = dm
        band = np.zeros((N, N))
        for i in range(N):
            for j in range(max(0, i - lo), min(N, i + up + 1)):
                band[i, j] = ab[up + i - j, j]
        scale = float(np.abs(dense).max())
        mis = float(np.abs(band - dense).max() / scale)
        if not mis <= 1e-12:
            return ("band-encodes-dense", mis, "the banded storage equals the dense matrix of the blocks (relative 1e-12)")
        res = float(np.abs(dense @ x - b).max() / max(1e-300, (np.abs(dense) @ np.abs(x) + np.abs(b)).max()))
        if not res <= 1e-9:
            return ("band-solution", res, "D x = b (relative 1e-9)")
    return None


def check_todiag(rng, n, m):
    """a block of any shape (wide, square, tall) written at any offset of a banded matrix: entry (i, j) of the block is found at
    ab[u + oi + i - oj - j, oj + j], nothing else is written"""
    from smrt.rtsolver import dort as D
    oi, oj = int(rng.integers(0, 6)), int(rng.integers(0, 6))
    # the narrowest band that holds the block (its corner entries then lie on the outermost diagonals), and wider ones
    umin = max(oi - oj + n - 1, oj - oi + m - 1, 0)
    for u in (umin, umin + 1, max(n, m) + abs(oi - oj) + int(rng.integers(0, 3))):
        N = max(oi + n, oj + m) + int(rng.integers(0, 3))
        ab = np.zeros((2 * u + 1, N))
        blk = rng.uniform(1, 2, (n, m))
        D.todiag(ab, oi, oj, blk)
        want = np.zeros_like(ab)
        for i in range(n):
            for j in range(m):
                want[u + oi + i - oj - j, oj + j] = blk[i, j]
        if not np.array_equal(ab, want):
            bad = np.argwhere(ab != want)
            return ("todiag", f"a {n} x {m} block at offset ({oi}, {oj}) of a banded matrix with u = {u}: {len(bad)} entries of the storage are wrong "
                    f"(first at {bad[0].tolist()})", "every entry at ab[u + oi + i - oj - j, oj + j]")
    return None


def band_scenes(rng, n):
    out = []
    for k in range(n):
        nl = int(rng.integers(1, 5))
        dens = [round(float(v), 1) for v in rng.uniform(60, 910, nl)]
        if k % 2 == 0 and nl >= 2:
            # a far more refringent top layer (ice crust over fresh snow): many more streams in layer 0 than below
            dens[0], dens[1] = round(float(rng.uniform(850, 915)), 1), round(float(rng.uniform(50, 90)), 1)
        out.append((dens, int(rng.choice([8, 12, 16])), bool(k % 4 == 3)))
    return out


def dense_of_diag(d):
    return np.diag(np.asarray(d.diag, dtype=float))


def dense_of_sm(m):
    """dense 4/5-d array a smrt_matrix stands for"""
    v = np.asarray(m.values, dtype=float)
    if m.mtype == "diagonal4":
        npol, n = v.shape
        out = np.zeros((npol, npol, n, n))
        for p in range(npol):
            out[p, p] = np.diag(v[p])
        return out
    if m.mtype == "diagonal5":
        npol, nm, n = v.shape
        out = np.zeros((npol, npol, nm, n, n))
        for p in range(npol):
            for k in range(nm):
                out[p, p, k] = np.diag(v[p, k])
        return out
    return v


def compressed_dense(x, r=None, c=None):
    L = lib()
    if isinstance(x, L.smrt_diag):
        return np.diag(x.diag)
    return np.asarray(x, dtype=float)


def check_case(op, args):
    """evaluate one operator on the implementation against the equivalent dense computation.
    returns None if it agrees, else (observed, required)"""
    L = lib()
    D = L.smrt_diag
    tol = 1e-12
    def bad(obs, req):
        obs, req = np.asarray(obs, dtype=float), np.asarray(req, dtype=float)
        return obs.shape != req.shape or not np.allclose(obs, req, rtol=tol, atol=tol)
    if op in ("diag-diag", "diag+diag", "diag*diag"):
        a, b = np.array(args["a"]), np.array(args["b"])
        got = {"diag-diag": lambda: D(a.copy()) - D(b.copy()), "diag+diag": lambda: D(a.copy()) + D(b.copy()),
               "diag*diag": lambda: D(a.copy()) @ D(b.copy())}[op]()
        req = {"diag-diag": np.diag(a) - np.diag(b), "diag+diag": np.diag(a) + np.diag(b), "diag*diag": np.diag(a) @ np.diag(b)}[op]
        return (compressed_dense(got).tolist(), req.tolist()) if bad(compressed_dense(got), req) else None
    if op in ("diag-=diag", "diag+=diag"):
        a, b = np.array(args["a"]), np.array(args["b"])
        x = D(a.copy())
        x = x.__isub__(D(b.copy())) if op == "diag-=diag" else x.__iadd__(D(b.copy()))
        req = np.diag(a) - np.diag(b) if op == "diag-=diag" else np.diag(a) + np.diag(b)
        return (compressed_dense(x).tolist(), req.tolist()) if bad(compressed_dense(x), req) else None
    if op in ("diag+ndarray", "ndarray+diag"):
        a, M = np.array(args["a"]), np.array(args["M"], dtype=float)
        req = np.diag(a) + M
        Mu, Du = M.copy(), D(a.copy())           # the caller's operands: the same objects are used twice
        try:
            got = Du + Mu if op == "diag+ndarray" else Mu + Du
            again = Du + Mu if op == "diag+ndarray" else Mu + Du
        except Exception as e:
            return ("raises " + type(e).__name__, req.tolist())
        if bad(got, req):
            return (np.asarray(got).tolist(), req.tolist())
        if bad(again, req) or bad(Mu, M) or bad(np.diag(Du.diag), np.diag(a)):
            return ("the operation changed its operands: the same sum computed a second time gives " + str(np.asarray(again).tolist()), req.tolist())
        return None
    if op in ("diag@ndarray", "ndarray@diag"):
        a, M = np.array(args["a"]), np.array(args["M"], dtype=float)
        Mu, Du = M.copy(), D(a.copy())
        got = Du @ Mu if op == "diag@ndarray" else Mu @ Du
        again = Du @ Mu if op == "diag@ndarray" else Mu @ Du
        req = np.diag(a) @ M if op == "diag@ndarray" else M @ np.diag(a)
        if bad(got, req):
            return (np.asarray(got).tolist(), req.tolist())
        if bad(again, req) or bad(Mu, M) or bad(np.diag(Du.diag), np.diag(a)):
            return ("the operation changed its operands: the same product computed a second time gives " + str(np.asarray(again).tolist()), req.tolist())
        return None
    if op in ("muleye:diag", "muleye:dense"):
        # the product with the vector of ones (the row sums), whatever the storage and the shape (rectangular blocks: up x down streams)
        from smrt.rtsolver import dort
        M = np.array(args["M"], dtype=float)
        x = D(M.copy()) if op == "muleye:diag" else M.copy()
        got = np.asarray(dort.muleye(x), dtype=float)
        req = (np.diag(M) if op == "muleye:diag" else M) @ np.ones((len(M) if op == "muleye:diag" else M.shape[1]))
        return (got.tolist(), req.tolist()) if bad(got, req) else None
    if op in ("matrix+matrix", "matrix-matrix"):
        a = L.smrt_matrix(np.array(args["a"]), args["ka"]) if args["ka"] != "0" else L.smrt_matrix(0)
        b = L.smrt_matrix(np.array(args["b"]), args["kb"]) if args["kb"] != "0" else L.smrt_matrix(0)
        da = dense_of_sm(a) if args["ka"] != "0" else 0.0
        db = dense_of_sm(b) if args["kb"] != "0" else 0.0
        req = da + db if op == "matrix+matrix" else da - db
        try:
            got = a + b if op == "matrix+matrix" else a - b
            again = a + b if op == "matrix+matrix" else a - b      # the same operand objects a second time
        except (ValueError, NotImplementedError):
            return None                      # a loud refusal is not a wrong number
        gd = dense_of_sm(got) if got.mtype != "0" else np.zeros(np.shape(req))
        if bad(gd, req):
            return (np.asarray(gd).tolist(), np.asarray(req).tolist())
        ad = dense_of_sm(again) if again.mtype != "0" else np.zeros(np.shape(req))
        if bad(ad, req):
            return ("the operation changed its operands: computed a second time it gives " + str(np.asarray(ad).tolist()), np.asarray(req).tolist())
        return None
    raise KeyError(op)


def check_compress(rng, kind, npol, ns, ni, nm, mode, reduce_):
    """compress(mode, auto_reduce_npol) against the plain re-indexing C[i*P + p, j*P + q] = M[p, q, (mode), i, j] - scattered and incident
    directions need not be equally many"""
    L = lib()
    m = rand_sm(rng, kind, npol, ns, nm, ni)
    d = dense_of_sm(m)
    if kind in ("d5", "e5"):
        d = d[:, :, mode]
    if npol == 3 and reduce_ and mode == 0:
        d = d[:2, :2]
    P = d.shape[0]
    req = np.zeros((d.shape[2] * P, d.shape[3] * P))
    for p_ in range(P):
        for q_ in range(P):
            req[p_::P, q_::P] = d[p_, q_]
    try:
        got = m.compress(mode=mode, auto_reduce_npol=reduce_)
    except NotImplementedError:
        return None
    got = np.array(compressed_dense(got))         # a copy: the compressed form may be a view of the storage
    if kind in ("d4", "d5", "e4", "e5"):
        # the same container asked again with the other reduction flag, written to, and asked again: each answer is that of its own request
        d_all = dense_of_sm(m)
        other = compressed_dense(m.compress(mode=mode, auto_reduce_npol=not reduce_))
        sel = (lambda a: a[:, :, mode] if kind in ("d5", "e5") else a)
        d2 = sel(d_all)
        if npol == 3 and (not reduce_) and mode == 0:
            d2 = d2[:2, :2]
        P2 = d2.shape[0]
        req2 = np.zeros((d2.shape[2] * P2, d2.shape[3] * P2))
        for p_ in range(P2):
            for q_ in range(P2):
                req2[p_::P2, q_::P2] = d2[p_, q_]
        again = compressed_dense(m.compress(mode=mode, auto_reduce_npol=reduce_))
        if other.shape != req2.shape or not np.allclose(other, req2, rtol=1e-13, atol=1e-13) or again.shape != req.shape or \
                not np.allclose(again, req, rtol=1e-13, atol=1e-13):
            return ("smrt_matrix:compress:repeat", f"compress(mode={mode}) of one {kind} container ({npol} polarisations, {ns} x {ni} directions) asked with "
                    f"auto_reduce_npol={reduce_}, then {not reduce_}, then {reduce_} again: the answers are not those of the requests",
                    dict(shapes=[list(got.shape), list(other.shape), list(again.shape)]), dict(shapes=[list(req.shape), list(req2.shape), list(req.shape)]))
        try:
            idx = tuple(0 for _ in np.shape(m.values))
            m.values[idx] = m.values[idx] + 1.0
            m[idx] = m.values[idx]
        except Exception:  # noqa
            idx = None
        if idx is not None:
            d3 = sel(dense_of_sm(m))
            if npol == 3 and reduce_ and mode == 0:
                d3 = d3[:2, :2]
            req3 = np.zeros_like(req)
            for p_ in range(P):
                for q_ in range(P):
                    req3[p_::P, q_::P] = d3[p_, q_]
            after = compressed_dense(m.compress(mode=mode, auto_reduce_npol=reduce_))
            if after.shape != req3.shape or not np.allclose(after, req3, rtol=1e-13, atol=1e-13):
                return ("smrt_matrix:compress:repeat", f"compress(mode={mode}, auto_reduce_npol={reduce_}) of a {kind} container after one of its entries was "
                        f"assigned: the value compressed before the assignment is returned", float(np.abs(after - req3).max()), "the current values")
    if got.shape != req.shape or not np.allclose(got, req, rtol=1e-13, atol=1e-13):
        return (f"smrt_matrix:compress:{'rectangular' if ns != ni else 'square'}", f"compress(mode={mode}, auto_reduce_npol={reduce_}) of a {kind} container "
                f"({npol} polarisations, {ns} x {ni} directions) is not the (direction, polarisation) re-indexing", dict(shape=list(got.shape)),
                dict(shape=list(req.shape)))
    return None


def check_nyquist(npol, m_max):
    """exactly 2 m_max samples cannot resolve mode m_max: refused, or if answered, answered exactly"""
    L = lib()
    A = np.zeros((npol, npol, m_max + 1, 1, 1))
    A[:, :, m_max] = 0.7
    A[0, 0, 0] = 0.3
    odd = np.zeros((npol, npol), dtype=bool)
    if npol == 3:
        odd[0:2, 2] = True; odd[2, 0:2] = True

    def fn(dphi):
        dphi = np.atleast_1d(dphi)
        n = np.arange(m_max + 1)
        p = np.einsum("pqnij,nk->pqkij", A, np.cos(np.outer(n, dphi)))
        po = np.einsum("pqnij,nk->pqkij", A, np.sin(np.outer(n, dphi)))
        p[odd] = po[odd]
        return L.smrt_matrix(p)
    try:
        got = np.asarray(L.generic_ft_even_matrix(fn, m_max, nsamples=2 * m_max).values)
    except (AssertionError, ValueError, Exception) as e:  # noqa: a refusal of an under-sampled request is the right answer
        from smrt.core.error import SMRTError
        if isinstance(e, (AssertionError, ValueError, SMRTError)):
            return None
        raise
    req = A.copy()
    if npol == 3:
        req[0:2, 2] = -req[0:2, 2]
    if got.shape != req.shape or not np.allclose(got, req, atol=1e-11):
        return ("fourier:undersampled", f"generic_ft_even_matrix(m_max={m_max}, nsamples={2 * m_max}) answers an under-sampled request with wrong "
                f"coefficients for mode {m_max}", float(np.abs(got - req).max()) if got.shape == req.shape else list(got.shape), "a refusal, or exact coefficients")
    return None


def oracle(ctx, hints, effort):
    """the property on the implementation: operator result = equivalent dense computation"""
    rng = ctx.np
    findings, evals = [], 0
    L = lib()
    reps = 2 if effort == "routine" else 20
    for n in range(1, 7):
        for _ in range(reps):
            a, b = rng.uniform(-2, 2, n).round(3), rng.uniform(-2, 2, n).round(3)
            M = rng.uniform(-2, 2, (n, n)).round(3)
            for op, args in [("diag-diag", dict(a=a, b=b)), ("diag+diag", dict(a=a, b=b)), ("diag*diag", dict(a=a, b=b)),
                             ("diag-=diag", dict(a=a, b=b)), ("diag+=diag", dict(a=a, b=b)),
                             ("diag+ndarray", dict(a=a, M=M)), ("ndarray+diag", dict(a=a, M=M)),
                             ("diag@ndarray", dict(a=a, M=M)), ("ndarray@diag", dict(a=a, M=M))]:
                evals += 1
                r = check_case(op, args)
                if r is not None:
                    findings.append(Finding("smrt_diag:" + op, f"smrt_diag {op} differs from the dense computation",
                                            {"op": op, **{k: np.asarray(v).tolist() for k, v in args.items()}}, r[0], r[1]))
    for n, m in ((1, 1), (2, 2), (3, 3), (2, 3), (3, 2), (4, 1), (1, 4), (5, 3)):
        for op, args in [("muleye:dense", dict(M=rng.uniform(-2, 2, (n, m)).round(3))), ("muleye:diag", dict(M=rng.uniform(-2, 2, n).round(3)))]:
            evals += 1
            r = check_case(op, args)
            if r is not None:
                findings.append(Finding("dort:muleye", f"dort.muleye of a {n} x {m} {'dense' if op.endswith('dense') else 'diagonal'} matrix is not its product with the vector of ones",
                                        {"op": op, "M": np.asarray(args["M"]).tolist()}, r[0], r[1]))
    shapes = {"diagonal4": lambda p, n, k: (p, n), "diagonal5": lambda p, n, k: (p, k, n),
              "dense4": lambda p, n, k: (p, p, n, n), "dense5": lambda p, n, k: (p, p, k, n, n)}
    for npol in (2, 3):
        for n in range(1, 5):
            for ka in ["0"] + list(shapes):
                for kb in ["0"] + list(shapes):
                    A = rng.uniform(-2, 2, shapes[ka](npol, n, 2)).round(3) if ka != "0" else 0
                    B = rng.uniform(-2, 2, shapes[kb](npol, n, 2)).round(3) if kb != "0" else 0
                    if ka != kb and ka != "0" and kb != "0":
                        # mixed layouts: only the pairs with equal dimensionality of the *dense* forms are comparable
                        if {ka, kb} not in ({"diagonal4", "dense4"}, {"diagonal5", "dense5"}):
                            continue
                    for op in ("matrix+matrix", "matrix-matrix"):
                        evals += 1
                        args = dict(a=np.asarray(A).tolist(), ka=ka, b=np.asarray(B).tolist(), kb=kb)
                        r = check_case(op, args)
                        if r is not None:
                            mixed = ka != kb and ka != "0" and kb != "0"
                            key = f"smrt_matrix:{op}" + (":mixed-kinds" if mixed else "")
                            findings.append(Finding(key, f"smrt_matrix {op} ({ka},{kb}) differs from the dense computation",
                                                    {"op": op, **args}, r[0], r[1]))
    for case in fourier_cases(ctx, 6 if effort == "routine" else 60):
        npol, N, m_max, ns, ni, (A, odd, deg), fn = case
        evals += 1
        got = np.asarray(L.generic_ft_even_matrix(fn, m_max, nsamples=N).values)
        req = np.zeros((npol, npol, m_max + 1, ns, ni))
        req[:, :, :deg + 1] = A
        if npol == 3:            # the code's sign convention: (V|H, U) entries carry -sin coefficient, (U, V|H) +sin
            req[0:2, 2] = -req[0:2, 2]
        if not np.allclose(got, req, atol=1e-11):
            findings.append(Finding("fourier", "generic_ft_even_matrix does not return the coefficients of a band-limited matrix",
                                    {"op": "fourier", "npol": npol, "nsamples": N, "m_max": m_max, "A": A.tolist(), "deg": deg},
                                    float(np.abs(got - req).max()), "max |coefficient error| <= 1e-11"))
    for npol in (2, 3):
        for m_max in (1, 2, 3, 4):
            evals += 1
            r = check_nyquist(npol, m_max)
            if r is not None:
                findings.append(Finding(r[0], r[1], {"op": "nyquist", "npol": npol, "m_max": m_max}, r[2], r[3]))
    for kind in ("d4", "d5", "e4", "e5"):
        for npol in (2, 3):
            for ns in range(1, 7 if effort != "routine" else 5):
                for ni in (range(1, 7 if effort != "routine" else 5) if kind in ("e4", "e5") else [ns]):
                    for mode in ((0, 1, 2) if kind in ("d5", "e5") else (None, 0)):
                        for red in (False, True):
                            evals += 1
                            sd = int(rng.integers(0, 2**31))
                            r = check_compress(np.random.default_rng(sd), kind, npol, ns, ni, 3, mode, red)
                            if r is not None:
                                findings.append(Finding(r[0], r[1], {"op": "compress", "kind": kind, "npol": npol, "ns": ns, "ni": ni, "mode": mode,
                                                                     "reduce": red, "seed": sd}, r[2], r[3]))
    for n_ in range(1, 8 if effort == "routine" else 13):
        for m_ in range(1, 8 if effort == "routine" else 13):
            evals += 1
            r = check_todiag(rng, n_, m_)
            if r is not None:
                findings.append(Finding(r[0], r[1], {"op": "todiag", "n": n_, "m": m_}, r[1], r[2]))
    for dens, nmax, act in [([900.0, 60.0], 16, False)] + band_scenes(rng, 4 if effort == "routine" else 30):
        evals += 1
        r = check_band_solution(dens, nmax, act)
        if r is not None:
            findings.append(Finding(r[0], f"DORT on densities {dens} with n_max_stream={nmax}: {r[0]} violated", {"op": "band", "density": dens,
                                    "nmax": nmax, "active": act}, r[1], r[2]))
    # de-duplicate by key, keep the smallest input
    best = {}
    for f in findings:
        if f.key not in best or len(str(f.inp)) < len(str(best[f.key].inp)):
            best[f.key] = f
    return list(best.values()), evals


def replay(inp, rp=None):
    if inp.get("op") == "todiag":
        for k in range(20):
            r = check_todiag(np.random.default_rng(k), inp["n"], inp["m"])
            if r:
                return Finding(r[0], r[1], inp, r[1], r[2])
        return None
    if inp.get("op") == "nyquist":
        r = check_nyquist(inp["npol"], inp["m_max"])
        return Finding(r[0], r[1], inp, r[2], r[3]) if r else None
    if inp.get("op") == "compress":
        r = check_compress(np.random.default_rng(inp["seed"]), inp["kind"], inp["npol"], inp["ns"], inp["ni"], 3, inp["mode"], inp["reduce"])
        return Finding(r[0], r[1], inp, r[2], r[3]) if r else None
    if inp.get("op") == "band":
        r = check_band_solution(inp["density"], inp["nmax"], inp["active"])
        return Finding(r[0], r[0], inp, r[1], r[2]) if r else None
    if inp.get("op") == "fourier":
        L = lib()
        A = np.array(inp["A"]); npol = inp["npol"]; deg = inp["deg"]
        odd = np.zeros((npol, npol), dtype=bool)
        if npol == 3:
            odd[0:2, 2] = True; odd[2, 0:2] = True
        def fn(dphi):
            n = np.arange(deg + 1)
            p = np.einsum("pqnij,nk->pqkij", A, np.cos(np.outer(n, dphi)))
            po = np.einsum("pqnij,nk->pqkij", A, np.sin(np.outer(n, dphi)))
            p[odd] = po[odd]
            return L.smrt_matrix(p)
        got = np.asarray(L.generic_ft_even_matrix(fn, inp["m_max"], nsamples=inp["nsamples"]).values)
        req = np.zeros_like(got); req[:, :, :deg + 1] = A
        if npol == 3:
            req[0:2, 2] = -req[0:2, 2]
        err = float(np.abs(got - req).max())
        return Finding("fourier", "Fourier helper inexact", inp, err, "<= 1e-11") if err > 1e-11 else None
    r = check_case(inp["op"], {k: v for k, v in inp.items() if k != "op"})
    if r is None:
        return None
    return Finding(rp.get("key", "?") if rp else "?", rp.get("what", "") if rp else "", inp, r[0], r[1])
