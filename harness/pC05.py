"""C05 — electromagnetic similarity: lengths x a with frequency / a changes nothing."""
import json
import numpy as np
import common as C
from common import Corr, MultiCorr, SubCtx, Tol, Finding, f2t, fs
import dortlib, scenes
import pC01, pC04

PROP = "C05"
DRIVER = "Dort"
LEAN_TARGETS = ["SmrtVerif.Props.C05", "SmrtVerif.Driver.Dort", "SmrtVerif.Driver.C17", "SmrtVerif.Driver.C12"]
TRUSTED = pC01.TRUSTED + ["eigen-solver contract: a matrix divided by a has the same eigenvectors and eigenvalues divided by a",
                          "the formula models of C17 (microstructure) and C12 (interfaces), re-corresponded here on a reduced sample"]
ASSUMPTIONS = ["materials are non-dispersive in the twins: constant ice and substrate permittivities (the property's premise)",
               "scale factors avoid powers of two (for which the twins are bitwise equal)"]
RULE = ("scenes and their scaled twins (every length x a, frequency / a, a in [0.25, 4]): the model's system of the original scene with "
        "thickness x a and eigenvalues / a must give the twin's emerging intensity; plus the microstructure and interface formula slices of "
        "C17 / C12 on a reduced sample; distinct = distinct driver line")


def scaled(sc, a):
    d = json.loads(json.dumps(sc))
    d["thickness"] = [t * a for t in d["thickness"]]
    d["frequency"] = d["frequency"] / a
    for k in ("corr_length", "radius", "repeat_distance", "porod_length"):
        if k in d.get("micro", {}):
            d["micro"][k] = [v * a for v in d["micro"][k]]
    s = d.get("substrate")
    for k in ("roughness_rms", "corr_length"):
        if s and k in s.get("params", {}):
            s["params"][k] *= a
    return d


def const_scene(rng, ms="exponential", active=False, max_layers=4):
    sc = scenes.random_scene(rng, lossless=False, microstructure=ms, max_layers=max_layers, atmosphere=False, active=active,
                             frequency=float(rng.choice([10.65e9, 18.7e9, 36.5e9])))
    sc["ice_permittivity"] = [3.18, round(float(rng.uniform(3e-4, 3e-3)), 6)]
    if sc.get("substrate") and sc["substrate"]["kind"] == "reflector":
        sc["substrate"]["kind"] = "flat"; sc["substrate"].pop("params", None)
    return sc


def correspond(ctx):
    import pC17, pC12
    rng = ctx.np
    co = Corr(PROP, DRIVER)
    made = 0
    while made < ctx.n(12, 80):
        em, ms = [("iba", "exponential"), ("iba", "sticky_hard_spheres"), ("nonscattering", "homogeneous")][int(rng.integers(0, 3))]
        sc = const_scene(rng, ms)
        sc["emmodel"], sc["nmax"] = em, int(rng.integers(8, 11))
        a = float(rng.choice([0.37, 0.61, 1.7, 2.9, 3.3]))
        try:
            c, s = pC01.extract(sc)
            c2, s2 = pC01.extract(scaled(sc, a))
        except AssertionError:
            continue
        amp = float(np.abs(c.x).max()) * max(float(np.abs(l["Eu"]).max()) for l in c.layers)
        if amp > 1e5:
            continue
        made += 1
        co.note(f"a={a}"); co.note(em)
        # the original scene's system, with d -> a d and beta -> beta / a, solved by the *original* x: emerging of the twin
        cs = dortlib.Case(); cs.__dict__.update(c.__dict__)
        cs.layers = [dict(l, d=l["d"] * a, beta=l["beta"] / a) for l in c.layers]
        co.add("dort.similarity", dortlib.case_line(cs).replace("dort Abe ", "dort e ", 1), dortlib.case_impl_line(c2, "e"),
               Tol(1e-7, 1e-8, scale="line"), desc={"scene": sc, "a": a})
        # and the twin's own assembly (ties the model to the code at the scaled frequency)
        co.add("dort.rhs+emerging", dortlib.case_line(c2).replace("dort Abe ", "dort be ", 1), dortlib.case_impl_line(c2, "be"),
               Tol(1e-9, 1e-10, scale="line"), desc={"scene": scaled(sc, a)})
    parts = [co]
    for mod, scale in ((pC17, 0.08), (pC12, 0.15)):
        sub = mod.correspond(SubCtx(ctx, scale))
        parts.append(sub)
    return MultiCorr(parts)


# ---------------------------------------------------------------------------------------------

def emmodel_invariants(sc, em):
    from smrt import sensor_list
    from smrt.core.model import make_emmodel_instance
    sp, _ = scenes.build(sc)
    sensor = sensor_list.passive(sc["frequency"], 40.)
    lam = 299792458.0 / sc["frequency"]
    out = []
    for lay in sp.layers:
        e = make_emmodel_instance(em, sensor, lay)
        ks = float(np.real(e.ks)) if not callable(e.ks) else float("nan")
        ka = float(np.real(e.ka)) if not callable(e.ka) else float("nan")
        out.append([ks * lam, ka * lam, complex(e.effective_permittivity()).real, complex(e.effective_permittivity()).imag])
    return np.array(out)


def check_twin(sc, a, active):
    tw = scaled(sc, a)
    r1 = pC04.run_model(sc, active); r2 = pC04.run_model(tw, active)
    if active:
        v1 = np.asarray([r1.sigmaVV(), r1.sigmaHH()]).ravel(); v2 = np.asarray([r2.sigmaVV(), r2.sigmaHH()]).ravel()
    else:
        v1 = np.asarray(r1.data.values).ravel(); v2 = np.asarray(r2.data.values).ravel()
    dev = float(np.abs(v1 - v2).max() / max(1e-300, np.abs(v1).max()))
    if not dev <= 1e-6:
        return ("simulation", dev, "<= 1e-6 relative")
    e1, e2 = emmodel_invariants(sc, sc["emmodel"]), emmodel_invariants(tw, sc["emmodel"])
    m = np.isfinite(e1) & np.isfinite(e2)
    dev = float((np.abs(e1 - e2)[m] / np.maximum(1e-300, np.abs(e1)[m])).max()) if m.any() else 0.0
    if not dev <= 1e-6:
        return ("emmodel", dev, "<= 1e-6 relative on ks*lambda, ka*lambda, eps_eff")
    od1 = np.asarray(r1.other_data["ks"].values + r1.other_data["ka"].values) * np.asarray(r1.other_data["thickness"].values)
    od2 = np.asarray(r2.other_data["ks"].values + r2.other_data["ka"].values) * np.asarray(r2.other_data["thickness"].values)
    dev = float(np.abs(od1 - od2).max() / max(1e-300, np.abs(od1).max()))
    if not dev <= 1e-6:
        return ("optical-depth", dev, "<= 1e-6 relative")
    return None


def check_twin_family(sc, factors):
    """the whole similarity family simulated in one call, the documented pairwise form run([sensor_k], [snowpack_k]), each sensor with the
    frequencies of its own twin: every member gives the brightness temperatures of the original scene"""
    from smrt import make_model, sensor_list
    m = make_model(sc["emmodel"], "dort", rtsolver_options=dict(n_max_stream=sc["nmax"]))
    fs = [sc["frequency"], 0.55 * sc["frequency"]]
    base = []
    for f in fs:
        base.append(np.asarray(m.run(sensor_list.passive(f, [20., 40.]), scenes.build(dict(sc, frequency=f))[0]).data.values, dtype=float))
    meds, sensors = [], []
    for a in factors:
        tw = scaled(sc, a)
        meds.append(scenes.build(tw)[0])
        sensors.append(sensor_list.passive([f / a for f in fs], [20., 40.]))
    res = m.run(sensors, meds)
    dev = 0.0
    for k, a in enumerate(factors):
        sub = res.data.isel(snowpack=k)
        for j, f in enumerate(fs):
            v = np.asarray(sub.isel(frequency=j).values, dtype=float)      # by position: the frequency labels of a pairwise run are the first sensor's
            if not np.all(np.isfinite(v)):
                return ("simulation-family", float("nan"), "finite values at the twin's own frequencies")
            dev = max(dev, float(np.abs(v - base[j]).max() / np.abs(base[j]).max()))
    return ("simulation-family", dev, "<= 1e-6 relative") if not dev <= 1e-6 else None


def check_twin_inplace(sc, a):
    """the twin obtained by editing a deep copy of an already simulated snowpack in place (every layer's thickness and correlation length
    times a) is the twin: same result as the one built from scratch with the scaled numbers"""
    import copy
    from smrt import make_model, sensor_list
    sp, _ = scenes.build(sc)
    m = make_model(sc["emmodel"], "dort", rtsolver_options=dict(n_max_stream=sc["nmax"]))
    m.run(sensor_list.passive(sc["frequency"], [20., 40.]), sp)                      # the original is simulated first
    tw = copy.deepcopy(sp)
    for lay in tw.layers:
        lay.thickness = lay.thickness * a
        lay.microstructure.corr_length = lay.microstructure.corr_length * a
    got = np.asarray(m.run(sensor_list.passive(sc["frequency"] / a, [20., 40.]), tw).data.values)
    fresh, _ = scenes.build(scaled(sc, a))
    want = np.asarray(m.run(sensor_list.passive(sc["frequency"] / a, [20., 40.]), fresh).data.values)
    dev = float(np.abs(got - want).max())
    return ("twin-edited-in-place", dev, "<= 1e-9 K") if not dev <= 1e-9 else None


def check_twin_profile(sc, a):
    """the medium given as a profile of layer boundaries (make_medium with a 'z' column: heights of the layer tops above the ground, the
    last layer reaching the ground), every length multiplied by a, the frequency divided by a: same brightness temperature, same
    optical depth of every layer"""
    import pandas as pd
    from smrt import make_model, sensor_list
    from smrt.inputs.make_medium import make_medium
    out = []
    for f in (1.0, a):
        th = np.asarray(sc["thickness"], dtype=float)
        z = (np.cumsum(th[::-1])[::-1]) * f
        df = pd.DataFrame(dict(z=z, density=sc["density"], temperature=sc["temperature"], corr_length=np.asarray(sc["micro"]["corr_length"]) * f))
        df["microstructure_model"] = "exponential"
        sp = make_medium(df, ice_permittivity_model=complex(*sc["ice_permittivity"]), background_permittivity_model=1.0)
        res = make_model("iba", "dort", rtsolver_options=dict(n_max_stream=16)).run(sensor_list.passive(sc["frequency"] / f, [40., 55.]), sp)
        out.append((np.asarray(res.data.values).ravel(), np.asarray(res.optical_depth().values).ravel(), np.asarray([l.thickness for l in sp.layers]) / f))
    dev = float(np.abs(out[0][2] - out[1][2]).max() / np.abs(out[0][2]).max())
    if not dev <= 1e-9:
        return ("profile-thickness", dev, "layer thicknesses of the twin are a times those of the original (<= 1e-9 relative)")
    dev = float(np.abs(out[0][0] - out[1][0]).max() / np.abs(out[0][0]).max())
    if not dev <= 1e-6:
        return ("profile-simulation", dev, "<= 1e-6 relative")
    dev = float(np.abs(out[0][1] - out[1][1]).max() / np.abs(out[0][1]).max())
    if not dev <= 1e-6:
        return ("profile-optical-depth", dev, "<= 1e-6 relative")
    return None


def check_twin_accepted(sc, a, em):
    """a scene the package accepts has twins it accepts too: no length is special"""
    from smrt.core.error import SMRTError
    try:
        emmodel_invariants(sc, em)
    except (SMRTError, Warning, AssertionError):
        return None
    try:
        emmodel_invariants(scaled(sc, a), em)
    except SMRTError as e:
        return ("twin-refused", float(a), f"the twin is accepted as the original is ({e})"[:200])
    except (Warning, AssertionError):
        return None
    return None


def check_invariants(sc, a, em):
    e1, e2 = emmodel_invariants(sc, em), emmodel_invariants(scaled(sc, a), em)
    m = np.isfinite(e1) & np.isfinite(e2)
    dev = float((np.abs(e1 - e2)[m] / np.maximum(1e-300, np.abs(e1)[m])).max()) if m.any() else 0.0
    return ("emmodel", dev, "<= 1e-6 relative on ks*lambda, ka*lambda, eps_eff") if not dev <= 1e-6 else None


def weak_scene(rng, active):
    """L-band, weak scatterers (ks between 2e-6 and 5e-5 1/m), deep and hardly absorbing: the scattering still matters, and any absolute
    (non scale-free) threshold on a coefficient in 1/m is crossed by one of the twins"""
    sc = scenes.random_scene(rng, nlayer=int(rng.integers(1, 4)), lossless=False, microstructure="exponential", atmosphere=False,
                             substrate=None if active else "flat", frequency=1.4e9, active=active)
    k = len(sc["thickness"])
    ks = np.exp(rng.uniform(np.log(2e-6), np.log(5e-5), k))
    sc["micro"]["corr_length"] = [round(float(4e-4 * (v / 2.8e-5) ** (1 / 3)), 7) for v in ks]
    sc["density"] = [round(float(v), 1) for v in rng.uniform(280, 320, k)]
    sc["thickness"] = [round(float(v), 2) for v in rng.uniform(50, 400, k)]
    sc["ice_permittivity"] = [3.18, 1e-4]
    sc["emmodel"], sc["nmax"] = "iba", 16
    return sc


ALL_EM = [("iba", "exponential"), ("iba", "sticky_hard_spheres"), ("iba_original", "exponential"), ("sft_rayleigh", "exponential"),
          ("rayleigh", "sticky_hard_spheres"), ("dmrt_qca_shortrange", "sticky_hard_spheres"), ("dmrt_qcacp_shortrange", "sticky_hard_spheres"),
          ("sce_torquato21", "exponential"), ("sce_torquato21", "sticky_hard_spheres"), ("symsce_torquato21", "exponential"),
          ("symsce_torquato21", "sticky_hard_spheres"), ("sce_torquato21_shortrange", "exponential"),
          ("symsce_torquato21_shortrange", "exponential"), ("sce_rechtsman08", "exponential"),
          # a microstructure whose spectral form is computed numerically (FFT of the real-space form on a grid)
          ("iba", "gaussian_random_field"), ("symsce_torquato21", "gaussian_random_field")]


def rough_scene(rng, active):
    """snow over a rough IEM soil with sub-millimetre to millimetre roughness: smoothness is governed by k*s, never by s alone"""
    sc = const_scene(rng, "exponential", active=active, max_layers=2)
    sc["frequency"] = float(rng.choice([18.7e9, 36.5e9]))
    srms = float(np.exp(rng.uniform(np.log(3e-5), np.log(8e-4))))
    sc["substrate"] = dict(kind="iem_fung92", T=265.0, eps=[round(float(rng.uniform(4, 15)), 3), round(float(rng.uniform(0.2, 3)), 3)],
                           params=dict(roughness_rms=srms, corr_length=srms * float(rng.uniform(8, 20))))
    sc["thickness"] = [round(float(v), 3) for v in rng.uniform(0.05, 0.4, len(sc["thickness"]))]
    sc["emmodel"], sc["nmax"] = "iba", 16
    return sc


def oracle(ctx, hints, effort):
    rng = ctx.np
    findings, evals = {}, 0
    # every scattering theory: ks*lambda, ka*lambda, eps_eff of scaled twins (no solver run), lengths straddling a wide range
    for it in range(len(ALL_EM) * (2 if effort == "routine" else 8)):
        em, ms = ALL_EM[it % len(ALL_EM)]
        sc = const_scene(rng, ms if ms != "gaussian_random_field" else "exponential", max_layers=3)
        sc["emmodel"] = em
        k = len(sc["thickness"])
        if ms == "gaussian_random_field":
            cl = [round(float(np.exp(rng.uniform(np.log(5e-5), np.log(4e-4)))), 7) for _ in range(k)]
            sc["microstructure"], sc["micro"] = ms, dict(corr_length=cl, repeat_distance=[round(c * float(rng.uniform(4, 12)), 7) for c in cl])
        if ms == "exponential":
            sc["micro"]["corr_length"] = [round(float(np.exp(rng.uniform(np.log(4e-5), np.log(5e-4)))), 7) for _ in range(k)]
        a = float(np.exp(rng.uniform(np.log(0.25), np.log(4.0))))
        try:
            evals += 2
            r = check_invariants(sc, a, em)
        except Exception as e:  # noqa
            from smrt.core.error import SMRTError
            if isinstance(e, (SMRTError, Warning, AssertionError)):
                continue
            raise
        if r:
            key = f"{r[0]}:{em}"
            findings.setdefault(key, Finding(key, f"scaled twin (a={a:.3f}) differs: {r[0]}", {"kind": "invariants", "scene": sc, "a": a, "em": em}, r[1], r[2]))
    # layer boundaries given as a z profile with centimetre/millimetre values, twins far smaller and larger; and twins of coarse grains
    # (hail, depth hoar cups) seen at L band, whose lengths reach centimetres in the long-wave twin
    for it in range(2 if effort == "routine" else 6):
        sc = const_scene(rng, "exponential", max_layers=4)
        sc["thickness"] = [round(float(v), 2) for v in rng.uniform(0.03, 0.3, len(sc["thickness"]))]
        sc["micro"]["corr_length"] = [round(float(v), 6) for v in rng.uniform(8e-5, 3.5e-4, len(sc["thickness"]))]
        sc["frequency"] = 37e9
        a = (0.37, 0.06, 1.7, 0.013)[it % 4]
        try:
            evals += 2
            r = check_twin_profile(sc, a)
        except (AssertionError, Warning):
            r = None
        if r:
            findings.setdefault(r[0], Finding(r[0], f"scaled twin (a={a}) of a medium given by its z profile differs: {r[0]}",
                                              {"kind": "profile", "scene": sc, "a": a}, r[1], r[2]))
        sc2 = dict(thickness=[0.5], density=[round(float(rng.uniform(250, 400)), 1)], temperature=[260.0], frequency=1.4e9, ice_permittivity=[3.18, 1e-3],
                   microstructure=("sticky_hard_spheres", "exponential")[it % 2], emmodel="iba", nmax=16,
                   micro=(dict(radius=[round(float(rng.uniform(1e-3, 2.5e-3)), 5)], stickiness=0.3) if it % 2 == 0 else dict(corr_length=[round(float(rng.uniform(1e-3, 2e-3)), 5)])))
        for a2 in (4.0, 8.0):
            evals += 2
            r = check_twin_accepted(sc2, a2, "iba")
            if r:
                findings.setdefault(r[0], Finding(r[0], f"scaled twin (a={a2}) refused while the original is accepted", {"kind": "accepted", "scene": sc2, "a": a2, "em": "iba"}, r[1], r[2]))
    # coarse grains at 89 GHz (k*d of a few units, still below lambda/4) with the microstructures that have no slope-at-origin length:
    # the quadrature of ks is then far from trivial, and every twin must resolve it equally well
    coarse = [("teubner_strey", lambda: dict(corr_length=[round(float(rng.uniform(3e-4, 5e-4)), 7)], repeat_distance=[round(float(rng.uniform(2e-3, 4e-3)), 6)])),
              ("unified_scaled_exponential", lambda: dict(porod_length=[round(float(rng.uniform(5e-4, 8e-4)), 7)], polydispersity=1.0)),
              ("unified_teubner_strey", lambda: dict(porod_length=[round(float(rng.uniform(5e-4, 8e-4)), 7)], polydispersity=0.8)),
              ("unified_sticky_hard_spheres", lambda: dict(porod_length=[round(float(rng.uniform(5e-4, 8e-4)), 7)], polydispersity=1.2))]
    for it, (ms, mk_) in enumerate(coarse):
        sc = const_scene(rng, "exponential", max_layers=1)
        sc.update(thickness=[0.3], density=[round(float(rng.uniform(250, 350)), 1)], temperature=sc["temperature"][:1], frequency=89e9,
                  microstructure=ms, micro=mk_(), emmodel="iba")
        sc.pop("substrate", None)
        for a in (4.0, 0.25):
            try:
                evals += 2
                r = check_invariants(sc, a, "iba")
            except Exception as e:  # noqa
                from smrt.core.error import SMRTError
                if isinstance(e, (SMRTError, Warning, AssertionError)):
                    continue
                raise
            if r:
                key = f"{r[0]}:iba:coarse"
                findings.setdefault(key, Finding(key, f"scaled twin (a={a}) of coarse-grained {ms} snow at 89 GHz differs: {r[0]}",
                                                 {"kind": "invariants", "scene": sc, "a": a, "em": "iba"}, r[1], r[2]))
    # a thin ice lens treated as a coherent layer (solver option process_coherent_layers): coherence is decided by k*d, never by d alone
    for it in range(1 if effort == "routine" else 3):
        sc = dict(thickness=[0.5, 0.012, 1.0], density=[300.0, 900.0, 350.0], temperature=[255.0, 258.0, 262.0], microstructure="exponential",
                  frequency=5e9, micro=dict(corr_length=[2e-4, 5e-5, 3e-4]), ice_permittivity=[3.18, 1e-3],
                  substrate=dict(kind="flat", T=265.0, eps=[6.0, 0.5]), emmodel="iba", nmax=16, solver_options=dict(process_coherent_layers=True))
        sc["thickness"][1] = round(float(rng.uniform(0.008, 0.012)), 4)      # k0 n d below 3 pi / 4 at 5 GHz: coherent in the original scene
        for a in (4.0, 0.25):
            try:
                evals += 2
                r = check_twin(sc, a, False)
            except AssertionError:
                continue
            if r:
                key = f"{r[0]}:coherent-layer"
                findings.setdefault(key, Finding(key, f"scaled twin (a={a}) of a pack with a thin ice lens, process_coherent_layers=True, differs: {r[0]}",
                                                 {"scene": sc, "a": a, "active": False}, r[1], r[2]))
    for it in range(2 if effort == "routine" else 8):
        sc = const_scene(rng, "exponential", max_layers=3)
        sc["substrate"] = dict(kind="flat", T=265.0, eps=[6.0, 0.5])
        sc["emmodel"], sc["nmax"] = "iba", 16
        a = float(rng.choice([0.5, 2.0, 4.0]))
        try:
            evals += 3
            r = check_twin_inplace(sc, a)
        except AssertionError:
            continue
        if r:
            findings.setdefault(r[0], Finding(r[0], f"a deep copy of a simulated snowpack scaled in place (a={a}) differs from the twin built from scratch",
                                              {"kind": "inplace", "scene": sc, "a": a}, r[1], r[2]))
    # frequencies given as integers, every specular substrate in turn (the twin's frequency f / a is a float anyway)
    for it in range(5 if effort == "routine" else 15):
        sc = const_scene(rng, "exponential", max_layers=2)
        kind = scenes.SPECULAR_SUBSTRATES[it % len(scenes.SPECULAR_SUBSTRATES)]
        sc["frequency"] = float(rng.choice([10e9, 19e9, 37e9]))
        sub = scenes.random_scene(rng, nlayer=1, substrate=kind, frequency=sc["frequency"])["substrate"]
        if kind == "reflector":
            sub["kind"] = "flat"; sub.pop("params", None)
        sub["eps"] = [sub["eps"][0], max(sub["eps"][1], 0.1)]
        sc["substrate"] = sub
        sc["thickness"] = [round(float(v), 3) for v in rng.uniform(0.05, 0.4, len(sc["thickness"]))]
        sc["emmodel"], sc["nmax"], sc["int_frequency"] = "iba", 16, True
        a = float(rng.choice([0.5, 2.0]))
        try:
            evals += 2
            r = check_twin(sc, a, False)
        except AssertionError:
            continue
        except Exception as e:  # noqa
            from smrt.core.error import SMRTError
            if isinstance(e, (SMRTError, Warning)):
                continue
            raise
        if r:
            key = f"{r[0]}:int-frequency:{kind}"
            findings.setdefault(key, Finding(key, f"scaled twin (a={a}) of a scene whose frequency is given as an integer differs: {r[0]}",
                                             {"scene": sc, "a": a, "active": False}, r[1], r[2]))
    for it in range(1 if effort == "routine" else 5):
        sc = const_scene(rng, "exponential", max_layers=3)
        sc["substrate"] = dict(kind="soil_wegmuller", T=265.0, eps=[6.0, 0.5], params=dict(roughness_rms=0.005))
        sc["emmodel"], sc["nmax"] = "iba", 16
        factors = [1.0, 0.5, 2.0] if it == 0 else [round(float(np.exp(rng.uniform(np.log(0.25), np.log(4.0)))), 3) for _ in range(3)]
        try:
            evals += 5
            r = check_twin_family(sc, factors)
        except AssertionError:
            continue
        if r:
            findings.setdefault(r[0], Finding(r[0], f"the similarity family a = {factors} simulated in one call run([sensors], [snowpacks]) differs from the "
                                              f"original scene", {"kind": "family", "scene": sc, "factors": factors}, r[1], r[2]))
    # thicknesses given as whole numbers of metres (Python ints), strongly attenuating layers: the twin's are floats anyway
    for it in range(2 if effort == "routine" else 8):
        sc = dict(thickness=[int(rng.integers(1, 3)), int(rng.integers(3, 8))], density=[round(float(rng.uniform(280, 320)), 1), round(float(rng.uniform(330, 380)), 1)],
                  temperature=[250.0, 260.0], microstructure="exponential", frequency=89e9,
                  micro=dict(corr_length=[round(float(rng.uniform(3.8e-4, 4.2e-4)), 7), round(float(rng.uniform(4.3e-4, 4.7e-4)), 7)]),
                  ice_permittivity=[3.18, round(float(rng.uniform(0.03, 0.05)), 4)], substrate=dict(kind="flat", T=265.0, eps=[6.0, 0.5]),
                  emmodel="iba", nmax=16)
        a = [0.5, 2.5][it % 2]
        try:
            evals += 2
            r = check_twin(sc, a, False)
        except AssertionError:
            continue
        if r:
            key = f"{r[0]}:int-thickness"
            findings.setdefault(key, Finding(key, f"scaled twin (a={a}) of a scene whose thicknesses are given as integers differs: {r[0]}",
                                             {"scene": sc, "a": a, "active": False}, r[1], r[2]))
    rough = None
    for it in range(10 if effort == "routine" else 40):
        active = it % 4 >= 2
        if it % 2 == 0:
            rough = rough_scene(rng, active)
        sc = rough
        a = [4.0, 0.25][it % 2]          # the same scene scaled up and scaled down
        try:
            evals += 2
            r = check_twin(sc, a, active)
        except AssertionError:
            continue
        except Exception as e:  # noqa
            from smrt.core.error import SMRTError
            if isinstance(e, (SMRTError, Warning, NotImplementedError)):
                continue
            raise
        if r:
            key = f"{r[0]}:iem:{'active' if active else 'passive'}"
            findings.setdefault(key, Finding(key, f"scaled twin (a={a}) of snow over a rough IEM soil differs: {r[0]}",
                                             {"scene": sc, "a": a, "active": active}, r[1], r[2]))
    for it in range(6 if effort == "routine" else 24):
        active = it % 3 == 2
        sc = weak_scene(rng, active)
        a = [4.0, 0.25][it % 2]
        try:
            evals += 2
            r = check_twin(sc, a, active)
        except AssertionError:
            continue
        except Exception as e:  # noqa
            from smrt.core.error import SMRTError
            if isinstance(e, (SMRTError, Warning)):
                continue
            raise
        if r:
            key = f"{r[0]}:weak:{'active' if active else 'passive'}"
            findings.setdefault(key, Finding(key, f"scaled twin (a={a}) of a deep weakly scattering L-band pack differs: {r[0]}",
                                             {"scene": sc, "a": a, "active": active}, r[1], r[2]))
    for it in range(5 if effort == "routine" else 60):
        em, ms = pC01.PAIRINGS[it % (3 if effort == "routine" else len(pC01.PAIRINGS))]
        active = it % 4 == 3 and em != "nonscattering"
        sc = const_scene(rng, ms, active=active)
        sc["emmodel"], sc["nmax"] = em, 16
        a = float(rng.uniform(0.25, 4.0))
        try:
            evals += 2
            r = check_twin(sc, a, active)
        except AssertionError:
            continue
        except Exception as e:  # noqa
            from smrt.core.error import SMRTError
            if isinstance(e, (SMRTError, Warning)):
                continue
            raise
        if r:
            key = f"{r[0]}:{em}:{(sc.get('substrate') or {}).get('kind')}"
            findings.setdefault(key, Finding(key, f"scaled twin (a={a:.3f}) differs: {r[0]}", {"scene": sc, "a": a, "active": active}, r[1], r[2]))
    return list(findings.values()), evals


def replay(inp, rp=None):
    if inp.get("kind") == "inplace":
        r = check_twin_inplace(inp["scene"], inp["a"])
        return Finding("?", r[0], inp, r[1], r[2]) if r else None
    if inp.get("kind") == "family":
        r = check_twin_family(inp["scene"], inp["factors"])
        return Finding("?", r[0], inp, r[1], r[2]) if r else None
    if inp.get("kind") in ("profile", "accepted"):
        r = check_twin_profile(inp["scene"], inp["a"]) if inp["kind"] == "profile" else check_twin_accepted(inp["scene"], inp["a"], inp["em"])
        return Finding("?", r[0], inp, r[1], r[2]) if r else None
    if inp.get("kind") == "invariants":
        r = check_invariants(inp["scene"], inp["a"], inp["em"])
        return Finding("?", r[0], inp, r[1], r[2]) if r else None
    r = check_twin(inp["scene"], inp["a"], inp["active"])
    return Finding("?", r[0], inp, r[1], r[2]) if r else None
