"""Shared machinery of the checks: line protocol to the Lean drivers, comparison, Lean build and axiom
audit, evidence and replay files, known findings.

Every harness runs under /venv/bin/python with the *working tree* of /repo imported (checked below).
"""
import os
for _v in ("OMP_NUM_THREADS", "OPENBLAS_NUM_THREADS", "MKL_NUM_THREADS"):
    os.environ[_v] = "1"          # exact comparisons must not depend on BLAS threading (DESIGN C09)
os.environ.setdefault("SMRT_VERIF", "1")

import sys, json, struct, subprocess, time, re, math, random, hashlib, traceback, warnings
from pathlib import Path
from collections import Counter

VERIF = Path(__file__).resolve().parents[1]
LEAN = VERIF / "lean"
REPO = Path(os.environ.get("SMRT_REPO", "/repo"))
EVID = Path(os.environ.get("VERIF_EVIDENCE_DIR", VERIF / "evidence"))   # redirected while trying seeded changes
REPLAYS = EVID / "replays"
STD_AXIOMS = {"propext", "Classical.choice", "Quot.sound"}
FORBIDDEN = re.compile(r"\bsorry\b|\badmit\b|^\s*axiom\s|native_decide|bv_decide|implemented_by|\bunsafe\s|maxHeartbeats\s+0\b")

warnings.filterwarnings("ignore")


def import_smrt():
    """import smrt from /repo's working tree and assert that this is what we got"""
    if str(REPO) not in sys.path:
        sys.path.insert(0, str(REPO))
    import smrt
    got = Path(smrt.__file__).resolve()
    if REPO.resolve() not in got.parents:
        raise RuntimeError(f"smrt imported from {got}, not from {REPO}")
    return smrt


# ---------------------------------------------------------------------------------------------
# protocol

def f2t(x) -> str:
    """float -> protocol token (exact)"""
    return "f%d" % struct.unpack("<Q", struct.pack("<d", float(x)))[0]


def t2f(t: str) -> float:
    return struct.unpack("<d", struct.pack("<Q", int(t[1:])))[0]


def fs(xs) -> str:
    import numpy as np
    return " ".join(f2t(v) for v in np.asarray(xs, dtype=float).ravel())


def is_ftok(t):
    return len(t) > 1 and t[0] == "f" and t[1:].isdigit()


class Tol:
    def __init__(self, rel=1e-9, abs_=0.0, scale=None):
        self.rel, self.abs, self.scale = rel, abs_, scale

    def close(self, a, b, scale=None):
        if math.isnan(a) or math.isnan(b):
            return math.isnan(a) and math.isnan(b)
        if math.isinf(a) or math.isinf(b):
            return a == b
        s = max(1.0, abs(a), abs(b)) if self.scale is None else self.scale
        if scale is not None:
            s = max(s, scale)
        return abs(a - b) <= self.abs + self.rel * s


EXACT = Tol(0.0, 0.0)


def compare_lines(impl: str, model: str, tol: Tol):
    """token-wise comparison of two canonical lines; returns None if equal else a short reason"""
    a, b = impl.split(), model.split()
    if len(a) != len(b):
        return f"length {len(a)} vs {len(b)}: impl={impl[:120]!r} model={model[:120]!r}"
    fa = [abs(t2f(t)) for t in a if is_ftok(t)]
    fa = [v for v in fa if math.isfinite(v)]
    scale = max(fa) if (fa and tol.scale == "line") else None
    t = tol if tol.scale != "line" else Tol(tol.rel, tol.abs)
    for k, (x, y) in enumerate(zip(a, b)):
        if is_ftok(x) and is_ftok(y):
            if not t.close(t2f(x), t2f(y), scale):
                return f"token {k}: impl={t2f(x)!r} model={t2f(y)!r}"
        elif x != y:
            return f"token {k}: impl={x!r} model={y!r}"
    return None


def run_driver(name: str, lines, timeout=1800):
    """pipe lines to `lake env lean --run Drivers/<name>.lean`; returns the output lines"""
    if not lines:
        return []
    p = subprocess.run(["lake", "env", "lean", "--run", f"Drivers/{name}.lean"], cwd=LEAN,
                       input="\n".join(lines) + "\n", capture_output=True, text=True, timeout=timeout)
    out = p.stdout.split("\n")
    if out and out[-1] == "":
        out.pop()
    if p.returncode != 0 or len(out) != len(lines):
        raise DriverError(f"driver {name}: rc={p.returncode} {len(out)} lines for {len(lines)} inputs\n"
                          + p.stderr[-2000:] + "\n".join(out[-3:])[:2000])
    return out


class DriverError(Exception):
    pass


def err_kind(exc) -> str:
    """map an exception of the implementation to the small enum the models use"""
    from smrt.core.error import SMRTError
    if isinstance(exc, SMRTError):
        return "ERR SMRTError"
    if isinstance(exc, NotImplementedError):
        return "ERR NotImplementedError"
    return "ERR foreign:" + type(exc).__name__


# ---------------------------------------------------------------------------------------------
# correspondence bookkeeping

class Corr:
    """collects correspondence cases: the same input line is given to the implementation (by the
    harness, in-process) and to the Lean driver; outputs are compared after canonicalisation."""

    def __init__(self, prop, driver):
        self.prop, self.driver = prop, driver
        self.items = []        # (slice, line, impl_out, tol, desc)
        self.by_slice = Counter()
        self.dist = Counter()
        self.disagreements = []
        self.samples = []
        self.distinct = set()
        self.model_errors = []

    def add(self, slice_, line, impl_out, tol=Tol(), desc=None, nontrivial=True, post=None):
        """`post`: optional function applied to the model's output line before the comparison (e.g. to plug a vector
        constructed by the model into the implementation's own system and report the residual)"""
        self.items.append((slice_, line, impl_out, tol, desc, post))
        self.by_slice[slice_] += 1
        if nontrivial:
            self.distinct.add(hashlib.sha1((slice_ + line).encode()).hexdigest())

    def note(self, key, n=1):
        self.dist[key] += n

    def run(self, max_samples=3):
        if not self.items:
            return
        try:
            outs = run_driver(self.driver, [it[1] for it in self.items])
        except (DriverError, subprocess.TimeoutExpired) as e:
            self.model_errors.append(str(e)[:3000])
            return
        seen = Counter()
        for (slice_, line, impl_out, tol, desc, post), mo in zip(self.items, outs):
            if post is not None:
                try:
                    mo = post(mo)
                except Exception as e:  # noqa
                    mo = "ERR post:" + type(e).__name__ + ":" + str(e)[:200]
            why = compare_lines(impl_out, mo, tol)
            if why is not None:
                self.disagreements.append({"slice": slice_, "why": why, "desc": desc,
                                           "line": line[:4000], "impl": impl_out[:2000], "model": mo[:2000]})
            if seen[slice_] < max_samples:
                seen[slice_] += 1
                self.samples.append({"slice": slice_, "input": (desc if desc is not None else line[:300]),
                                     "impl": impl_out[:200], "model": mo[:200]})

    @property
    def ok(self):
        return not self.disagreements and not self.model_errors

    def broken_slices(self):
        s = sorted({d["slice"] for d in self.disagreements})
        if self.model_errors:
            s.append("driver:" + self.driver)
        return s


class MultiCorr:
    """several correspondences (each with its own driver) reported as one"""

    def __init__(self, parts):
        self.parts = list(parts)

    def run(self, max_samples=3):
        for p in self.parts:
            p.run(max_samples)

    items = property(lambda self: [i for p in self.parts for i in p.items])
    disagreements = property(lambda self: [d for p in self.parts for d in p.disagreements])
    model_errors = property(lambda self: [d for p in self.parts for d in p.model_errors])
    samples = property(lambda self: [d for p in self.parts for d in p.samples])
    distinct = property(lambda self: set().union(*[p.distinct for p in self.parts]) if self.parts else set())

    @property
    def by_slice(self):
        c = Counter()
        for p in self.parts:
            c.update(p.by_slice)
        return c

    @property
    def dist(self):
        c = Counter()
        for p in self.parts:
            c.update(p.dist)
        return c

    @property
    def ok(self):
        return all(p.ok for p in self.parts)

    def broken_slices(self):
        return [s for p in self.parts for s in p.broken_slices()]


class SubCtx:
    """a view of a check context with the case counts scaled down (to reuse another property's correspondence as a slice)"""

    def __init__(self, ctx, scale):
        self._ctx, self._scale = ctx, scale
        self.np, self.rng, self.seed, self.tier, self.thorough, self.prop = ctx.np, ctx.rng, ctx.seed, ctx.tier, ctx.thorough, ctx.prop

    def n(self, quick, thorough):
        return max(1, int(self._ctx.n(quick, thorough) * self._scale))


# ---------------------------------------------------------------------------------------------
# Lean side: build, audit

def lake_build(targets, timeout=3000):
    t0 = time.time()
    p = subprocess.run(["lake", "build"] + list(targets), cwd=LEAN, capture_output=True, text=True, timeout=timeout)
    log = p.stdout + p.stderr
    errs = [l for l in log.split("\n") if l.startswith("error:")]
    return p.returncode == 0, errs, log, time.time() - t0


def theorems_of(prop):
    """names of the property theorems (file Props/<prop>.lean holds nothing else but `example`s)"""
    src = (LEAN / "SmrtVerif" / "Props" / f"{prop}.lean").read_text()
    src_nc = strip_comments(src)
    ns = re.search(r"^namespace\s+(\S+)", src_nc, re.M)
    prefix = (ns.group(1) + ".") if ns else ""
    return [prefix + m for m in re.findall(r"^theorem\s+([^\s:({\[]+)", src_nc, re.M)]


def strip_comments(src):
    src = re.sub(r"/-.*?-/", "", src, flags=re.S)
    return re.sub(r"--.*", "", src)


def lean_sources(roots=None):
    """the Lean files of this project that the given root modules import, transitively (all files when roots is None)"""
    if roots is None:
        out = []
        for sub in ("SmrtVerif", "Drivers", "Audit"):
            out += sorted((LEAN / sub).rglob("*.lean"))
        return out
    seen, todo = {}, list(roots)
    while todo:
        mod = todo.pop()
        f = LEAN / (mod.replace(".", "/") + ".lean")
        if mod in seen or not f.exists():
            continue
        seen[mod] = f
        for m in re.findall(r"^import\s+(SmrtVerif\.[\w.]+)", f.read_text(), re.M):
            todo.append(m)
    return sorted(seen.values())


def forbidden_hits(roots=None):
    hits = []
    for f in lean_sources(roots):
        for i, l in enumerate(strip_comments(f.read_text()).split("\n")):
            if FORBIDDEN.search(l):
                hits.append(f"{f.relative_to(LEAN)}:{i+1}: {l.strip()[:100]}")
    return hits


def audit(prop, extra_roots=None):
    """`#print axioms` for every property theorem of `prop`; returns (ok, {theorem: [axioms]}, problems)"""
    thms = theorems_of(prop)
    body = f"import SmrtVerif.Props.{prop}\n" + "".join(f"#print axioms {t}\n" for t in thms)
    f = LEAN / "Audit" / f"{prop}.lean"
    f.parent.mkdir(exist_ok=True)
    f.write_text(body)
    p = subprocess.run(["lake", "env", "lean", str(f.relative_to(LEAN))], cwd=LEAN, capture_output=True, text=True, timeout=1800)
    out = p.stdout + p.stderr
    res, problems = {}, []
    for m in re.finditer(r"'([^']+)' depends on axioms: \[([^\]]*)\]", out, re.S):
        res[m.group(1)] = [a.strip() for a in m.group(2).replace("\n", " ").split(",") if a.strip()]
    for m in re.finditer(r"'([^']+)' does not depend on any axioms", out):
        res[m.group(1)] = []
    for t in thms:
        if t not in res:
            problems.append(f"{t}: no axiom report (does it still exist / compile?)")
        elif not set(res[t]) <= STD_AXIOMS:
            problems.append(f"{t}: non-standard axioms {sorted(set(res[t]) - STD_AXIOMS)}")
    if p.returncode != 0:
        problems.append("audit file failed to elaborate: " + out[-500:])
    # every project file the property's theorems and driver depend on must be free of sorry / axiom / native_decide …
    roots = [f"SmrtVerif.Props.{prop}"] + list(extra_roots or [])
    problems += ["forbidden construct: " + h for h in forbidden_hits(roots)]
    return (not problems), res, problems


def leanchecker(mods, timeout=3000):
    p = subprocess.run(["lake", "env", "leanchecker"] + list(mods), cwd=LEAN, capture_output=True, text=True, timeout=timeout)
    return p.returncode == 0, (p.stdout + p.stderr)[-1500:]


# ---------------------------------------------------------------------------------------------
# known findings, replays, evidence

def known_findings(prop):
    """{key: text} of the `known:` lines of this property (never written at run time)"""
    out = {}
    f = VERIF / "known_findings.txt"
    if f.exists():
        for l in f.read_text().split("\n"):
            m = re.match(r"known:\s+property=(\S+)\s+key=(\S+)\s+(.*)", l)
            if m and m.group(1) == prop:
                out[m.group(2)] = m.group(3)
    return out


def jsonable(x):
    import numpy as np
    if isinstance(x, dict):
        return {str(k): jsonable(v) for k, v in x.items()}
    if isinstance(x, (list, tuple, set)):
        return [jsonable(v) for v in x]
    if isinstance(x, np.ndarray):
        return jsonable(x.tolist())
    if isinstance(x, (np.integer,)):
        return int(x)
    if isinstance(x, (np.floating,)):
        return jsonable(float(x))
    if isinstance(x, complex):
        return {"re": x.real, "im": x.imag}
    if isinstance(x, float):
        return x if math.isfinite(x) else repr(x)
    if isinstance(x, (str, int, bool)) or x is None:
        return x
    return repr(x)


def write_replay(prop, seed, payload, tag=""):
    REPLAYS.mkdir(parents=True, exist_ok=True)
    path = REPLAYS / f"{prop}-{seed}{('-' + tag) if tag else ''}.json"
    payload = dict(payload)
    payload.setdefault("property", prop)
    payload.setdefault("seed", seed)
    rel = str(path.relative_to(VERIF)) if VERIF in path.parents else str(path)
    payload["replay_cmd"] = f"bin/check {prop} --replay {rel}"
    path.write_text(json.dumps(jsonable(payload), indent=1))
    return rel


def write_evidence(prop, tier, seed, coverage, assumptions, wall, violations, level="proof"):
    EVID.mkdir(exist_ok=True)
    ev = {"property_id": prop, "tier": tier, "seed": int(seed), "level": level,
          "coverage": jsonable(coverage), "assumptions": list(assumptions),
          "wall_s": round(wall, 2), "violations": int(violations)}
    (EVID / f"{prop}.json").write_text(json.dumps(ev, indent=1))
    return ev


class Finding:
    """a concrete input on which the *property itself* fails on the implementation"""

    def __init__(self, key, what, inp, observed=None, required=None):
        self.key, self.what, self.inp, self.observed, self.required = key, what, inp, observed, required

    def as_dict(self):
        return {"key": self.key, "what": self.what, "input": self.inp, "observed": self.observed, "required": self.required}
