"""C04 — results do not depend on how a homogeneous layer is subdivided."""
import json
import numpy as np
import common as C
from common import Corr, Tol, Finding, f2t, fs
import dortlib, scenes
import pC01

PROP = "C04"
DRIVER = "Dort"
LEAN_TARGETS = ["SmrtVerif.Props.C04", "SmrtVerif.Driver.Dort"]
TRUSTED = pC01.TRUSTED
ASSUMPTIONS = ["the split theorem is stated on the block form of the system (one unknown vector per layer); its tie to the banded matrix the "
               "code solves is the `dort.matrix` and `dort.lhs` correspondences (matrix entries and matrix-vector products), the placement in "
               "banded storage being C20's todiag/nband theorems"]
RULE = ("random stacks of 1..4 layers and their twins with one layer split at a random fraction (flat or transparent inserted interface), "
        "passive (mode 0) and active (modes 0..2, total and coherent-only passes); slices: every entry of the boundary matrix, block-form "
        "matrix-vector products on random vectors, and the split construction plugged into the code's own split system; "
        "distinct = distinct driver line")
TOL = Tol(1e-9, 1e-10, scale="line")


def split_scene(sc, k, frac, interface):
    assert 0.0 < frac < 1.0, "a split puts the cut strictly inside the layer"
    d = json.loads(json.dumps(sc))
    nl = len(d["thickness"])
    def dup(lst):
        return lst[:k + 1] + [lst[k]] + lst[k + 1:]
    t = d["thickness"][k]
    d["thickness"] = d["thickness"][:k] + [t * frac, t - t * frac] + d["thickness"][k + 1:]
    d["density"] = dup(d["density"]); d["temperature"] = dup(d["temperature"])
    for key, val in list(d.get("micro", {}).items()):
        if isinstance(val, list):
            d["micro"][key] = dup(val)
    base = d.get("interface") or ["flat"] * nl
    d["interface"] = base[:k + 1] + [interface] + base[k + 1:]
    return d


def extract(sc, active, m, coh=False):
    from smrt import sensor_list
    sp, atm = scenes.build(sc)
    sensor = sensor_list.active(sc["frequency"], 35.) if active else sensor_list.passive(sc["frequency"], 40.)
    s = dortlib.prepare_solver(sp, sc["emmodel"], sensor, atmosphere=None if active else atm, n_max_stream=sc["nmax"], m_max=max(m, 2))
    return dortlib.extract_case(s, m, coherent_only=coh, m_max=max(m, 2)), s


def correspond(ctx):
    co = Corr(PROP, DRIVER)
    rng = ctx.np
    made = 0
    while made < ctx.n(14, 80):
        em, ms = pC01.EMMODELS[int(rng.integers(0, 2))]
        active = bool(rng.random() < 0.4) and em != "nonscattering"
        sc = scenes.random_scene(rng, lossless=False, microstructure=ms, max_layers=4, atmosphere=False, active=active)
        sc["emmodel"], sc["nmax"] = em, int(rng.integers(8, 11))
        m = int(rng.integers(0, 3)) if active else 0
        coh = active and bool(rng.random() < 0.3)
        k = int(rng.integers(0, len(sc["thickness"])))
        frac = round(float(rng.uniform(0.1, 0.9)), 3)
        iface = str(rng.choice(["flat", "transparent"]))
        sc2 = split_scene(sc, k, frac, iface)
        try:
            c, s = extract(sc, active, m, coh)
            c2, s2 = extract(sc2, active, m, coh)
        except AssertionError:
            continue
        made += 1
        desc = {"scene": sc, "active": active, "m": m, "coherent_only": coh, "k": k, "frac": frac, "interface": iface}
        co.note(f"mode m={m}" + (" coherent-only" if coh else "")); co.note("active" if active else "passive"); co.note("inserted " + iface)
        for cc, tag in ((c, "unsplit"), (c2, "split")):
            co.add("dort.matrix", dortlib.case_line(cc).replace("dort Abe ", "dort A ", 1), dortlib.case_impl_line(cc, "A"), TOL, desc=desc)
            # block-form products on a random vector: (code matrix) @ x  vs  lhsTop/lhsBot of the model
            xr = rng.uniform(-1, 1, cc.x.shape)
            line = dortlib.case_line(cc).replace("dort Abe ", "lhs ", 1)
            line = " ".join(line.split()[:-cc.x.size]) + " " + fs(xr)
            co.add("dort.lhs", line, fs(cc.dense @ xr), TOL, desc=desc)
        # the split construction: x' built by the model from the code's unsplit solution must solve the code's split system
        d1 = c2.layers[k]["d"]; d2 = c2.layers[k + 1]["d"]
        line = dortlib.case_line(c).replace("dort Abe ", f"splitsol {k} {f2t(d1)} {f2t(d2)} ", 1)
        scale = max(1.0, float(np.abs(c2.b).max()), float(np.abs(c2.dense).max()) * float(np.abs(c.x).max()))

        # how far the code's inserted interface is from (R = 0, T = 1): exact for `transparent` and for V/H of `flat`; the U component of
        # a flat interface between identical *absorbing* media is mu2/mu1 from the real-index approximation (up to ~3e-4 at grazing)
        def dev(cv, target):
            a = cv.diag if hasattr(cv, "diag") else np.asarray(cv)
            return float(np.abs(np.asarray(a, dtype=float) - target).max()) if np.ndim(a) else abs(float(a) - target)
        delta = max(dev(c2.layers[k]["rbot"], 0.0), dev(c2.layers[k]["tbot"], 1.0), dev(c2.layers[k + 1]["rtop"], 0.0), dev(c2.layers[k + 1]["ttop"], 1.0))
        co.note("inserted interface exact" if delta < 1e-12 else "inserted interface T_u != 1 (absorbing media, flat)")

        def post(mo, c2=c2, scale=scale, delta=delta):
            xs = np.array([C.t2f(t) for t in mo.split()]).reshape(c2.x.shape)
            res = float(np.abs(c2.dense @ xs - c2.b).max()) / scale
            return "solves" if res < 1e-9 + 10 * delta else f"residual {res:.3g} (interface deviation {delta:.3g})"
        if not c.pruned and not c2.pruned:
            co.add("split.construction", line, "solves", C.EXACT, desc=desc, post=post)
    return co


# ---------------------------------------------------------------------------------------------

def run_model(sc, active, thetas=(20., 40.)):
    from smrt import make_model, sensor_list
    sp, atm = scenes.build(sc)
    m = make_model(sc["emmodel"], "dort", rtsolver_options=dict(n_max_stream=sc["nmax"], **sc.get("solver_options", {})))
    freq = sc["frequency"]
    if sc.get("int_frequency") and float(freq) == int(freq):
        freq = [int(freq), int(freq) + 1000000000]   # frequencies given as integers (e.g. [37_000_000_000, 38_000_000_000]); the first is read
    sensor = sensor_list.active(freq, list(thetas)) if active else sensor_list.passive(freq, list(thetas))
    res = m.run(sensor, sp)
    if isinstance(freq, list):
        from smrt.core.result import PassiveResult, ActiveResult
        res = type(res)(res.data.sel(frequency=freq[0], drop=True), other_data={k: v.sel(frequency=freq[0], drop=True) if "frequency" in getattr(v, "dims", ()) else v
                                                                                 for k, v in res.other_data.items()})
    return res


def check_split(sc, active, splits):
    base = run_model(sc, active)
    cur = sc
    for (k, frac, iface) in splits:
        cur = split_scene(cur, k, frac, iface)
    tw = run_model(cur, active)
    if active:
        a = np.asarray(base.sigmaVV_dB()).ravel(); b = np.asarray(tw.sigmaVV_dB()).ravel()
        a2 = np.asarray(base.sigmaHH_dB()).ravel(); b2 = np.asarray(tw.sigmaHH_dB()).ravel()
        dev = float(max(np.abs(a - b).max(), np.abs(a2 - b2).max()))
        return (dev, "<= 0.05 dB") if not dev <= 0.05 else None
    dev = float(np.abs(np.asarray(base.data.values) - np.asarray(tw.data.values)).max())
    return (dev, "<= 1e-8 K") if not dev <= 1e-8 else None


def check_split_operators(sc, frac, active=False):
    """the top layer cut in two with the `layer + snowpack` idiom of the API (a copy of the top layer with part of its thickness put on
    top of the medium, the rest left in place): same result as the unsplit medium - substrate, interfaces and everything else kept"""
    import copy
    from smrt import make_model, sensor_list
    from smrt.core.interface import make_interface
    base = run_model(sc, active)
    sp, atm = scenes.build(sc)
    top = copy.deepcopy(sp.layers[0])
    d = float(top.thickness)
    top.thickness = d * frac
    sp.layers[0].thickness = d - d * frac
    new = top + sp
    m = make_model(sc["emmodel"], "dort", rtsolver_options=dict(n_max_stream=sc["nmax"]))
    sensor = sensor_list.active(sc["frequency"], [20., 40.]) if active else sensor_list.passive(sc["frequency"], [20., 40.])
    tw = m.run(sensor, new)
    if len(new.layers) != len(sc["thickness"]) + 1:
        return (float(len(new.layers)), f"{len(sc['thickness']) + 1} layers")
    if active:
        dev = float(max(np.abs(np.asarray(base.sigmaVV_dB()) - np.asarray(tw.sigmaVV_dB())).max(), np.abs(np.asarray(base.sigmaHH_dB()) - np.asarray(tw.sigmaHH_dB())).max()))
        return (dev, "<= 0.05 dB") if not dev <= 0.05 else None
    dev = float(np.abs(np.asarray(base.data.values) - np.asarray(tw.data.values)).max())
    return (dev, "<= 1e-8 K") if not dev <= 1e-8 else None


def check_split_table(sc, k, frac):
    """the medium given as the columns of a pit table (pandas Series); layer k is cut by shortening its row and appending a row for the
    lower part, the table then sorted back into stratigraphic order - so the row labels read 0..k, n, k+1..n-1: same medium, same result"""
    base = run_model(sc, False)
    n = len(sc["thickness"])
    tw_sc = split_scene(sc, k, frac, "flat")
    tw_sc["series_labels"] = list(range(k + 1)) + [n] + list(range(k + 1, n))
    tw = run_model(tw_sc, False)
    dev = float(np.abs(np.asarray(base.data.values) - np.asarray(tw.data.values)).max())
    return (dev, "<= 1e-8 K") if not dev <= 1e-8 else None


def check_split_iadd(sc, k, fracs):
    """the medium assembled from the top with `snowpack += layer`; layer k goes in as slabs made from one template layer whose thickness is
    set before each addition (the additions copy what they are given): same medium, same result"""
    import copy
    from smrt import make_model, sensor_list
    from smrt.core.snowpack import Snowpack
    base = run_model(sc, False)
    sp, atm = scenes.build(sc)
    new = Snowpack()
    for i, lay in enumerate(sp.layers):
        if i != k:
            new += lay
            new.interfaces[-1] = copy.deepcopy(sp.interfaces[i])
            continue
        d = float(lay.thickness)
        for j, f in enumerate(fracs):
            lay.thickness = d * f
            new += lay
            new.interfaces[-1] = copy.deepcopy(sp.interfaces[i]) if j == 0 else Transparent_()
    if sp.substrate is not None:
        new += sp.substrate
    tot = float(sum(l.thickness for l in new.layers))
    want = float(sum(sc["thickness"]))
    if abs(tot - want) > 1e-9 * want:
        return (tot, f"total thickness {want}")
    m = make_model(sc["emmodel"], "dort", rtsolver_options=dict(n_max_stream=sc["nmax"]))
    tw = m.run(sensor_list.passive(sc["frequency"], [20., 40.]), new)
    dev = float(np.abs(np.asarray(base.data.values) - np.asarray(tw.data.values)).max())
    return (dev, "<= 1e-8 K") if not dev <= 1e-8 else None


def Transparent_():
    from smrt.interface.transparent import Transparent
    return Transparent()


def oracle(ctx, hints, effort):
    rng = ctx.np
    findings, evals = {}, 0
    for it in range(2 if effort == "routine" else 8):
        sc = scenes.random_scene(rng, nlayer=3 + it % 2, lossless=False, microstructure="exponential", atmosphere=False, substrate="flat", thick=(0.05, 0.5),
                                 frequency=float(rng.choice([18.7e9, 36.5e9])))
        sc["emmodel"], sc["nmax"] = "iba", 16
        k = int(rng.integers(0, len(sc["thickness"]) - 1))
        frac = round(float(rng.uniform(0.1, 0.9)), 3)
        for name, fn in (("table", lambda: check_split_table(sc, k, frac)), ("iadd", lambda: check_split_iadd(sc, k, (0.5, 0.3, 0.2)))):
            try:
                evals += 2
                r = fn()
            except (AssertionError, Warning):
                continue
            except Exception as e:  # noqa
                from smrt.core.error import SMRTError
                if isinstance(e, (SMRTError, KeyError, IndexError)):
                    r = (float("nan"), f"the cut medium is accepted as the uncut one is ({type(e).__name__}: {e})"[:200])
                else:
                    raise
            if r is not None:
                key = f"passive:split-{name}"
                findings.setdefault(key, Finding(key, f"layer {k} cut " + ("as a row of a pit table" if name == "table" else "into slabs added with +=")
                                                 + f": result differs ({r[0]:.3g})", {"kind": name, "scene": sc, "k": k, "frac": frac}, r[0], r[1]))
    for it in range(2 if effort == "routine" else 10):
        sc = scenes.random_scene(rng, lossless=False, microstructure="exponential", max_layers=3, atmosphere=False, substrate="flat", thick=(0.05, 0.5),
                                 frequency=float(rng.choice([10.65e9, 18.7e9])))
        sc["emmodel"], sc["nmax"] = "iba", 16
        frac = round(float(rng.uniform(0.1, 0.9)), 3)
        try:
            evals += 2
            r = check_split_operators(sc, frac, active=False)
        except AssertionError:
            continue
        if r is not None:
            findings.setdefault("passive:split-operators", Finding("passive:split-operators", f"cutting the top layer at {frac} with `layer + snowpack` changes "
                                                                   f"the result by {r[0]:.3g}", {"kind": "operators", "scene": sc, "frac": frac}, r[0], r[1]))
    # a millimetre crust cut a twentieth from its top: sub-millimetre sublayers are layers too
    for it in range(1 if effort == "routine" else 4):
        sc = scenes.random_scene(rng, nlayer=3, lossless=False, microstructure="exponential", atmosphere=False, substrate="flat", frequency=36.5e9)
        sc["thickness"] = [round(float(rng.uniform(0.05, 0.3)), 3), 1e-3, round(float(rng.uniform(0.1, 0.5)), 3)]
        sc["density"] = [250.0, 800.0, 300.0]
        sc["emmodel"], sc["nmax"] = "iba", 16
        splits = [(1, 0.05, "transparent")]
        try:
            evals += 2
            r = check_split(sc, False, splits)
        except AssertionError:
            continue
        if r is not None:
            findings.setdefault("passive:split:thin", Finding("passive:split:thin", f"splitting a 1 mm crust {splits} changes the result by {r[0]:.3g}",
                                                              {"scene": sc, "active": False, "splits": splits}, r[0], r[1]))
    # the bottom layer cut with a transparent interface under a flat surface, seen by a radar (the air-snow boundary is the first interface,
    # whatever lies between the layers below); and the same stack with the equally spaced stream option of the solver
    for it in range(2 if effort == "routine" else 6):
        sc = scenes.random_scene(rng, nlayer=2 + it % 2, lossless=False, microstructure="exponential", atmosphere=False, substrate="flat",
                                 frequency=float(rng.choice([13e9, 17e9])), active=True, thick=(0.1, 1.0))
        sc["emmodel"], sc["nmax"] = "iba", 16
        nl_ = len(sc["thickness"])
        splits = [(nl_ - 1, round(float(rng.uniform(0.2, 0.8)), 3), "transparent")]
        for active_, extra_ in ((True, {}), (False, dict(solver_options=dict(stream_mode="uniform_air")))):
            sc_ = dict(sc, **extra_)
            try:
                evals += 2
                r = check_split(sc_, active_, splits)
            except (AssertionError, Warning):
                continue
            except Exception as e:  # noqa
                from smrt.core.error import SMRTError
                if isinstance(e, SMRTError):
                    continue
                raise
            if r is not None:
                key = ("active:split:bottom-transparent" if active_ else "passive:split:uniform-streams")
                findings.setdefault(key, Finding(key, f"cutting the bottom layer {splits} " + ("seen by a radar" if active_ else "with stream_mode='uniform_air'")
                                                 + f" changes the result by {r[0]:.3g}", {"scene": sc_, "active": active_, "splits": splits}, r[0], r[1]))
    # hardly scattering layers at L band cut into ever thinner slices: a slice scatters as much per metre as the layer it came from
    for it in range(1 if effort == "routine" else 4):
        sc = scenes.random_scene(rng, nlayer=3, lossless=False, microstructure="exponential", atmosphere=False, substrate="flat", frequency=1.4e9)
        sc["thickness"] = [round(float(v), 3) for v in rng.uniform(0.2, 0.6, 3)]
        sc["micro"]["corr_length"] = [round(float(v), 7) for v in rng.uniform(1e-4, 3e-4, 3)]
        sc["emmodel"], sc["nmax"] = "iba", 16
        try:
            base_ = run_model(sc, False)
            k_ = int(np.argmax(np.asarray(base_.other_data["ks"].values, dtype=float) * np.asarray(sc["thickness"])))   # the layer that scatters most
        except AssertionError:
            continue
        for frac in (0.5, 0.3, 0.1, 0.03, 0.01, 0.003):
            splits = [(k_, frac, "transparent")]
            try:
                evals += 2
                r = check_split(sc, False, splits)
            except AssertionError:
                continue
            if r is not None:
                findings.setdefault("passive:split:weak", Finding("passive:split:weak", f"cutting layer {k_} of a hardly scattering L-band pack at {frac} "
                                                                  f"changes the result by {r[0]:.3g}", {"scene": sc, "active": False, "splits": splits}, r[0], r[1]))
                break
    for it in range(6 if effort == "routine" else 60):
        em, ms = pC01.PAIRINGS[it % (2 if effort == "routine" else len(pC01.PAIRINGS))]
        active = it % 3 == 2 and em != "nonscattering"
        sc = scenes.random_scene(rng, lossless=False, microstructure=ms, max_layers=6, atmosphere=False, thick=(0.05, 5.0), active=active)
        sc["emmodel"], sc["nmax"] = em, int(rng.choice([16, 32]))
        splits, extra = [], []
        nl = len(sc["thickness"])
        if it % 3 == 1 and it % 6 != 4 and not active:
            # optically deep, strongly scattering pack (optical depth well beyond 6) cut near the top of its deep layer: the new interface
            # lands at an optical depth where any depth-dependent shortcut of the solver would change the answer
            em = "iba"
            sc = scenes.random_scene(rng, nlayer=2, lossless=False, microstructure="exponential", atmosphere=False, substrate="flat",
                                     frequency=float(rng.choice([36.5e9, 89e9])))
            sc["thickness"] = [round(float(rng.uniform(0.2, 0.6)), 3), round(float(rng.uniform(4, 10)), 3)]
            sc["micro"]["corr_length"] = [round(float(rng.uniform(2e-4, 3e-4)), 7), round(float(rng.uniform(3e-4, 4.5e-4)), 7)]
            sc["density"] = [round(float(rng.uniform(200, 300)), 1), round(float(rng.uniform(300, 400)), 1)]
            sc["emmodel"], sc["nmax"] = em, 16
            # a ladder of cut depths, so that one of the new interfaces lands between optical depth 6 and 20 whatever the draw
            # (the window is a factor 2-3 wide and sits anywhere between 2 % and 90 % of the deep layer, depending on frequency and grain size)
            j0 = float(np.exp(rng.uniform(np.log(0.01), np.log(0.018))))
            extra = [[(1, round(j0 * 1.8 ** j, 4), "transparent")] for j in range(1, 8) if j0 * 1.8 ** j < 0.95]
            splits = [(1, round(j0, 4), "transparent")]
            if rng.random() < 0.5:
                splits.append((2, round(float(rng.uniform(0.05, 0.5)), 3), "flat"))
        elif it % 6 == 4 and not active:
            # kilometre-thick, hardly absorbing firn at L / P band (an ice sheet): thick but not opaque, so what lies below still matters
            em = "iba"
            sc = scenes.random_scene(rng, nlayer=2, lossless=False, microstructure="exponential", atmosphere=False, substrate="flat",
                                     frequency=float(rng.choice([0.5e9, 1.4e9])))
            sc["thickness"] = [round(float(rng.uniform(5, 50)), 2), round(float(rng.uniform(1200, 4000)), 1)]
            sc["micro"]["corr_length"] = [2e-4, 3e-4]
            sc["density"] = [350.0, 700.0]
            sc["ice_permittivity"] = [3.18, 2e-5]
            sc["emmodel"], sc["nmax"] = em, 16
            splits = [(1, round(float(rng.uniform(0.2, 0.8)), 3), "transparent")]
            if rng.random() < 0.5:
                splits.append((1, round(float(rng.uniform(0.3, 0.7)), 3), "transparent"))
        else:
            for _ in range(int(rng.integers(1, 5))):
                splits.append((int(rng.integers(0, nl)), round(float(rng.uniform(0.05, 0.95)), 3), str(rng.choice(["flat", "transparent"]))))
                nl += 1
        for splits in [splits] + extra:
            try:
                r = check_split(sc, active, splits)
            except AssertionError:
                continue
            except Exception as e:  # noqa
                from smrt.core.error import SMRTError
                if isinstance(e, SMRTError):
                    continue
                raise
            evals += 2
            if r is not None:
                key = ("active:" if active else "passive:") + "split:" + sc["emmodel"]
                findings.setdefault(key, Finding(key, f"splitting layers {splits} changes the result by {r[0]:.3g}",
                                                 {"scene": sc, "active": active, "splits": splits}, r[0], r[1]))
                break
    return list(findings.values()), evals


def replay(inp, rp=None):
    if inp.get("kind") in ("table", "iadd"):
        r = check_split_table(inp["scene"], inp["k"], inp["frac"]) if inp["kind"] == "table" else check_split_iadd(inp["scene"], inp["k"], (0.5, 0.3, 0.2))
        return Finding("?", "split changes result", inp, r[0], r[1]) if r else None
    if inp.get("kind") == "operators":
        r = check_split_operators(inp["scene"], inp["frac"])
        return Finding("?", "split with operators changes result", inp, r[0], r[1]) if r else None
    r = check_split(inp["scene"], inp["active"], [tuple(s) for s in inp["splits"]])
    return Finding("?", "split changes result", inp, r[0], r[1]) if r else None
