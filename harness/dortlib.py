"""Shared helper of the DORT-group harnesses (C01–C05, C07, C08): run the real solver's own building blocks
(compute_stream, InterfaceProperties, EigenValueSolver, dort_modem_banded) on a scene and serialise exactly what the
Lean model `SmrtVerif/Model/Dort.lean` takes as input, together with what the code produced (banded matrix, rhs,
solution, emerging intensity)."""
import numpy as np
import scipy.linalg
import common as C
from common import fs, f2t


def ser_cv(x):
    from smrt.core.lib import smrt_diag
    if isinstance(x, smrt_diag):
        return f"diag {len(x.diag)} " + fs(x.diag)
    if np.isscalar(x) or getattr(x, "shape", None) == ():
        assert x == 0
        return "0"
    x = np.asarray(x, dtype=float)
    return f"dense {x.shape[0]} {x.shape[1]} " + fs(x)


def prepare_solver(snowpack, emmodel_name, sensor, atmosphere=None, emmodel_options=None, **rtsolver_options):
    """a DORT instance in the state `solve` leaves it in before calling `dort`"""
    from smrt.rtsolver.dort import DORT
    from smrt.core.model import make_emmodel_instance
    emmodels = [make_emmodel_instance(emmodel_name, sensor, lay, **(emmodel_options or {})) for lay in snowpack.layers]
    s = DORT(**rtsolver_options)
    s.emmodels, s.snowpack, s.sensor, s.atmosphere = emmodels, snowpack, sensor, atmosphere
    s.effective_permittivity = np.array([e.effective_permittivity() for e in emmodels])
    s.substrate_permittivity = snowpack.substrate.permittivity(sensor.frequency) if snowpack.substrate is not None else None
    s.temperature = [l.temperature for l in snowpack.layers] if sensor.mode == "P" else None
    return s


class Case:
    pass


def extract_case(s, m, coherent_only=False, m_max=None):
    """everything about mode m of the current scene: inputs of the assembly, and the code's own results"""
    from smrt.rtsolver import dort as D
    npol_sensor = 3 if s.sensor.mode == "A" else 2
    m_max = m if m_max is None else m_max
    streams = D.compute_stream(s.n_max_stream, s.effective_permittivity, s.substrate_permittivity, mode=s.stream_mode)
    s.atmosphere_result = s.atmosphere.run(s.sensor.frequency, streams.outmu, npol_sensor) if s.atmosphere is not None else None
    i0, ihigh, incident = s.prepare_intensity_array(streams)
    interfaces = D.InterfaceProperties(s.sensor.frequency, s.snowpack.interfaces, s.snowpack.substrate,
                                       s.effective_permittivity, streams, m_max, npol_sensor)
    nl = len(s.emmodels)
    eig = [D.EigenValueSolver(s.emmodels[l].ke, s.emmodels[l].ks, s.emmodels[l].ft_even_phase, streams.mu[l], streams.weight[l],
                              m_max, s.phase_normalization, s.diagonalization_method) for l in range(nl)]
    if m > 0 and s.phase_normalization:
        for e in eig:
            e.solve(0, coherent_only)       # the normalisation of higher modes needs mode 0 first (as in dort())
    idown = i0 if m == 0 else ihigh
    npol = 2 if m == 0 else 3
    c = Case()
    c.m, c.npol, c.streams, c.interfaces, c.eig, c.idown, c.incident = m, npol, streams, interfaces, eig, np.array(idown, dtype=float), incident
    c.layers = []
    for l in range(nl):
        beta, Eu, Ed = eig[l].solve(m, coherent_only)
        c.layers.append(dict(n=int(streams.n[l]), d=float(s.snowpack.layers[l].thickness),
                             T=float(s.temperature[l]) if s.temperature is not None else 0.0,
                             beta=np.array(beta, dtype=float), Eu=np.array(Eu, dtype=float), Ed=np.array(Ed, dtype=float),
                             rtop=interfaces.reflection_top(l, m, coherent_only), rbot=interfaces.reflection_bottom(l, m, coherent_only),
                             ttop=interfaces.transmission_top(l, m, coherent_only), tbot=interfaces.transmission_bottom(l, m, coherent_only)))
    c.tbot_air = interfaces.transmission_bottom(-1, m, coherent_only)
    c.rbot_air = interfaces.reflection_bottom(-1, m, coherent_only)
    bBC, b = s.dort_modem_banded(m, streams, eig, interfaces, idown, compute_coherent_only=coherent_only, special_return="bBC")
    c.bBC, c.b = np.array(bBC), np.array(b)
    u = (bBC.shape[0] - 1) // 2
    N = bBC.shape[1]
    c.u, c.N = u, N
    # kept layers (pruning shortens the system)
    cum = np.cumsum(streams.n) * 2 * npol
    c.L = int(np.searchsorted(cum, N) + 1)
    assert cum[c.L - 1] == N, (cum, N)
    c.pruned = c.L < nl
    dense = np.zeros((N, N))
    for i in range(N):
        lo, hi = max(0, i - u), min(N, i + u + 1)
        for j in range(lo, hi):
            dense[i, j] = bBC[u + i - j, j]
    c.dense = dense
    c.x = scipy.linalg.solve_banded((u, u), c.bBC.copy(), c.b.copy())
    out = s.dort_modem_banded(m, streams, eig, interfaces, idown, compute_coherent_only=coherent_only)
    c.emerging = np.array(out, dtype=float).reshape(streams.n_air * npol, -1)
    sub = s.snowpack.substrate
    c.has_sub_temp = (not c.pruned) and sub is not None and sub.temperature is not None and s.temperature is not None
    c.tsub = float(sub.temperature) if c.has_sub_temp else 0.0
    c.passive = s.temperature is not None
    return c


def case_line(c):
    """the `dort …` driver line of a case"""
    nvec = c.idown.shape[1]
    t = [f"dort Abe {c.npol} {c.L} {c.streams.n_air} {int(c.streams.n_substrate)} {nvec} {int(c.passive)} {int(c.has_sub_temp)} {f2t(c.tsub)} {int(c.m == 0)}",
         ser_cv(c.tbot_air), ser_cv(c.rbot_air), fs(c.idown)]
    for ly in c.layers[:c.L]:
        t += [str(ly["n"]), f2t(ly["d"]), f2t(ly["T"]), fs(ly["beta"]), fs(ly["Eu"]), fs(ly["Ed"]),
              ser_cv(ly["rtop"]), ser_cv(ly["rbot"]), ser_cv(ly["ttop"]), ser_cv(ly["tbot"])]
    t.append(fs(c.x))
    return " ".join(x for x in t if x != "")


def case_impl_line(c, parts=("A", "b", "e")):
    out = [str(c.N)]
    out.append(fs(c.dense) if "A" in parts else "")
    out.append(fs(c.b) if "b" in parts else "")
    out.append(fs(c.emerging) if "e" in parts else "")
    return " | ".join(out)


def eigen_residual(c):
    """‖A E − E diag β‖ / ‖A‖ per layer, for the trusted-base statement about scipy.linalg.eig"""
    res = []
    for l, e in enumerate(c.eig):
        try:
            A = e.solve(c.m, False, debug_A=True)
        except TypeError:
            return res
        if isinstance(A, tuple):
            res.append(0.0)      # trivial solution, no matrix
            continue
        ly = c.layers[l]
        E = np.vstack([ly["Eu"], ly["Ed"]])
        r = np.abs(A @ E - E * ly["beta"][None, :]).max() / max(1e-300, np.abs(A).max())
        res.append(float(r))
    return res


def buildA_lines(c, s, modes=None):
    """per scattering layer: the driver line for the eigen matrix and the matrix the code builds (debug_A=True)"""
    out = []
    for l, e in enumerate(c.eig):
        m = c.m
        npol = 2 if m == 0 else 3
        mu = np.concatenate((e.mu, -e.mu))
        ft = e.ft_even_phase
        from smrt.core.lib import is_equal_zero
        P = ft.compress(mode=m, auto_reduce_npol=True)
        ns = len(e.mu)
        N = 2 * npol * ns
        ke = np.asarray(e.ke(mu, npol=npol).compress().diagonal(), dtype=float)
        if is_equal_zero(P):
            continue
        A = e.solve(m, False, debug_A=True)
        ks = e.ks
        if callable(ks):
            continue
        if not e.normalization or (np.any(ks == 0)):
            nm, extra = "0", ""
        elif m == 0:
            nm, extra = "1", ""
        else:
            nm, extra = "2", " " + fs(e.norm_0)
        line = f"buildA {npol} {ns} {int(m == 0)} {nm} {fs(e.mu)} {fs(e.weight)} {fs(P)} {fs(ke)} {f2t(float(ks))}{extra}"
        invmu = np.concatenate((np.repeat(1.0 / e.mu, npol), -np.repeat(1.0 / e.mu, npol)))
        impl = "in " + fs(A) + " | " + fs(invmu * ke)
        out.append((l, line, " ".join(impl.split())))
    return out
