"""C13 — permittivity formulae are admissible, continuous in limits, mutually consistent.

Correspondence: every public function of smrt/permittivity/{ice,water,wetice,wetsnow,saline_ice,saline_water,saline_snow,
brine,snow_mixing_formula}.py and the three soil formulae of smrt/inputs/make_soil.py is called in-process on dense grids
and compared with its Lean twin (SmrtVerif/Model/Permittivity/*.lean) at 1e-10 *relative* per component.
Oracle: the property itself (finite, Re >= 1, Im >= 0 inside the documented domain; vanishing-constituent limits; determinism;
scalar = array; guards), independent of the Lean model.
"""
import math, warnings
import numpy as np
import common as C
from common import Corr, Tol, Finding, f2t

PROP = "C13"
DRIVER = "C13"
LEAN_TARGETS = ["SmrtVerif.Props.C13", "SmrtVerif.Driver.C13"]
TRUSTED = ["correspondence harness harness/pC13.py and driver SmrtVerif/Driver/C13.lean",
           "real ↔ IEEE double: theorems are over ℝ; Float.exp/log/sqrt/atan/cos/sin vs numpy/libm differ by ulps (absorbed by 1e-10 relative)",
           "x**y with a non-integer exponent is modelled as exp(y·log x); np.pi as the decimal literal 3.141592653589793",
           "scipy.optimize.root (three-component Polder–van Santen, Colbeck I–III): only the residual equation is modelled; the returned root is checked against it",
           "generic mixing formulae (Maxwell-Garnett, Polder–van Santen) are re-typed in Model/Permittivity/Common.lean; their own properties are C15",
           "seawwater_permittivity_boutin21_{2,3}function need the package gsw (not installed): not modelled, not claimed"]
ASSUMPTIONS = ["documented domains: ice 200 K..273.15 K, water 273.15..310 K, brine 240 K..273.15 K, salinity 0..40 PSU, liquid water 0..1, "
               "density 50..916.7 kg m-3, frequency 0.3..200 GHz; Hallikainen 3-37 GHz, mv 1-12 %, dry density 0.09-0.38 g cm-3; "
               "saline snow -22.9 C <= T < 0 and initial brine volume < 1; wet ice / wet snow with liquid water only at T = 273.15 K",
               "guard claims are made for the functions that have a guard in the source (ice.py, water.py, klein76, wet-snow formulae, Cox-Weeks, "
               "soil hut/montpetit); stogryn71/85/95, the brine helpers, _ice_permittivity_DMRTML/_MEMLS have none and return numbers outside their range",
               "agreement of alternative formulations 'within the literature spread' is not decided (DESIGN §6)"]
RULE = ("per function: frequency from a 61-point log grid 0.3-200 GHz (15 % log-uniform off-grid), temperature from a dense grid of the material's range "
        "plus both sides (±1e-9 K, ±0.1 K) of every branch temperature, salinity/liquid water/density from grids including the end points and 0; "
        "out-of-domain temperatures for the guards; array calls per array-able argument; distinct = distinct (slice, input line)")

FP = 273.15
FREQS = np.logspace(math.log10(0.3e9), math.log10(200e9), 61)
BRANCH_C = [-2.0, -2.06, -8.2, -10.0, -22.9, -36.8, -38.0, -0.1, -0.2, -0.3, -0.4]
DELTAS = [-0.1, -1e-9, 0.0, 1e-9, 0.1]


def _branches(lo, hi):
    out = []
    for b in BRANCH_C:
        for d in DELTAS:
            t = FP + b + d
            if lo <= t <= hi:
                out.append(t)
    return out


T_ICE = sorted(set(list(np.linspace(200, FP, 41)) + _branches(200, FP) + [273.0, 273.0 - 1e-9, 273.0 + 1e-9, FP - 1e-9, FP]))
T_WATER = sorted(set(list(np.linspace(FP, 310, 41)) + [FP + 1e-9, FP + 0.1]))
T_BRINE = sorted(set(list(np.linspace(240, FP - 0.5, 41)) + _branches(235, FP - 0.05)))
T_BRINE_CLOSED = sorted(set(T_BRINE + [FP]))
SAL = sorted(set([0.0] + list(np.linspace(0, 40e-3, 21)) + [1e-6, 1e-4, 35e-3]))
LW = sorted(set([0.0, 1e-6, 1e-3, 0.01, 0.03, 0.05, 0.1, 0.15, 0.2, 0.3, 0.5, 0.7, 0.9, 1.0]))
DENS = sorted(set(list(np.linspace(50, 916.7, 30)) + [100., 300., 350., 500., 900.]))


# the needles Polder-van Santen quadratic cancels (brine permittivity of 50-80 against ice at 3.2): the two floating-point
# evaluations agree to about 1e-10 of the value, so these slices are compared at 1e-8 (a wrong formula is off by >1e-3)
TOL_PVS = Tol(1e-8)


class Spec:
    def __init__(self, name, module, call, gen, kind="c", bad=None, arr=(), argnames=(), tol=None):
        self.name, self.module, self.call, self.gen, self.kind = name, module, call, gen, kind
        self.tol = tol
        self.bad, self.arr, self.argnames = bad, arr, argnames

    @property
    def slice(self):
        return f"{self.module}.{self.name}"


_SPECS = None


def specs():
    global _SPECS
    if _SPECS is not None:
        return _SPECS
    with warnings.catch_warnings():
        warnings.simplefilter("ignore")
        from smrt.permittivity import ice, water, brine, saline_water as sw, wetice, saline_ice as si
        from smrt.permittivity import snow_mixing_formula as smf, saline_snow as ss, wetsnow as wsn
        from smrt.inputs import make_soil as ms
    S = []

    def ch(rng, xs):
        return float(xs[int(rng.integers(0, len(xs)))])

    def gf(rng):
        return ch(rng, FREQS) if rng.random() < 0.85 else float(10 ** rng.uniform(math.log10(0.3e9), math.log10(200e9)))

    def gT(rng, grid, lo, hi):
        return ch(rng, grid) if rng.random() < 0.8 else float(rng.uniform(lo, hi))

    tice = lambda r: gT(r, T_ICE, 200, FP)
    twat = lambda r: gT(r, T_WATER, FP, 310)
    tbr = lambda r: gT(r, T_BRINE, 240, FP - 0.05)
    tbrc = lambda r: gT(r, T_BRINE_CLOSED, 240, FP)
    gs = lambda r: ch(r, SAL) if r.random() < 0.7 else float(r.uniform(0, 40e-3))
    glw = lambda r: ch(r, LW) if r.random() < 0.7 else float(r.uniform(0, 1))
    gd = lambda r: ch(r, DENS) if r.random() < 0.7 else float(r.uniform(50, 916.7))
    bad_ice = lambda r: [(gf(r), t) for t in (FP + 1e-9, FP + 0.1, 280., 300.)]
    bad_water = lambda r: [(gf(r), t) for t in (FP - 1e-9, FP - 0.1, 260., 200.)]

    # ---- ice.py
    for nm, fn in [("ice_maetzler06", ice.ice_permittivity_maetzler06), ("ice_maetzler98", ice.ice_permittivity_maetzler98),
                   ("ice_maetzler87", ice.ice_permittivity_maetzler87), ("ice_tiuri84", ice.ice_permittivity_tiuri84),
                   ("ice_hufford91", ice.ice_permittivity_hufford91_maetzler87)]:
        S.append(Spec(nm, "ice", (lambda fn: lambda f, T: fn(f, T))(fn), lambda r: (gf(r), tice(r)), bad=bad_ice, arr=(0, 1),
                      argnames=("frequency", "temperature")))
    S.append(Spec("ice_HUT", "ice", lambda f, T: ice._ice_permittivity_HUT(f, T), lambda r: (gf(r), tice(r)),
                  bad=lambda r: [(gf(r), t) for t in (273.0 + 1e-9, 273.1, FP, 280.)], arr=(0, 1), argnames=("frequency", "temperature")))
    S.append(Spec("ice_DMRTML", "ice", lambda f, T: ice._ice_permittivity_DMRTML(f, T), lambda r: (gf(r), tice(r)), arr=(0, 1),
                  argnames=("frequency", "temperature")))
    S.append(Spec("ice_MEMLS", "ice", lambda f, T, s: ice._ice_permittivity_MEMLS(f, T, s),
                  lambda r: (gf(r), tice(r), float(r.choice([0., 0.013, 0.1, 1.0]))), arr=(0, 1, 2), argnames=("frequency", "temperature", "salinity")))
    # ---- water.py
    S.append(Spec("water_maetzler87", "water", lambda f, T: water.water_permittivity_maetzler87(f, T), lambda r: (gf(r), twat(r)),
                  bad=bad_water, arr=(0, 1), argnames=("frequency", "temperature")))
    S.append(Spec("water_tiuri80", "water", lambda f, T: water.water_permittivity_tiuri80(f, T), lambda r: (gf(r), twat(r)),
                  bad=bad_water, arr=(0, 1), argnames=("frequency", "temperature")))
    # ---- brine.py
    for nm, fn, arr in [("brine_conductivity", brine.brine_conductivity, (0,)), ("brine_relaxation_time", brine.brine_relaxation_time, (0,)),
                        ("brine_salinity", brine.brine_salinity, (0,)), ("static_brine_permittivity", brine.static_brine_permittivity, (0,)),
                        ("permittivity_high_frequency_limit", brine.permittivity_high_frequency_limit, (0,))]:
        S.append(Spec(nm, "brine", (lambda fn: lambda T: fn(T))(fn), lambda r: (tbrc(r),), kind="r", arr=arr, argnames=("temperature",)))
    S.append(Spec("water_freezing_temperature", "brine", lambda s: brine.water_freezing_temperature(s), lambda r: (gs(r),), kind="r", arr=(0,),
                  argnames=("salinity",)))
    tcox = lambda r: float(r.choice([FP - 38.0 - 1e-9, FP - 38.0 - 0.1, 230., FP + 1.])) if r.random() < 0.1 else tbrc(r)
    S.append(Spec("brine_volume_cox83", "brine", lambda T, s, p: brine.brine_volume_cox83_lepparanta88(T, s, porosity=p),
                  lambda r: (tcox(r), gs(r), float(r.choice([0., 0., 0.05, 0.2]))), kind="r", arr=(0, 1), argnames=("temperature", "salinity", "porosity")))
    S.append(Spec("brine_volume_cox83_bd", "brine", lambda T, s, p, b: brine.brine_volume_cox83_lepparanta88(T, s, porosity=p, bulk_density=b),
                  lambda r: (tcox(r), gs(r), float(r.choice([0., 0., 0., 0.05])), float(r.uniform(700, 940))), kind="r",
                  argnames=("temperature", "salinity", "porosity", "bulk_density")))
    S.append(Spec("brine_volume_frankenstein67", "brine", lambda T, s: brine.brine_volume_frankenstein67(T, s), lambda r: (tbr(r), gs(r)), kind="r",
                  arr=(0, 1), argnames=("temperature", "salinity")))
    S.append(Spec("brine_volume_stogryn87", "brine", lambda T, s: brine.brine_volume_function_stogryn_1987(T, s),
                  lambda r: (gT(r, sorted(set(T_BRINE + _branches(225, 240) + [230.])), 230, FP - 0.05), max(gs(r), 1e-6)), kind="r", arr=(0, 1),
                  argnames=("temperature", "salinity")))
    # ---- saline_water.py

    def tempF(s):
        sp = s / 1e-3
        return -(0.0575 * sp - 1.710523e-3 * sp ** 1.5 + 2.154996e-4 * sp ** 2)

    def gklein(r):
        s = gs(r)
        u = r.random()
        if u < 0.15:
            T = FP + tempF(s) - 0.1 + float(r.choice([1e-6, 0.05, 0.1]))
        else:
            T = twat(r)
        return (gf(r), T, s)
    S.append(Spec("seawater_klein76", "saline_water", lambda f, T, s: sw.seawater_permittivity_klein76(f, T, s), gklein,
                  bad=lambda r: [(gf(r), FP + tempF(s) - 0.1 - d, s) for s in (0., 10e-3, 35e-3) for d in (1e-6, 0.5, 10.)], arr=(0, 1, 2),
                  argnames=("frequency", "temperature", "salinity")))
    S.append(Spec("seawater_stogryn71", "saline_water", lambda f, T: sw.seawater_permittivity_stogryn71(f, T), lambda r: (gf(r), tbrc(r)), arr=(0, 1),
                  argnames=("frequency", "temperature")))
    S.append(Spec("brine_stogryn85", "saline_water", lambda f, T: sw.brine_permittivity_stogryn85(f, T), lambda r: (gf(r), tbrc(r)), arr=(0, 1),
                  argnames=("frequency", "temperature")))
    S.append(Spec("seawater_stogryn95", "saline_water", lambda f, T, s: sw.seawater_permittivity_stogryn95(f, T, s),
                  lambda r: (gf(r), gT(r, sorted(set(T_WATER + [271.15, 272.])), 271.15, 310), gs(r)), arr=(0, 1, 2),
                  argnames=("frequency", "temperature", "salinity")))
    # ---- wetice.py / wetsnow.py

    def gwet(r):
        u = r.random()
        if u < 0.6:
            return (gf(r), FP, glw(r))
        if u < 0.8:
            return (gf(r), tice(r), 0.0)               # early return of the dry value
        if u < 0.9:
            return (gf(r), tice(r), glw(r))            # T < freezing with water: the water formula refuses
        return (gf(r), float(r.choice([FP + 1e-9, 280.])), glw(r))
    S.append(Spec("wetice_bohren83", "wetice", lambda f, T, lw: wetice.wetice_permittivity_bohren83(f, T, lw), gwet, arr=(2,),
                  argnames=("frequency", "temperature", "liquid_water")))
    S.append(Spec("wetice_symmetric", "wetice", lambda f, T, lw: wetice.symmetric_wetice_permittivity(f, T, lw), gwet, arr=(2,),
                  argnames=("frequency", "temperature", "liquid_water")))
    S.append(Spec("wetsnow_permittivity", "wetsnow", lambda f, T, lw: wsn.wetsnow_permittivity(f, T, lw), gwet, arr=(2,),
                  argnames=("frequency", "temperature", "liquid_water")))
    # ---- saline_ice.py
    S.append(Spec("impure_ice_maetzler06", "saline_ice", lambda f, T, s: si.impure_ice_permittivity_maetzler06(f, T, s),
                  lambda r: (gf(r), tice(r), float(r.choice([0., 0.013e-3, 1e-4, 1e-3]))), bad=lambda r: [(gf(r), t, 1e-5) for t in (FP + 1e-9, 280.)],
                  arr=(0, 1), argnames=("frequency", "temperature", "salinity")))
    gvb = lambda r: float(r.choice([0., 1e-6, 0.01, 0.05, 0.1, 0.3, 0.6, 1.0])) if r.random() < 0.6 else float(r.uniform(0, 1))
    S.append(Spec("saline_ice_pvs", "saline_ice",
                  lambda sh, f, T, vb: si.saline_ice_permittivity_pvs_mixing(f, T, vb, brine_inclusion_shape=("spheres", "random_needles")[int(sh)]),
                  lambda r: (float(r.integers(0, 2)), gf(r), tbrc(r), gvb(r)), bad=lambda r: [(0., gf(r), 280., 0.1)], arr=(1, 3),
                  argnames=("shape", "frequency", "temperature", "brine_volume_fraction"), tol=TOL_PVS))
    S.append(Spec("saline_ice_pvs_mix", "saline_ice",
                  lambda q, f, T, vb: si.saline_ice_permittivity_pvs_mixing(f, T, vb, brine_inclusion_shape=("spheres", "random_needles"), brine_mixing_ratio=q),
                  lambda r: (float(r.choice([0., 0.3, 0.5, 1.])), gf(r), tbrc(r), gvb(r)), argnames=("mixing_ratio", "frequency", "temperature", "brine_volume_fraction"), tol=TOL_PVS))
    # ---- snow_mixing_formula.py

    def gwetsnow(r, lwmax=0.9):
        u = r.random()
        lw = min(glw(r), lwmax)
        if u < 0.65:
            return (gf(r), FP, gd(r), lw)
        if u < 0.85:
            return (gf(r), tice(r), gd(r), 0.0)
        return (gf(r), float(r.choice([FP - 1e-9, FP - 0.1, 260.])), gd(r), max(lw, 1e-6))   # guard
    S.append(Spec("wetsnow_tinga73", "snow_mixing_formula", lambda f, T, d, lw: smf.wetsnow_permittivity_tinga73(f, T, d, lw), gwetsnow, arr=(2, 3),
                  argnames=("frequency", "temperature", "density", "liquid_water")))

    def ghall(r):
        if r.random() < 0.7:   # inside the documented box, parametrised by (mv, dry density)
            mv = float(r.choice([1., 2., 4., 8., 12.])) if r.random() < 0.5 else float(r.uniform(1, 12))
            rd = float(r.choice([0.09, 0.2, 0.38])) if r.random() < 0.5 else float(r.uniform(0.09, 0.38))
            d, lw = hall_inputs(mv, rd)
            return (float(r.uniform(3e9, 37e9)) if r.random() < 0.5 else float(r.choice([3e9, 10e9, 19e9, 37e9])), d, lw)
        return (gf(r), gd(r), min(glw(r), 0.9))
    S.append(Spec("wetsnow_hallikainen86", "snow_mixing_formula", lambda f, d, lw: smf.wetsnow_permittivity_hallikainen86(f, d, lw), ghall, arr=(0, 1, 2),
                  argnames=("frequency", "density", "liquid_water")))
    S.append(Spec("wetsnow_hallikainen86_ulaby14", "snow_mixing_formula", lambda f, d, lw: smf.wetsnow_permittivity_hallikainen86_ulaby14(f, d, lw), ghall,
                  arr=(0, 1, 2), argnames=("frequency", "density", "liquid_water")))
    S.append(Spec("wetsnow_wiesmann99", "snow_mixing_formula", lambda f, T, d, lw: smf.wetsnow_permittivity_wiesmann99(f, T, d, lw), gwetsnow, arr=(3,),
                  argnames=("frequency", "temperature", "density", "liquid_water")))
    S.append(Spec("wetsnow_memls", "snow_mixing_formula", lambda f, T, d, lw: smf.wetsnow_permittivity_memls(f, T, d, lw), gwetsnow, arr=(3,),
                  argnames=("frequency", "temperature", "density", "liquid_water")))
    S.append(Spec("depol_maetzler96", "snow_mixing_formula", lambda d: (lambda a: complex(a[0], a[2]))(smf.depolarization_factors_maetzler96(d)),
                  lambda r: (float(r.choice([0.33 * 916.7, 0.71 * 916.7, 0.33 * 916.7 - 1e-9, 0.33 * 916.7 + 1e-9, 0.71 * 916.7 - 1e-9, 0.71 * 916.7 + 1e-9]))
                             if r.random() < 0.3 else gd(r),), argnames=("density",)))

    def gdry(r):
        u = r.random()
        d = gd(r)
        if u < 0.3:
            return (d, 1.0, 0.0, 3.185, 0.0)
        e = ice.ice_permittivity_maetzler06(gf(r), float(r.uniform(200, FP)))
        if u < 0.85:
            return (d, 1.0, 0.0, e.real, e.imag)
        return (d, e.real, e.imag, 1.0, 0.0)   # swapped arguments
    S.append(Spec("drysnow_maetzler96", "snow_mixing_formula",
                  lambda d, a, b, c, e: smf.drysnow_permittivity_maetzler96(d, e0=(a if b == 0 else complex(a, b)), eps=(c if e == 0 else complex(c, e))), gdry,
                  argnames=("density", "e0.re", "e0.im", "eps.re", "eps.im")))
    # ---- saline_snow.py
    tss = lambda r: gT(r, [t for t in T_BRINE if t >= FP - 23.0], FP - 22.9, FP - 0.05)
    gss = lambda r: float(r.choice([0., 0.1e-3, 1e-3, 5e-3, 12e-3])) if r.random() < 0.6 else float(r.uniform(0, 12e-3))
    S.append(Spec("saline_snow_geldsetzer09", "saline_snow", lambda f, d, T, s: ss.saline_snow_permittivity_geldsetzer09(f, d, T, s),
                  lambda r: (gf(r), float(r.uniform(100, 550)), tss(r), gss(r)), arr=(0,), argnames=("frequency", "density", "temperature", "salinity")))
    bad_sch = lambda r: [(gf(r), 300., t, 0.0) for t in (FP - 22.9 - 1e-9, FP - 23., FP - 30.)]
    S.append(Spec("saline_snow_scharien_stogryn71", "saline_snow", lambda f, d, T, s: ss.saline_snow_permittivity_scharien_with_stogryn71(f, d, T, s),
                  lambda r: (gf(r), float(r.uniform(100, 550)), tss(r), gss(r)), bad=bad_sch, argnames=("frequency", "density", "temperature", "salinity")))
    S.append(Spec("saline_snow_scharien_stogryn95", "saline_snow", lambda f, d, T, s: ss.saline_snow_permittivity_scharien_with_stogryn95(f, d, T, s),
                  lambda r: (gf(r), float(r.uniform(100, 550)), tss(r), gss(r)), bad=bad_sch, argnames=("frequency", "density", "temperature", "salinity")))
    # ---- make_soil.py

    def gsc(r):
        # sand and clay fractions of mineral soils; Dobson's effective conductivity 0.0467 + 0.2204 rho_b - 0.4111 S + 0.6614 C is negative
        # (and the formula returns a negative or NaN loss) for S > 0.81: outside the soils the fit was made for
        s = float(r.uniform(0, 0.6)); c = float(r.uniform(0, min(0.6, 1 - s)))
        return s, c
    S.append(Spec("soil_dobson", "make_soil", lambda f, T, m, s, c: ms.soil_dielectric_constant_dobson(f, T, m, s, c),
                  lambda r: (gf(r), twat(r), float(r.uniform(0.02, 0.5))) + gsc(r), argnames=("frequency", "tempK", "SM", "S", "C")))
    S.append(Spec("soil_hut", "make_soil", lambda f, T, m, s, c, d: ms.soil_dielectric_constant_hut(f, T, m, s, c, d),
                  lambda r: (gf(r), twat(r), float(r.choice([0., 0.02, 0.2, 0.5])) if r.random() < 0.3 else float(r.uniform(0, 0.5))) + gsc(r) + (float(r.uniform(500, 2000)),),
                  bad=lambda r: [(gf(r), t, 0.2, 0.4, 0.3, 1100.) for t in (FP - 1e-9, 270., 250.)], argnames=("frequency", "tempK", "SM", "sand", "clay", "dm_rho")))
    S.append(Spec("soil_montpetit2008", "make_soil", lambda f, T: complex(ms.soil_dielectric_constant_monpetit2008(f, T)),
                  lambda r: (float(r.choice([10.65e9, 19e9, 37e9, 19e9 * (1 + 1e-12), 19e9 * (1 - 1e-12)])) if r.random() < 0.3 else gf(r), tice(r)),
                  bad=lambda r: [(gf(r), t) for t in (FP + 1e-9, 280.)], argnames=("frequency", "temperature")))
    _SPECS = S
    return S


def hall_inputs(mv, rd):
    """(density, liquid_water) giving the volumetric water content mv [%] and the dry-snow density rd [g cm-3]"""
    fw = mv / 100.0
    d = rd * 1000.0 * (1 - fw) + 1000.0 * fw
    lw = 916.7 * fw / (d - (1000.0 - 916.7) * fw)
    return d, lw


THREE = ["wetsnow_permittivity_colbeck80_caseI", "wetsnow_permittivity_colbeck80_caseII", "wetsnow_permittivity_colbeck80_caseIII",
         "wetsnow_permittivity_three_component_polder_van_santen"]


# ---------------------------------------------------------------------------------------------
# calling the implementation

def run(fn, args):
    """value (complex / float / ndarray) or an error token"""
    try:
        with warnings.catch_warnings():
            warnings.simplefilter("ignore")
            return fn(*args)
    except Exception as e:  # noqa
        return C.err_kind(e)


def _exp(v):
    return math.frexp(v)[1] if (v != 0 and math.isfinite(v)) else 0


def encode(name, kind, args, val):
    """(driver line, implementation output line): each component scaled by the power of two that brings the implementation's value into
    [0.5, 1) — exact on both sides — so that the 1e-10 tolerance is relative to each component"""
    if isinstance(val, str):
        return f"{name} 0 0 " + " ".join(f2t(a) for a in args), val
    if kind == "c":
        z = complex(val)
        kr, ki = _exp(z.real), _exp(z.imag)
        # a component more than 2^17 below the other one is compared relative to the larger one / 2^17 (it may be the rounding residue of
        # a cancellation in complex arithmetic, e.g. an imaginary part that vanishes identically)
        if z.real != 0 and z.imag != 0:
            kr, ki = max(kr, ki - 17), max(ki, kr - 17)
        out = f2t(math.ldexp(z.real, -kr)) + " " + f2t(math.ldexp(z.imag, -ki))
    else:
        x = float(val)
        kr, ki = _exp(x), 0
        out = f2t(math.ldexp(x, -kr))
    return f"{name} {kr} {ki} " + " ".join(f2t(a) for a in args), out


TOL = Tol(1e-10)


def correspond(ctx):
    co = Corr(PROP, DRIVER)
    rng = ctx.np
    n = ctx.n(260, 6000)
    for sp in specs():
        # scalar calls
        k = 0
        while k < n:
            args = sp.gen(rng)
            val = run(sp.call, args)
            k += 1
            if isinstance(val, str) and val != "ERR SMRTError":
                co.note(f"skipped (loud refusal {val}) {sp.name}")
                continue
            line, out = encode(sp.name, sp.kind, args, val)
            co.add(sp.slice, line, out, sp.tol or TOL, desc={"fn": sp.name, "args": dict(zip(sp.argnames, args))}, nontrivial=not isinstance(val, str))
            co.note(("SMRTError " if isinstance(val, str) else "value ") + sp.module)
        # guards
        if sp.bad is not None:
            for args in sp.bad(rng):
                val = run(sp.call, args)
                if isinstance(val, str) and val != "ERR SMRTError":
                    co.note(f"skipped (loud refusal {val}) {sp.name}")
                    continue
                line, out = encode(sp.name, sp.kind, args, val)
                co.add(sp.slice + ".guard", line, out, TOL, desc={"fn": sp.name, "args": dict(zip(sp.argnames, args))}, nontrivial=False)
                co.note("guard case -> " + ("SMRTError" if isinstance(val, str) else "value"))
        # array calls: the array result must equal the model elementwise
        for ai in sp.arr:
            for _ in range(ctx.n(3, 30)):
                base = None
                for _try in range(20):   # a base point and 4 variations of one argument, all of them valid as scalars
                    cands = [sp.gen(rng) for _ in range(4)]
                    base = cands[0]
                    vals = [c[ai] for c in cands]
                    rows = [tuple(v if j == ai else b for j, b in enumerate(base)) for v in vals]
                    if all(not isinstance(run(sp.call, r_), str) for r_ in rows):
                        break
                    base = None
                if base is None:
                    continue
                aargs = tuple(np.array(vals, dtype=float) if j == ai else b for j, b in enumerate(base))
                res = run(sp.call, aargs)
                if isinstance(res, str):
                    co.note(f"scalar-only: {sp.name}({sp.argnames[ai]}=array) -> {res}")
                    break
                res = np.asarray(res)
                if res.shape == ():       # e.g. the early return of the dry value for an all-zero liquid_water array: a broadcastable scalar
                    co.note(f"array call {sp.name}({sp.argnames[ai]}=array) returned a scalar (broadcast)")
                    res = np.broadcast_to(res, (len(vals),))
                if res.shape != (len(vals),):
                    co.note(f"array call {sp.name}({sp.argnames[ai]}=array) returned shape {res.shape}")
                    break
                for r_, v in zip(rows, res):
                    line, out = encode(sp.name, sp.kind, r_, v)
                    co.add(sp.slice + ".array", line, out, sp.tol or TOL, desc={"fn": sp.name, "array_arg": sp.argnames[ai], "args": dict(zip(sp.argnames, r_))})
                co.note(f"array-capable: {sp.name}({sp.argnames[ai]})")
    # three-component formulae: the root returned by scipy must satisfy the modelled residual equation
    from smrt.permittivity import snow_mixing_formula as smf
    for k, nm in enumerate(THREE):
        fn = getattr(smf, nm)
        for _ in range(ctx.n(40, 800)):
            f = float(FREQS[int(rng.integers(0, len(FREQS)))])
            d = float(rng.uniform(50, 916.7)); lw = float(rng.choice([0., 1e-3, 0.01, 0.05, 0.1, 0.2, 0.3]))
            if rng.random() < 0.1:
                T, lw = float(rng.choice([FP - 1e-9, 260.])), max(lw, 1e-3)
            else:
                T = FP
            val = run(fn, (f, T, d, lw))
            if isinstance(val, str):
                if val != "ERR SMRTError":
                    co.note(f"skipped (loud refusal {val}) {nm}")
                    continue
                line, out = "three_residual 0 0 " + " ".join(f2t(a) for a in (k, f, T, d, lw, 0., 0.)), val
            else:
                z = complex(val)
                line = "three_residual 0 0 " + " ".join(f2t(a) for a in (k, f, T, d, lw, z.real, z.imag))
                out = f2t(0.0) + " " + f2t(0.0)
            # scipy.optimize.root stops at xtol = 1.5e-8 relative on the root: the residual is of that order times |eps|
            co.add("snow_mixing_formula.three_component_residual", line, out, Tol(0.0, 1e-6), desc={"fn": nm, "args": [f, T, d, lw]})
    # mixing helpers exactly as the material formulae call them
    from smrt.permittivity.generic_mixing_formula import maxwell_garnett_for_spheres, polder_van_santen
    for _ in range(ctx.n(60, 1500)):
        fv = float(rng.choice([0., 1e-6, 0.1, 0.5, 1.0])) if rng.random() < 0.5 else float(rng.uniform(0, 1))
        e0 = complex(rng.uniform(1, 90), rng.uniform(0, 40)) if rng.random() < 0.5 else complex(1, 0)
        eps = complex(rng.uniform(1, 90), 10 ** rng.uniform(-5, 1.6))
        a = (fv, e0.real, e0.imag, eps.real, eps.imag)
        for nm, fn in (("mg_spheres", lambda: maxwell_garnett_for_spheres(fv, e0, eps)), ("pvs_spheres", lambda: polder_van_santen(fv, e0, eps)),
                       ("pvs_needles", lambda: polder_van_santen(fv, e0, eps, inclusion_shape="random_needles"))):
            line, out = encode(nm, "c", a, fn())
            co.add("generic_mixing_formula." + nm, line, out, TOL)
    co.note("not modelled (needs gsw): seawwater_permittivity_boutin21_2function, seawwater_permittivity_boutin21_3function")
    return co


# ---------------------------------------------------------------------------------------------
# the property itself on the implementation (independent of the Lean model)

def _fin(z):
    z = complex(z)
    return math.isfinite(z.real) and math.isfinite(z.imag)


def adm_cases(rng, n):
    """(function name, args) inside the *documented* domain of each formula, for the admissibility claim"""
    out = []
    fgrid = [float(f) for f in FREQS[::3]] + [float(FREQS[-1])]
    def f(): return float(rng.choice(fgrid))
    def pick(xs): return float(xs[int(rng.integers(0, len(xs)))])
    for _ in range(n):
        for nm in ("ice_maetzler06", "ice_maetzler98", "ice_maetzler87", "ice_tiuri84", "ice_hufford91", "ice_DMRTML"):
            out.append((nm, (f(), pick(T_ICE))))
        out.append(("ice_HUT", (f(), min(pick(T_ICE), 273.0))))
        out.append(("ice_MEMLS", (f(), pick(T_ICE), float(rng.choice([0., 0.013, 0.1])))))
        out.append(("water_maetzler87", (f(), pick(T_WATER))))
        out.append(("water_tiuri80", (f(), pick(T_WATER))))
        s = pick(SAL)
        out.append(("seawater_klein76", (f(), pick(T_WATER), s)))
        out.append(("seawater_stogryn95", (f(), pick(T_WATER), s)))
        out.append(("seawater_stogryn71", (f(), pick(T_BRINE_CLOSED))))
        out.append(("brine_stogryn85", (f(), pick(T_BRINE_CLOSED))))
        lw = pick(LW)
        for nm in ("wetice_bohren83", "wetice_symmetric", "wetsnow_permittivity"):
            out.append((nm, (f(), FP, lw)))
            out.append((nm, (f(), pick(T_ICE), 0.0)))
        out.append(("impure_ice_maetzler06", (f(), pick(T_ICE), float(rng.choice([0., 0.013e-3, 1e-4, 1e-3])))))
        out.append(("saline_ice_pvs", (float(rng.integers(0, 2)), f(), pick(T_BRINE_CLOSED), float(rng.choice([0., 1e-6, 0.01, 0.1, 0.3, 1.0])))))
        out.append(("saline_ice_pvs_mix", (float(rng.choice([0., 0.3, 1.])), f(), pick(T_BRINE_CLOSED), float(rng.choice([0., 0.05, 0.2])))))
        d = pick(DENS); lws = float(rng.choice([0., 1e-3, 0.01, 0.05, 0.1, 0.2, 0.3]))
        for nm in ("wetsnow_tinga73", "wetsnow_wiesmann99", "wetsnow_memls"):
            out.append((nm, (f(), FP, d, lws)))
            out.append((nm, (f(), pick(T_ICE), d, 0.0)))
        mv = float(rng.choice([1., 2., 4., 8., 12.])); rd = float(rng.choice([0.09, 0.15, 0.2, 0.3, 0.38]))
        dd, ll = hall_inputs(mv, rd)
        fh = float(rng.choice([3e9, 6e9, 10e9, 19e9, 29e9, 37e9]))
        out.append(("wetsnow_hallikainen86", (fh, dd, ll)))
        out.append(("wetsnow_hallikainen86_ulaby14", (fh, dd, ll)))
        out.append(("drysnow_maetzler96", (d, 1.0, 0.0, 3.185, 0.0)))
        # saline snow: -22.9 C <= T < 0, initial brine volume < 1, Geldsetzer: 10 MHz - 40 GHz
        T = pick([t for t in T_BRINE if t - FP >= -22.9]); ssal = float(rng.choice([0., 0.1e-3, 1e-3, 5e-3, 12e-3]))
        tc = T - FP
        vb0 = ssal * (-49.185 / tc + 0.532) if tc < -0.4 else ssal * 500.9
        if vb0 < 0.9:
            fg = float(rng.choice([f_ for f_ in fgrid if f_ <= 40e9]))
            out.append(("saline_snow_geldsetzer09", (fg, float(rng.uniform(150, 500)), T, ssal)))
            out.append(("saline_snow_scharien_stogryn71", (f(), float(rng.uniform(150, 500)), T, ssal)))
            out.append(("saline_snow_scharien_stogryn95", (f(), float(rng.uniform(150, 500)), T, ssal)))
        sd = float(rng.uniform(0, 0.6)); cl = float(rng.uniform(0, min(0.6, 1 - sd)))
        out.append(("soil_dobson", (f(), pick(T_WATER), float(rng.uniform(0.02, 0.5)), sd, cl)))
        out.append(("soil_hut", (f(), pick(T_WATER), float(rng.uniform(0., 0.5)), sd, cl, float(rng.uniform(500, 2000)))))
        out.append(("soil_montpetit2008", (f(), pick(T_ICE))))
    return out


def by_name():
    return {s.name: s for s in specs()}


def check_admissible(nm, args):
    sp = by_name()[nm]
    v = run(sp.call, args)
    if isinstance(v, str):
        return Finding(f"{sp.module}.{nm}:refuses-inside-domain", f"{nm}{tuple(args)} raises {v} inside its documented domain",
                       {"check": "admissible", "fn": nm, "args": list(args)}, v, "a finite value with Re >= 1 and Im >= 0")
    z = complex(v)
    if not _fin(z):
        what = "not-finite"
    elif z.real < 1:
        what = "re<1"
    elif z.imag < 0:
        what = "im<0"
    else:
        v2 = run(sp.call, args)
        if isinstance(v2, str) or complex(v2) != z:
            return Finding(f"{sp.module}.{nm}:nondeterministic", f"{nm}{tuple(args)} two calls differ", {"check": "admissible", "fn": nm, "args": list(args)},
                           [z, v2], "equal")
        return None
    return Finding(f"{sp.module}.{nm}:{what}", f"{nm}({', '.join(f'{a}={x!r}' for a, x in zip(sp.argnames, args))}) = {z!r}",
                   {"check": "admissible", "fn": nm, "args": list(args)}, z, "finite, Re >= 1 and Im >= 0 (documented domain)")


def _close(a, b, rel):
    a, b = complex(a), complex(b)
    return abs(a.real - b.real) <= rel * max(abs(a.real), abs(b.real)) and abs(a.imag - b.imag) <= rel * max(abs(a.imag), abs(b.imag))


def check_limit(kind, args):
    """vanishing-constituent limits"""
    S = by_name()
    if kind in ("wetice_bohren83", "wetice_symmetric", "wetsnow_permittivity"):
        f, T = args
        dry = run(S["ice_maetzler06"].call, (f, T))
        got = run(S[kind].call, (f, T, 0.0))
        ok = (isinstance(dry, str) and got == dry) or (not isinstance(dry, str) and not isinstance(got, str) and complex(got) == complex(dry))
        if ok and T == FP:     # the mixing branch tends to the dry value
            got = run(S[kind].call, (f, T, 1e-12)); ok = (not isinstance(got, str)) and _close(got, dry, 1e-6)
        req = "the pure-ice value when liquid_water -> 0"
    elif kind == "impure_ice_maetzler06":
        f, T = args
        dry = run(S["ice_maetzler06"].call, (f, T)); got = run(S[kind].call, (f, T, 0.0))
        ok = (not isinstance(got, str)) and complex(got) == complex(dry); req = "the pure-ice value at salinity 0"
    elif kind == "saline_ice_pvs":
        sh, f, T = args
        dry = run(S["ice_maetzler06"].call, (f, T)); got = run(S[kind].call, (sh, f, T, 0.0))
        ok = (not isinstance(got, str)) and _close(got, dry, 1e-9); req = "the pure-ice value at brine volume 0"
    elif kind == "seawater_klein76":
        f, T = args
        got = run(S[kind].call, (f, T, 0.0)); near = run(S[kind].call, (f, T, 1e-9)); got2 = run(S[kind].call, (1.7 * f, T, 0.0))
        ok = not any(isinstance(x, str) for x in (got, near, got2)) and _close(got, near, 1e-3)
        if ok:
            # a pure Debye term eps_inf + d/(1 - i w tau) has Im/((Re - eps_inf) w) = tau at every frequency; a conductivity term breaks this
            tau1 = complex(got).imag / ((complex(got).real - 4.9) * 2 * math.pi * f)
            tau2 = complex(got2).imag / ((complex(got2).real - 4.9) * 2 * math.pi * 1.7 * f)
            ok = abs(tau1 - tau2) <= 1e-6 * abs(tau1)
        dry = near; req = "the pure-water Debye form at salinity 0 (continuous in S; Im/((Re - 4.9) w) independent of frequency, i.e. no conductivity term)"
    elif kind == "seawater_stogryn95":
        f, T = args
        got = run(S[kind].call, (f, T, 0.0)); near = run(S[kind].call, (f, T, 1e-9))
        ok = (not isinstance(got, str)) and _close(got, near, 1e-3); dry = near; req = "continuous at salinity 0"
    else:
        raise ValueError(kind)
    if ok:
        return None
    sp = S[kind]
    return Finding(f"{sp.module}.{kind}:limit", f"{kind}: vanishing-constituent limit fails at {args}", {"check": "limit", "fn": kind, "args": list(args)},
                   [got, dry], req)


def check_guard(nm, args):
    sp = by_name()[nm]
    v = run(sp.call, args)
    if v == "ERR SMRTError":
        return None
    return Finding(f"{sp.module}.{nm}:guard", f"{nm}{tuple(args)} outside its guarded temperature range returns {v!r}", {"check": "guard", "fn": nm, "args": list(args)},
                   v, "SMRTError")


def decode_model(text, line=""):
    """the value of a model output line of the scalar slices (components scaled by the powers of two given in the driver line), or None"""
    try:
        toks, lt = text.split(), line.split()
        kr, ki = int(lt[1]), int(lt[2])
        if len(toks) == 2 and all(t.startswith("f") for t in toks):
            return complex(math.ldexp(C.t2f(toks[0]), kr), math.ldexp(C.t2f(toks[1]), ki))
        if len(toks) == 1 and toks[0].startswith("f"):
            return complex(math.ldexp(C.t2f(toks[0]), kr), 0.0)
    except Exception:  # noqa
        pass
    return None


def check_reference(nm, args, model_text=None, reference=None, line=""):
    sp = by_name()[nm]
    ref = reference if reference is not None else decode_model(model_text or "", line)
    if ref is None:
        return None
    ref = complex(*ref) if isinstance(ref, (list, tuple)) else complex(ref)
    v = run(sp.call, tuple(args))
    if isinstance(v, str):
        return Finding(f"{sp.module}.{nm}:reference", f"{nm}{tuple(args)} = {v} but the audited value is {ref}",
                       {"check": "reference", "fn": nm, "args": list(args), "reference": [ref.real, ref.imag]}, v, str(ref))
    if abs(complex(v) - ref) <= 1e-6 * abs(ref):
        return None
    return Finding(f"{sp.module}.{nm}:reference", f"{nm}{tuple(args)} = {complex(v)} differs from the value pinned from the audited tree {ref}",
                   {"check": "reference", "fn": nm, "args": list(args), "reference": [ref.real, ref.imag]}, complex(v), f"{ref} within 1e-6 relative")


def check_three(nm, f, d, lw):
    from smrt.permittivity import snow_mixing_formula as smf
    v = run(getattr(smf, nm), (f, FP, d, lw))
    if isinstance(v, str):
        return None
    z = complex(v)
    if _fin(z) and z.real >= 1 and z.imag >= 0:
        return None
    return Finding(f"snow_mixing_formula.{nm}:admissible", f"{nm}({f}, {FP}, {d}, {lw}) = {z}", {"check": "three", "fn": nm, "args": [f, d, lw]},
                   z, "finite, real part >= 1, imaginary part >= 0")


SUBMODEL_FNS = ["wetsnow_permittivity_tinga73", "wetsnow_permittivity_colbeck80_caseI", "wetsnow_permittivity_colbeck80_caseII",
                "wetsnow_permittivity_colbeck80_caseIII", "wetsnow_permittivity_wiesmann99", "wetsnow_permittivity_memls",
                "wetsnow_permittivity_three_component_polder_van_santen"]


def check_history(nm, f, d, lw):
    """deterministic = a function of the arguments: the value with the default ice / water sub-models is the same before and after a call
    of the same formula with other sub-models given explicitly"""
    import inspect
    from smrt.permittivity import snow_mixing_formula as smf
    from smrt.permittivity.ice import ice_permittivity_tiuri84
    from smrt.permittivity.water import water_permittivity_tiuri80
    fn = getattr(smf, nm)
    pars = inspect.signature(getattr(fn, "__wrapped__", fn)).parameters
    kw = {}
    if "ice_permittivity_model" in pars:
        kw["ice_permittivity_model"] = ice_permittivity_tiuri84
    if "water_permittivity_model" in pars:
        kw["water_permittivity_model"] = water_permittivity_tiuri80
    v0 = run(fn, (f, FP, d, lw))
    run(lambda *a: fn(*a, **kw), (f, FP, d, lw))
    v1 = run(fn, (f, FP, d, lw))
    same = (isinstance(v0, str) and v0 == v1) or (not isinstance(v0, str) and not isinstance(v1, str) and complex(v0) == complex(v1))
    if same:
        return None
    return Finding(f"snow_mixing_formula.{nm}:history", f"{nm}({f}, {FP}, {d}, {lw}) = {v0} before and {v1} after a call of the same formula with "
                   f"{sorted(kw)} given explicitly", {"check": "history", "fn": nm, "args": [f, d, lw]}, [str(v0), str(v1)], "the same value")


def check_submodel_array(nm, f, ds, lws):
    """the ice / water sub-models given explicitly reach every element of array arguments: the value for arrays of density and liquid water
    is, element by element, the value of the scalar call with the same sub-models"""
    import inspect
    from smrt.permittivity import snow_mixing_formula as smf
    from smrt.permittivity.ice import ice_permittivity_tiuri84
    from smrt.permittivity.water import water_permittivity_tiuri80
    fn = getattr(smf, nm)
    pars = inspect.signature(getattr(fn, "__wrapped__", fn)).parameters
    kw = {}
    if "ice_permittivity_model" in pars:
        kw["ice_permittivity_model"] = ice_permittivity_tiuri84
    if "water_permittivity_model" in pars:
        kw["water_permittivity_model"] = water_permittivity_tiuri80
    if not kw:
        return None
    va = run(lambda *a: fn(*a, **kw), (f, FP, np.array(ds), np.array(lws)))
    if isinstance(va, str):
        return None          # arrays refused: loud
    va = np.asarray(va).ravel()
    for i, (d, lw) in enumerate(zip(ds, lws)):
        v = run(lambda *a: fn(*a, **kw), (f, FP, d, lw))
        if isinstance(v, str):
            continue
        if va.shape != (len(ds),) or not abs(complex(va[i]) - complex(v)) <= 1e-9 * abs(complex(v)):
            return Finding(f"snow_mixing_formula.{nm}:array-submodels", f"{nm}({f}, {FP}, density={ds}, liquid_water={lws}, {sorted(kw)} given): element {i} = "
                           f"{va[i] if va.shape == (len(ds),) else va} but the scalar call gives {v}", {"check": "submodel-array", "fn": nm, "args": [f, ds, lws]},
                           [str(va.tolist()), str(v)], "element-wise equal to the scalar calls")
    return None


def check_shape_forms(f, T, vb, w):
    """the documented equivalent ways of prescribing a mixture of brine inclusion shapes give one value: a dict {shape: ratio} in either
    insertion order, and a tuple of shapes with brine_mixing_ratio"""
    from smrt.permittivity.saline_ice import saline_ice_permittivity_pvs_mixing as fn
    vals = {"dict spheres-first": run(lambda: fn(f, T, vb, brine_inclusion_shape={"spheres": w, "random_needles": 1 - w}), ()),
            "dict needles-first": run(lambda: fn(f, T, vb, brine_inclusion_shape={"random_needles": 1 - w, "spheres": w}), ()),
            "tuple + brine_mixing_ratio": run(lambda: fn(f, T, vb, brine_inclusion_shape=("spheres", "random_needles"), brine_mixing_ratio=w), ())}
    ref = vals["tuple + brine_mixing_ratio"]
    for k, v in vals.items():
        if isinstance(v, str) or isinstance(ref, str):
            if v != ref:
                return Finding("saline_ice.saline_ice_permittivity_pvs_mixing:shape-forms", f"saline_ice_permittivity_pvs_mixing({f}, {T}, {vb}) with {w:.3f} spheres: "
                               f"{k} -> {v}, tuple form -> {ref}", {"check": "shapes", "args": [f, T, vb, w]}, [str(v), str(ref)], "equal")
        elif abs(complex(v) - complex(ref)) > 1e-9 * abs(complex(ref)):
            return Finding("saline_ice.saline_ice_permittivity_pvs_mixing:shape-forms", f"saline_ice_permittivity_pvs_mixing({f}, {T}, {vb}) with {w:.3f} spheres: "
                           f"{k} -> {complex(v)}, tuple form -> {complex(ref)}", {"check": "shapes", "args": [f, T, vb, w]}, [complex(v), complex(ref)], "equal")
    return None


def check_alt(nm1, nm2, args, rel):
    S = by_name()
    a, b = run(S[nm1].call, args), run(S[nm2].call, args)
    if isinstance(a, str) or isinstance(b, str):
        return None if a == b else Finding(f"{S[nm1].module}.{nm1}:alt", f"{nm1}{args} = {a!r} but {nm2}{args} = {b!r}",
                                           {"check": "alt", "fn": nm1, "fn2": nm2, "args": list(args), "rel": rel}, [str(a), str(b)], "both refuse or both return")
    if abs(complex(a) - complex(b)) <= rel * abs(complex(b)):
        return None
    return Finding(f"{S[nm1].module}.{nm1}:alt", f"{nm1}{args} = {a} differs from the alternative formulation {nm2} = {b}",
                   {"check": "alt", "fn": nm1, "fn2": nm2, "args": list(args), "rel": rel}, [complex(a), complex(b)], f"equal within {rel} relative")


def check_array(nm, ai, rows):
    """when the function accepts an array, the array result equals the scalar results elementwise"""
    sp = by_name()[nm]
    vals = [r[ai] for r in rows]
    scal = [run(sp.call, r) for r in rows]
    if any(isinstance(s, str) for s in scal):
        return None
    arr = np.array(vals, dtype=float)
    res = run(sp.call, tuple(arr if j == ai else b for j, b in enumerate(rows[0])))
    if isinstance(res, str):
        return None     # scalar-only: a loud refusal, reported in the evidence by the correspondence
    # the caller's array is an input, not scratch space: a profile evaluated twice gives the same values
    if not np.array_equal(arr, np.array(vals, dtype=float)):
        return Finding(f"{sp.module}.{nm}:array-argument-modified", f"{nm}: the array passed as {sp.argnames[ai]} was overwritten by the call "
                       f"({vals} -> {arr.tolist()})", {"check": "array", "fn": nm, "ai": ai, "rows": [list(r) for r in rows]}, arr.tolist(), vals)
    res = np.asarray(res)
    if res.shape == ():      # a scalar returned for an array argument (early return): equal under broadcasting
        res = np.broadcast_to(res, (len(vals),))
    # equal up to rounding: numpy's array arithmetic (complex division, pow) and Python's scalar arithmetic round differently
    if res.shape == (len(vals),) and all(abs(complex(a) - complex(b)) <= 1e-12 * abs(complex(b)) for a, b in zip(res, scal)):
        return None
    return Finding(f"{sp.module}.{nm}:array", f"{nm}: array call on {sp.argnames[ai]} differs from the scalar calls", {"check": "array", "fn": nm, "ai": ai, "rows": [list(r) for r in rows]},
                   res, scal)


def check_brine(T):
    """brine helpers on 240 K..273.15 K: conductivity >= 0, relaxation time > 0, eps_static >= eps_inf >= 1, salinity >= 0"""
    from smrt.permittivity import brine
    s, tau = brine.brine_conductivity(T), brine.brine_relaxation_time(T)
    es, ei, sb = brine.static_brine_permittivity(T), brine.permittivity_high_frequency_limit(T), brine.brine_salinity(T)
    ok = all(math.isfinite(x) for x in (s, tau, es, ei, sb)) and s >= 0 and tau > 0 and es >= ei >= 1 and sb >= 0
    if ok:
        return None
    return Finding("brine.helpers:sign", f"brine helpers at T={T}: sigma={s}, tau={tau}, eps_s={es}, eps_inf={ei}, Sb={sb}", {"check": "brine", "T": T},
                   [s, tau, es, ei, sb], "sigma >= 0, tau > 0, eps_s >= eps_inf >= 1, Sb >= 0")


def check_cox(T, s, p):
    from smrt.permittivity import brine
    v = run(lambda: brine.brine_volume_cox83_lepparanta88(T, s, porosity=p), ())
    if v == "ERR SMRTError":
        return None
    if isinstance(v, str) or not (0 <= v <= 1) or (T - FP < -38.0 and T <= brine.water_freezing_temperature(s)):
        return Finding("brine.brine_volume_cox83_lepparanta88:range", f"brine_volume_cox83_lepparanta88({T}, {s}, porosity={p}) = {v}",
                       {"check": "cox", "T": T, "s": s, "p": p}, v, "a value in [0, 1] or SMRTError; SMRTError below -38 C")
    return None


def oracle(ctx, hints, effort):
    rng = ctx.np
    S = by_name()
    found, evals = {}, 0

    def keep(f):
        if f is not None and f.key not in found:
            found[f.key] = f

    # the documented defect sites first, on a fixed sorted grid: the witness is the same for every seed
    for fq in (60e9, 70e9, 89e9, 150e9, 200e9):
        evals += 1
        keep(check_admissible("water_tiuri80", (fq, FP)))
    for nm in ("wetsnow_hallikainen86", "wetsnow_hallikainen86_ulaby14"):
        for fq in (37e9, 29e9, 19e9):
            evals += 1
            keep(check_admissible(nm, (fq,) + hall_inputs(1.0, 0.09)))
    # cases on which the correspondence disagreed come first in a search
    for h in hints[:200]:
        d = h.get("desc") or {}
        if isinstance(d, dict) and d.get("fn") in S and isinstance(d.get("args"), dict):
            evals += 1
            # only judged when it lies in the documented domain: the admissibility cases below cover the domains; here determinism
            v1, v2 = run(S[d["fn"]].call, tuple(d["args"].values())), run(S[d["fn"]].call, tuple(d["args"].values()))
            if (isinstance(v1, str) != isinstance(v2, str)) or (not isinstance(v1, str) and not np.array_equal(np.asarray(v1), np.asarray(v2))):
                keep(Finding(f"{S[d['fn']].module}.{d['fn']}:nondeterministic", "two calls differ", {"check": "admissible", "fn": d["fn"], "args": list(d["args"].values())}, [v1, v2], "equal"))
    # "agree with reference tables pinned from the audited tree": the model evaluates the audited formulae (it agreed with the audited
    # tree to 1e-9 on every run before the change), so a scalar case on which the code now differs is an entry of that table that moved
    for h in hints[:400]:
        d = h.get("desc") or {}
        if isinstance(d, dict) and d.get("fn") in S and isinstance(d.get("args"), dict) and "array_arg" not in d and h.get("slice") == S[d["fn"]].slice:
            evals += 1
            keep(check_reference(d["fn"], list(d["args"].values()), h.get("model", ""), line=h.get("line", "")))
    n = ctx.n(12, 120) * (1 if effort == "routine" else 6)
    # three-component wet snow (Colbeck I-III, three-component Polder-van Santen) up to saturated slush: admissible values, the
    # physical root of the mixing equation and not another one
    from smrt.permittivity import snow_mixing_formula as smf
    for nm in THREE:
        # every wetness of the ladder at least once per formula (dense and light snow alternately), then random draws
        for j_, lw_ in enumerate([0.05, 0.2, 0.35, 0.5, 0.65, 0.8, 0.95]):
            evals += 1
            keep(check_three(nm, float(FREQS[(j_ * 3) % len(FREQS)]), [150.0, 450.0, 750.0][j_ % 3], lw_))
        for _ in range(max(6, n // 2)):
            evals += 1
            keep(check_three(nm, float(rng.choice(FREQS)), float(rng.uniform(60, 910)), float(rng.choice([0.05, 0.2, 0.35, 0.5, 0.65, 0.8, 0.95]))))
    for _ in range(6):
        evals += 3
        keep(check_shape_forms(float(rng.choice(FREQS)), float(rng.choice(T_BRINE_CLOSED)), float(rng.choice([0.01, 0.05, 0.15])), float(rng.choice([0.1, 0.3, 0.7]))))
    for nm in SUBMODEL_FNS:
        evals += 3
        keep(check_history(nm, float(rng.choice(FREQS)), float(rng.uniform(150, 600)), float(rng.choice([0.02, 0.08, 0.2]))))
    for nm in SUBMODEL_FNS:
        evals += 4
        keep(check_submodel_array(nm, float(rng.choice([10.65e9, 18.7e9, 36.5e9])), [round(float(v), 1) for v in rng.uniform(150, 600, 3)], [0.02, 0.08, 0.2]))
    for nm, args in adm_cases(rng, n):
        evals += 1
        keep(check_admissible(nm, args))
    for _ in range(n * 2):
        f = float(rng.choice(FREQS)); evals += 6
        for kind in ("wetice_bohren83", "wetice_symmetric", "wetsnow_permittivity"):
            keep(check_limit(kind, (f, float(rng.choice([FP, FP, 260., float(rng.choice(T_ICE))])))))
        keep(check_limit("impure_ice_maetzler06", (f, float(rng.choice(T_ICE)))))
        keep(check_limit("saline_ice_pvs", (float(rng.integers(0, 2)), f, float(rng.choice(T_BRINE_CLOSED)))))
        keep(check_limit("seawater_klein76", (f, float(rng.choice(T_WATER)))))
        keep(check_limit("seawater_stogryn95", (f, float(rng.choice(T_WATER)))))
    for sp in specs():
        if sp.bad is not None:
            for args in sp.bad(rng):
                evals += 1
                keep(check_guard(sp.name, args))
        for ai in sp.arr:
            rows = None
            for _try in range(10):
                cands = [sp.gen(rng) for _ in range(4)]
                rows = [tuple(c[ai] if j == ai else b for j, b in enumerate(cands[0])) for c in cands]
                if all(not isinstance(run(sp.call, r_), str) for r_ in rows):
                    break
                rows = None
            if rows:
                evals += 1
                keep(check_array(sp.name, ai, rows))
    # wet ice below the freezing point is outside the domain of the water formula it mixes in: refused, not evaluated
    for nm in ("wetice_bohren83", "wetice_symmetric"):
        for T in (FP - 0.5, 260., 240., 200.):
            for lw in (1e-3, 0.1, 0.5):
                evals += 1
                keep(check_guard(nm, (float(rng.choice(FREQS)), T, lw)))
    # alternative formulations of the same material: the 1971 and 1985 Stogryn brines are the same Debye model with the same parameters
    for T in T_BRINE_CLOSED:
        for fq in (0.3e9, 1.4e9, 6.9e9, 19e9, 37e9, 89e9, 200e9):
            evals += 1
            keep(check_alt("seawater_stogryn71", "brine_stogryn85", (fq, T), 1e-9))
    for nm in ("wetsnow_tinga73", "wetsnow_wiesmann99", "wetsnow_memls"):
        for T in (FP - 1e-9, FP - 0.1, 260.):
            evals += 1
            keep(check_guard(nm, (float(rng.choice(FREQS)), T, 300., 0.05)))
    for T in T_BRINE_CLOSED:
        evals += 1
        keep(check_brine(T))
    for _ in range(n * 4):
        evals += 1
        T = float(rng.choice(T_BRINE_CLOSED + [FP - 38. - 1e-9, 230., 234.]))
        keep(check_cox(T, float(rng.choice(SAL)), float(rng.choice([0., 0.05]))))
    return list(found.values()), evals


def replay(inp, rp=None):
    c = inp.get("check")
    if c == "admissible":
        return check_admissible(inp["fn"], tuple(inp["args"]))
    if c == "limit":
        return check_limit(inp["fn"], tuple(inp["args"]))
    if c == "guard":
        return check_guard(inp["fn"], tuple(inp["args"]))
    if c == "array":
        return check_array(inp["fn"], inp["ai"], [tuple(r) for r in inp["rows"]])
    if c == "shapes":
        return check_shape_forms(*inp["args"])
    if c == "history":
        return check_history(inp["fn"], *inp["args"])
    if c == "submodel-array":
        return check_submodel_array(inp["fn"], *inp["args"])
    if c == "reference":
        return check_reference(inp["fn"], inp["args"], reference=inp["reference"])
    if c == "three":
        return check_three(inp["fn"], *inp["args"])
    if c == "alt":
        return check_alt(inp["fn"], inp["fn2"], tuple(inp["args"]), inp["rel"])
    if c == "brine":
        return check_brine(inp["T"])
    if c == "cox":
        return check_cox(inp["T"], inp["s"], inp["p"])
    return None
