"""C15 — mixing formulae satisfy their defining equations, limits and rigorous bounds."""
import math
import numpy as np
import common as C
from common import Corr, Tol, Finding, f2t

PROP = "C15"
DRIVER = "C15"
LEAN_TARGETS = ["SmrtVerif.Props.C15", "SmrtVerif.Driver.C15"]
TRUSTED = ["correspondence harness harness/pC15.py and driver SmrtVerif/Driver/C15.lean",
           "IEEE double arithmetic of the driver vs numpy/CPython complex arithmetic (Smith division, csqrt, libm log/atan): "
           "differences are rounding only, absorbed by the 1e-10 relative tolerance",
           "the residual closures `pvs_equation` of the three-component solvers are observed by wrapping scipy.optimize.root "
           "from the harness (the real closure is called, scipy is not modified)",
           "scipy.optimize.root (MINPACK hybr): its convergence is tested by the oracle, not proved"]
ASSUMPTIONS = ["fractional volumes in [0,1] (and a few > 1 for the assertion path), Re eps in [1,90], Im eps = 0 or in [1e-3,50], "
               "length ratios in [0.2,5] with |ratio-1| >= 1e-3 or exactly 1 (the closed form cancels catastrophically next to 1)",
               "three-component reduction is judged at 1e-6 relative (numerical root finder, xtol 1.5e-8)"]
RULE = ("seeded random permittivities/fractions/ratios from the quantifier space of the property, every inclusion shape and mixture "
        "form (dict, list+ratio, list+full ratios), scalar types float/complex/np.complex128, the error paths; "
        "distinct = distinct (slice, input line)")
TOL = Tol(1e-10)
# complex-valued outputs: numpy and the model round complex division and square root differently, so the error is
# relative to the modulus of the value, not to each component (a 1e-4 imaginary part next to a real part of 40)
TOLC = Tol(1e-10, scale="line")
SHAPE_TOK = {None: "S", "spheres": "S", "random_needles": "N", "cubes": "X"}


def gmf():
    import smrt.permittivity.generic_mixing_formula as m
    return m


# ---------------------------------------------------------------------------------------------
# generators

def gen_eps(rng, lossless=None):
    """(python value handed to smrt, complex value): real float, complex with zero loss, or lossy"""
    re = float(rng.choice([rng.uniform(1, 90), rng.uniform(1, 5), 10 ** rng.uniform(0, math.log10(90))]))
    k = int(rng.integers(0, 4)) if lossless is None else (0 if lossless else int(rng.integers(2, 4)))
    if k == 0:
        return re, complex(re, 0.0), "real"
    if k == 1:
        return complex(re, 0.0), complex(re, 0.0), "complex-lossless"
    im = float(rng.choice([rng.uniform(0, 50), 10 ** rng.uniform(-3, math.log10(50))]))
    z = complex(re, im)
    return (np.complex128(z) if k == 3 else z), z, "lossy"


def round_cases():
    """'round' inputs (simple fractions and small integers): the points where an intermediate quantity of a closed form is exactly zero"""
    out = []
    for f in (0.0, 1 / 6, 0.25, 1 / 3, 0.5, 0.6, 2 / 3, 0.75, 1.0):
        for e0 in (1.0, 2.0, 3.0, 1.5, complex(1, 0.2)):
            for eps in (1.0, 2.0, 3.0, 5.0, complex(3, 1), complex(2, 0.2)):
                out.append((f, complex(e0), complex(eps)))
    return out


def gen_f(rng):
    r = rng.random()
    if r < 0.08:
        return 0.0
    if r < 0.16:
        return 1.0
    return float(rng.uniform(0, 1))


def gen_lr(rng):
    while True:
        lr = float(rng.choice([rng.uniform(0.2, 5), 10 ** rng.uniform(math.log10(0.2), math.log10(5))]))
        if abs(lr - 1) >= 1e-3:
            return lr


def ct(z):
    z = complex(z)
    return f"{f2t(z.real)} {f2t(z.imag)}"


def out_c(fn):
    try:
        v = fn()
        v = complex(v)
        return f"{f2t(v.real)} {f2t(v.imag)}"
    except Exception as e:  # noqa
        return C.err_kind(e)


class Capture:
    """call a three-component solver while recording the residual closure and the first guess given to scipy"""

    def __call__(self, fn, *args):
        import scipy.optimize as so
        orig = so.root
        box = {}

        def spy(fun, x0, *a, **k):
            box["fun"], box["x0"] = fun, list(x0)
            return orig(fun, x0, *a, **k)
        so.root = spy
        try:
            box["value"] = fn(*args)
        finally:
            so.root = orig
        return box


capture = Capture()


# ---------------------------------------------------------------------------------------------
# correspondence

def correspond(ctx):
    m = gmf()
    from smrt.emmodel.sce_common import permittivity_hashin_shtrikman
    rng = ctx.np
    co = Corr(PROP, DRIVER)

    # depolarisation factors
    for i in range(ctx.n(60, 600)):
        lr = [1.0, None, 0.2, 5.0][i] if i < 4 else gen_lr(rng)
        v = m.depolarization_factors(lr)
        co.add("depol", f"depol {f2t(1.0 if lr is None else lr)}", C.fs(v), TOL, desc={"length_ratio": lr})
        co.note("depol " + ("ratio=1" if lr in (1.0, None) else "oblate(<1)" if lr < 1 else "prolate(>1)"))

    # Polder-van Santen, single shape
    for i in range(ctx.n(160, 1600)):
        f = gen_f(rng)
        (a, az, ka), (b, bz, kb) = gen_eps(rng), gen_eps(rng)
        shape = [None, "spheres", "random_needles"][int(rng.integers(0, 3))]
        fn = m.polder_van_santen if i % 5 else m.bruggeman
        kw = {} if shape is None else {"inclusion_shape": shape}
        co.add("pvs." + ("needles" if shape == "random_needles" else "spheres"),
               f"pvs {SHAPE_TOK[shape]} 0 {f2t(f)} {ct(az)} {ct(bz)}", out_c(lambda: fn(f, a, b, **kw)), TOLC,
               desc={"f": f, "e0": az, "eps": bz, "shape": shape})
        co.note(f"pvs {shape} e0:{ka} eps:{kb}" + (" f=0" if f == 0 else " f=1" if f == 1 else ""))
    rc = round_cases()
    for i in range(ctx.n(60, len(rc))):
        f, az, bz = rc[(i * 7) % len(rc)]
        shape = ["spheres", "random_needles"][i % 2]
        co.add("pvs." + ("needles" if shape == "random_needles" else "spheres") + ".round",
               f"pvs {SHAPE_TOK[shape]} 0 {f2t(f)} {ct(az)} {ct(bz)}", out_c(lambda: m.polder_van_santen(f, az, bz, inclusion_shape=shape)), TOLC,
               desc={"f": f, "e0": az, "eps": bz, "shape": shape})
        co.note(f"pvs {shape} round inputs")
    # error paths
    for i in range(ctx.n(24, 120)):
        f = gen_f(rng)
        (a, az, _), (b, bz, _) = gen_eps(rng), gen_eps(rng)
        kind = i % 4
        if kind == 0:      # f > 1
            f = float(rng.uniform(1.0000001, 3)); kw = {}; line = f"pvs S 0 {f2t(f)} {ct(az)} {ct(bz)}"
        elif kind == 1:    # unknown shape
            kw = {"inclusion_shape": "cubes"}; line = f"pvs X 0 {f2t(f)} {ct(az)} {ct(bz)}"
        elif kind == 2:    # length_ratio given
            kw = {"length_ratio": gen_lr(rng)}; line = f"pvs S 1 {f2t(f)} {ct(az)} {ct(bz)}"
        else:              # depol_xyz given, needles
            kw = {"depol_xyz": np.array([0.3, 0.3, 0.4]), "inclusion_shape": "random_needles"}; line = f"pvs N 1 {f2t(f)} {ct(az)} {ct(bz)}"
        o = out_c(lambda: m.polder_van_santen(f, a, b, **kw))
        co.add("pvs.errors", line, o, TOL, desc={"f": f, "kw": {k: str(v) for k, v in kw.items()}}, nontrivial=False)
        co.note("pvs error path -> " + o[:30] if o.startswith("ERR") else "pvs error path -> value")

    # mixtures
    for i in range(ctx.n(80, 800)):
        f = gen_f(rng)
        (a, az, _), (b, bz, _) = gen_eps(rng), gen_eps(rng)
        form = i % 4
        if form == 0:      # dict
            w = float(rng.uniform(0, 1))
            d = {"spheres": w, "random_needles": 1 - w} if i % 8 else {"random_needles": w, "spheres": 1 - w}
            if i % 16 == 4:
                d = {"spheres": w, "cubes": 1 - w}
            line = f"pvsmix 0 {len(d)} " + " ".join(f"{SHAPE_TOK[k]} {f2t(v)}" for k, v in d.items()) + f" {f2t(f)} {ct(az)} {ct(bz)}"
            o = out_c(lambda: m.polder_van_santen(f, a, b, inclusion_shape=d))
            co.add("pvs.mixture.dict", line, o, TOLC, desc={"f": f, "e0": az, "eps": bz, "dict": d})
        else:
            shapes = [["spheres", "random_needles"], ["random_needles", "spheres"], ["spheres", "random_needles", "spheres"]][int(rng.integers(0, 3))]
            if form == 1:      # one ratio less: last deduced; scalar or list
                rs = [float(x) for x in rng.dirichlet(np.ones(len(shapes)))[:-1]]
                mr = rs[0] if (len(rs) == 1 and i % 2) else rs
            elif form == 2:    # as many ratios as shapes
                rs = [float(x) for x in rng.dirichlet(np.ones(len(shapes)))]
                mr = tuple(rs)
            else:              # incompatible lengths
                rs = [float(x) for x in rng.uniform(0, 0.3, len(shapes) + 1 + int(rng.integers(0, 2)))]
                if i % 8 == 3 and len(shapes) == 3:
                    rs = rs[:1]
                mr = rs
            line = (f"pvslist 0 {len(shapes)} " + " ".join(SHAPE_TOK[s] for s in shapes) + f" {len(rs)} " + " ".join(f2t(r) for r in rs)
                    + f" {f2t(f)} {ct(az)} {ct(bz)}")
            o = out_c(lambda: m.polder_van_santen(f, a, b, inclusion_shape=tuple(shapes) if i % 2 else list(shapes), mixing_ratio=mr))
            co.add("pvs.mixture.list", line, o, TOLC, desc={"f": f, "e0": az, "eps": bz, "shapes": shapes, "mixing_ratio": rs},
                   nontrivial=not o.startswith("ERR"))
        co.note("mixture form %d -> %s" % (form, "error" if o.startswith("ERR") else "value"))

    # Maxwell Garnett
    for i in range(ctx.n(120, 1200)):
        f = gen_f(rng)
        (a, az, ka), (b, bz, kb) = gen_eps(rng), gen_eps(rng)
        k = i % 6
        if k == 0:
            o = out_c(lambda: m.maxwell_garnett_for_spheres(f, a, b))
            co.add("mg.spheres", f"mgs {f2t(f)} {ct(az)} {ct(bz)}", o, TOLC, desc={"f": f, "e0": az, "eps": bz})
        elif k == 1:
            o = out_c(lambda: permittivity_hashin_shtrikman(f, a, b))
            co.add("hashin_shtrikman", f"hs {f2t(f)} {ct(az)} {ct(bz)}", o, TOLC, desc={"f": f, "e0": az, "eps": bz})
        elif k == 2:
            A = rng.dirichlet(np.ones(3)) if i % 12 else np.array([1 / 3, 1 / 3, 1 / 3])
            o = out_c(lambda: m.maxwell_garnett(f, a, b, depol_xyz=np.array(A)))
            co.add("mg.depol", f"mg 1 {f2t(f)} {ct(az)} {ct(bz)} {C.fs(A)}", o, TOLC, desc={"f": f, "e0": az, "eps": bz, "depol": list(A)})
        elif k == 3:
            lr = gen_lr(rng)
            o = out_c(lambda: m.maxwell_garnett(f, a, b, length_ratio=lr, inclusion_shape="spheres" if i % 2 else None))
            co.add("mg.length_ratio", f"mglr 1 {f2t(f)} {ct(az)} {ct(bz)} {f2t(lr)}", o, TOLC, desc={"f": f, "e0": az, "eps": bz, "lr": lr})
        elif k == 4:
            o = out_c(lambda: m.maxwell_garnett(f, a, b))
            co.add("mg.default", f"mglr 1 {f2t(f)} {ct(az)} {ct(bz)} {f2t(1.0)}", o, TOLC, desc={"f": f, "e0": az, "eps": bz})
        else:
            if i % 12 == 5:
                f = float(rng.uniform(1.0000001, 2))
                o = out_c(lambda: m.maxwell_garnett(f, a, b))
                line = f"mglr 1 {f2t(f)} {ct(az)} {ct(bz)} {f2t(1.0)}"
            else:
                o = out_c(lambda: m.maxwell_garnett(f, a, b, inclusion_shape="random_needles"))
                line = f"mglr 0 {f2t(f)} {ct(az)} {ct(bz)} {f2t(1.0)}"
            co.add("mg.errors", line, o, TOL, desc={"f": f}, nontrivial=False)
        co.note(f"mg kind {k} e0:{ka} eps:{kb}")

    # three components: the residual closures (evaluated at the first guess, at the returned root and at random points)
    A_iso, A_ndl = [1 / 3, 1 / 3, 1 / 3], [0.5, 0.5, 0.0]
    for i in range(ctx.n(40, 300)):
        (e0, e0z, _), (e1, e1z, _), (e2, e2z, _) = gen_eps(rng), gen_eps(rng), gen_eps(rng)
        f1, f2 = [float(x) for x in rng.dirichlet(np.ones(3))[:2]]
        if i % 5 == 0:
            f2 = 0.0
        if i % 5 == 1:
            f1 = 0.0
        head = f"{f2t(f1)} {f2t(f2)} {ct(e0z)} {ct(e1z)} {ct(e2z)}"
        desc = {"f1": f1, "f2": f2, "eps0": e0z, "eps1": e1z, "eps2": e2z}
        if i % 2 == 0:
            box = capture(m.polder_van_santen_three_spherical_components, f1, f2, e0, e1, e2)
            pts = [complex(*box["x0"]), complex(box["value"]), complex(rng.uniform(1, 90), rng.uniform(0, 50))]
            for x in pts:
                r = box["fun"]([x.real, x.imag])
                co.add("three.residual.spherical", f"r3s {head} {ct(x)}", ct(complex(r[0], r[1])), TOL, desc=dict(desc, x=x))
        else:
            A1 = [A_iso, A_ndl, [float(v) for v in rng.dirichlet(np.ones(3))]][int(rng.integers(0, 3))]
            A2 = [A_iso, A_ndl, [float(v) for v in rng.dirichlet(np.ones(3))]][int(rng.integers(0, 3))]
            box = capture(m.polder_van_santen_three_components, f1, f2, e0, e1, e2, A1, A2)
            pts = [complex(*box["x0"]), complex(rng.uniform(1, 90), rng.uniform(0, 50)), complex(rng.uniform(1, 90), rng.uniform(0, 50))]
            for x in pts:
                r = box["fun"]([x.real, x.imag])
                co.add("three.residual.general", f"r3g {head} {ct(x)} {len(A1)} {C.fs(A1)} {C.fs(A2)}", ct(complex(r[0], r[1])), TOL,
                       desc=dict(desc, x=x, A1=A1, A2=A2))
        co.note("three-component case" + (" f2=0" if f2 == 0 else " f1=0" if f1 == 0 else ""))
    return co


# ---------------------------------------------------------------------------------------------
# the property itself on the implementation

RT = 1e-9        # relative tolerance of the algebraic identities (double rounding, amplified by the conditioning of the root)
RT3 = 1e-6       # three-component solvers (numerical root finding)


def rel(a, b):
    return abs(a - b) / max(abs(a), abs(b), 1e-300)


def check_pvs(f, e0, eps, shape):
    """defining equation, symmetry, limits; returns [(key, what, observed, required)]"""
    m = gmf()
    out = []
    kw = {"inclusion_shape": shape}
    x = complex(m.polder_van_santen(f, e0, eps, **kw))
    if shape == "spheres":
        terms = [2 * x * x, (eps - 2 * e0 - 3 * f * (eps - e0)) * x, -eps * e0]
        brug = (1 - f) * (e0 - x) / (e0 + 2 * x) + f * (eps - x) / (eps + 2 * x)
        if abs(brug) > 1e-9:
            out.append(("pvs:bruggeman-equation", f"Bruggeman residual {abs(brug):.3e} at f={f}, e0={e0}, eps={eps}", abs(brug), "<= 1e-9"))
        y = complex(m.polder_van_santen(1 - f, eps, e0, **kw))
        if rel(x, y) > RT:
            out.append(("pvs:symmetry", f"PvS(f,e0,eps)={x} but PvS(1-f,eps,e0)={y}", rel(x, y), f"<= {RT}"))
    else:
        terms = [x * x, (eps - e0 - 5. / 3. * f * (eps - e0)) * x, -eps * (e0 + f / 3. * (eps - e0))]
        mix = e0 + f / 3. * (eps - e0) * (4 * x / (x + eps) + 1) - x          # PvS mixing rule with depolarisation (1/2,1/2,0)
        if abs(mix) > 1e-9 * max(1, abs(x)):
            out.append(("pvs:needles-equation", f"needles mixing-rule residual {abs(mix):.3e} at f={f}, e0={e0}, eps={eps}", abs(mix), "<= 1e-9 |x|"))
    r = abs(sum(terms)) / max(abs(t) for t in terms)
    if r > RT:
        out.append((f"pvs:quadratic:{shape}", f"quadratic residual {r:.3e} at f={f}, e0={e0}, eps={eps}", r, f"<= {RT}"))
    x0, x1 = complex(m.polder_van_santen(0., e0, eps, **kw)), complex(m.polder_van_santen(1., e0, eps, **kw))
    if rel(x0, e0) > RT:
        out.append((f"pvs:limit-f0:{shape}", f"PvS(0,{e0},{eps})={x0}", x0, e0))
    if rel(x1, eps) > RT:
        out.append((f"pvs:limit-f1:{shape}", f"PvS(1,{e0},{eps})={x1}", x1, eps))
    return out


ISO = np.array([1 / 3, 1 / 3, 1 / 3])        # the caller's array of depolarisation factors, reused for every call of a sweep


def check_mg(f, e0, eps):
    m = gmf()
    from smrt.emmodel.sce_common import permittivity_hashin_shtrikman
    out = []
    a = complex(m.maxwell_garnett_for_spheres(f, e0, eps))
    for name, fn_ in [("general-default", lambda: m.maxwell_garnett(f, e0, eps)),
                      ("general-depol-1/3", lambda: m.maxwell_garnett(f, e0, eps, depol_xyz=ISO)),
                      ("hashin-shtrikman", lambda: permittivity_hashin_shtrikman(f, e0, eps))]:
        try:
            v = fn_()
        except Exception as e:  # noqa   (an exception on admissible inputs is a finding, not a crash of the oracle)
            key = ("homogeneous:" + name) if complex(e0) == complex(eps) else ("mg:raises:" + name)
            out.append((key, f"{name}({f}, {e0}, {eps}) raises {type(e).__name__}: {e}", type(e).__name__, a))
            continue
        if rel(a, complex(v)) > RT:
            out.append(("mg:spheres-vs-" + name, f"maxwell_garnett_for_spheres={a} but {name}={complex(v)} at f={f}, e0={e0}, eps={eps}", complex(v), a))
    if not np.array_equal(ISO, np.array([1 / 3, 1 / 3, 1 / 3])):
        out.append(("mg:depol-argument-modified", f"maxwell_garnett({f}, {e0}, {eps}, depol_xyz=A) changed the caller's array A to {ISO.tolist()}",
                    ISO.tolist(), [1 / 3] * 3))
        ISO[:] = 1 / 3
    for ff, want in [(0., e0), (1., eps)]:
        v = complex(m.maxwell_garnett(ff, e0, eps))
        if rel(v, want) > RT:
            out.append(("mg:limit", f"maxwell_garnett({ff},{e0},{eps})={v}", v, want))
    # the homogeneous medium (both phases alike) is a medium too: every formula returns that permittivity, as Python and as numpy numbers
    for z in (complex(e0), np.complex128(e0)):
        for name, fn in [("maxwell_garnett_for_spheres", lambda: m.maxwell_garnett_for_spheres(f, z, z)), ("maxwell_garnett", lambda: m.maxwell_garnett(f, z, z)),
                         ("hashin-shtrikman", lambda: permittivity_hashin_shtrikman(f, z, z)), ("polder_van_santen", lambda: m.polder_van_santen(f, z, z))]:
            try:
                v = complex(fn())
            except Exception as e:  # noqa
                out.append(("homogeneous:" + name, f"{name}({f}, {z!r}, {z!r}) raises {type(e).__name__}: {e}", type(e).__name__, complex(e0)))
                continue
            if not (np.isfinite(v.real) and np.isfinite(v.imag)) or rel(v, complex(e0)) > RT:
                out.append(("homogeneous:" + name, f"{name}({f}, {z!r}, {z!r}) = {v}", v, complex(e0)))
    # `bruggeman` is the documented synonym of polder_van_santen, for every way of giving the inclusion shapes
    if hasattr(m, "bruggeman"):
        for kw in ({}, {"inclusion_shape": "random_needles"}, {"inclusion_shape": ("spheres", "random_needles"), "mixing_ratio": 0.3},
                   {"inclusion_shape": {"spheres": 0.3, "random_needles": 0.7}}):
            a1, b1 = complex(m.bruggeman(f, e0, eps, **kw)), complex(m.polder_van_santen(f, e0, eps, **kw))
            if rel(a1, b1) > RT:
                out.append(("pvs:bruggeman-synonym", f"bruggeman({f}, {e0}, {eps}, {kw}) = {a1} but polder_van_santen gives {b1}", a1, b1))
    return out


def check_lossless(f, g, e0, eps, lr, A, w):
    """bounds, monotonicity, mixture convexity for real positive permittivities; f <= g"""
    m = gmf()
    out = []
    lo_w, hi_w = 1 / ((1 - f) / e0 + f / eps), (1 - f) * e0 + f * eps
    hs = sorted([float(m.maxwell_garnett_for_spheres(f, e0, eps)), float(m.maxwell_garnett_for_spheres(1 - f, eps, e0))])
    slack = 1e-12
    vals = {"mg(depol)": (m.maxwell_garnett(f, e0, eps, depol_xyz=np.array(A)), m.maxwell_garnett(g, e0, eps, depol_xyz=np.array(A)), lo_w, hi_w),
            "mg(length_ratio)": (m.maxwell_garnett(f, e0, eps, length_ratio=lr), m.maxwell_garnett(g, e0, eps, length_ratio=lr), lo_w, hi_w),
            "mg_spheres": (m.maxwell_garnett_for_spheres(f, e0, eps), m.maxwell_garnett_for_spheres(g, e0, eps), hs[0], hs[1]),
            "pvs(spheres)": (m.polder_van_santen(f, e0, eps), m.polder_van_santen(g, e0, eps), hs[0], hs[1]),
            "pvs(needles)": (m.polder_van_santen(f, e0, eps, inclusion_shape="random_needles"),
                             m.polder_van_santen(g, e0, eps, inclusion_shape="random_needles"), hs[0], hs[1])}
    for name, (vf, vg, lo, hi) in vals.items():
        vf, vg = complex(vf), complex(vg)
        if vf.imag != 0:
            out.append(("lossless:imag:" + name, f"{name} has Im={vf.imag} for real constituents", vf.imag, 0))
        if not (lo * (1 - slack) - 1e-300 <= vf.real <= hi * (1 + slack)):
            out.append(("lossless:bounds:" + name, f"{name}={vf.real} outside [{lo},{hi}] at f={f}, e0={e0}, eps={eps}, lr={lr}, A={list(A)}", vf.real, [lo, hi]))
        d = (vg.real - vf.real) * (1 if eps >= e0 else -1)
        if d < -1e-12 * max(abs(vf.real), abs(vg.real)):
            out.append(("lossless:monotone:" + name, f"{name}: f={f}->{vf.real}, f={g}->{vg.real} with e0={e0}, eps={eps}", d, ">= 0"))
    q = m.depolarization_factors(lr)
    if abs(sum(q) - 1) > 1e-12 or min(q) < 0 or max(q) > 1:
        out.append(("depol:range", f"depolarization_factors({lr})={list(q)}", list(q), "in [0,1], sum 1"))
    # mixtures
    s, n = complex(m.polder_van_santen(f, e0, eps)), complex(m.polder_van_santen(f, e0, eps, inclusion_shape="random_needles"))
    want = w * s + (1 - w) * n
    for name, v in [("dict", m.polder_van_santen(f, e0, eps, inclusion_shape={"spheres": w, "random_needles": 1 - w})),
                    ("list+ratio", m.polder_van_santen(f, e0, eps, inclusion_shape=("spheres", "random_needles"), mixing_ratio=w)),
                    ("list+ratios", m.polder_van_santen(f, e0, eps, inclusion_shape=["spheres", "random_needles"], mixing_ratio=[w, 1 - w]))]:
        v = complex(v)
        if rel(v, want) > 1e-12 or not (min(s.real, n.real) * (1 - 1e-12) <= v.real <= max(s.real, n.real) * (1 + 1e-12)):
            out.append(("mixture:" + name, f"mixture({name}, w={w})={v}, components {s}, {n}", v, want))
    # the same mixture carried by a layer (shapes and ratio as layer attributes, the fractional volume being the layer's)
    lay = _mix_layer(w)
    fl = float(lay.frac_volume)
    sl, nl = complex(m.polder_van_santen(fl, e0, eps)), complex(m.polder_van_santen(fl, e0, eps, inclusion_shape="random_needles"))
    v = complex(m.polder_van_santen(e0=e0, eps=eps, layer_to_inject=lay))
    if rel(v, w * sl + (1 - w) * nl) > 1e-12:
        out.append(("mixture:layer", f"mixture carried by a layer (shapes ('spheres', 'random_needles'), mixing_ratio={w}, f={fl})={v}, components {sl}, {nl}",
                    v, w * sl + (1 - w) * nl))
    return out


def _mix_layer(w):
    """a snow layer carrying the mixture (a tuple of shapes and the ratio of the first one) as attributes"""
    from smrt.inputs.make_medium import make_snow_layer
    return make_snow_layer(1.0, "homogeneous", density=300.0, temperature=260.0, inclusion_shape=("spheres", "random_needles"), mixing_ratio=w)


def check_depol_one():
    m = gmf()
    out = []
    for arg in (1.0, None, 1):
        q = m.depolarization_factors(arg)
        if not all(abs(v - 1 / 3) < 1e-15 for v in q):
            out.append(("depol:ratio1", f"depolarization_factors({arg})={list(q)}", list(q), [1 / 3] * 3))
    return out


THREE_WITNESSES = [  # found by the search on the unchanged tree; kept so that every seed reports them
    {"solver": "general", "f": 0.84, "which": 1, "eps0": [80.0, 0.0], "eps1": [1.3, 0.0], "eps2": [3.0, 0.0], "A": "iso"},
    {"solver": "general", "f": 0.84, "which": 1, "eps0": [80.0, 0.0], "eps1": [1.3, 0.0], "eps2": [3.0, 0.0], "A": "needles"},
]


def check_three(inp):
    """one fraction vanishes -> the two-component Polder-van Santen value"""
    m = gmf()
    cz = lambda p: complex(p[0], p[1]) if p[1] != 0 else float(p[0])
    e0, e1, e2, f = cz(inp["eps0"]), cz(inp["eps1"]), cz(inp["eps2"]), inp["f"]
    A = {"iso": [1 / 3] * 3, "needles": [0.5, 0.5, 0.0]}[inp.get("A", "iso")]
    other = [0.2, 0.3, 0.5]
    shape = "spheres" if inp.get("A", "iso") == "iso" else "random_needles"
    if inp["solver"] == "spherical":
        if inp["which"] == 1:
            got, ref = m.polder_van_santen_three_spherical_components(f, 0., e0, e1, e2), m.polder_van_santen(f, e0, e1)
        else:
            got, ref = m.polder_van_santen_three_spherical_components(0., f, e0, e1, e2), m.polder_van_santen(f, e0, e2)
        key = "three_spherical_components:reduce"
    else:
        if inp["which"] == 1:
            got, ref = m.polder_van_santen_three_components(f, 0., e0, e1, e2, A, other), m.polder_van_santen(f, e0, e1, inclusion_shape=shape)
        else:
            got, ref = m.polder_van_santen_three_components(0., f, e0, e1, e2, other, A), m.polder_van_santen(f, e0, e2, inclusion_shape=shape)
        key = "three_components:wrong-root"
    got, ref = complex(got), complex(ref)
    if rel(got, ref) > RT3:
        return (key, f"{inp['solver']} three-component solver with f{3 - inp['which']}=0, f{inp['which']}={f}, eps0={e0}, eps1={e1}, eps2={e2}, "
                     f"A={inp.get('A', 'iso')} returns {got}; two-component polder_van_santen gives {ref}", got, ref)
    return None


def check_mixture_array(inp):
    """a mixture of shapes for an array of fractional volumes (a profile): every element is what the scalar call gives"""
    m = gmf()
    cz = lambda p: complex(p[0], p[1]) if p[1] != 0 else float(p[0])
    e0, eps = cz(inp["e0"]), cz(inp["eps"])
    fs_ = np.array(inp["fs"], dtype=float)
    forms = [dict(inclusion_shape={"spheres": inp["w"], "random_needles": 1 - inp["w"]}),
             dict(inclusion_shape=("spheres", "random_needles"), mixing_ratio=inp["w"])]
    for kw in forms:
        try:
            got = np.asarray(m.polder_van_santen(fs_.copy(), e0=e0, eps=eps, **kw), dtype=complex)
        except Exception:  # noqa   (arrays not accepted: a loud refusal)
            continue
        ref = np.array([complex(m.polder_van_santen(float(f), e0=e0, eps=eps, **kw)) for f in fs_])
        if got.shape != ref.shape or max(rel(complex(a), complex(b)) for a, b in zip(got, ref)) > 1e-9:
            return ("mixture:array", f"polder_van_santen({inp['fs']}, e0={e0}, eps={eps}, {kw}) = {got.tolist() if got.ndim else complex(got)} but the scalar calls give "
                    f"{ref.tolist()}", str(got.tolist() if got.ndim else complex(got)), str(ref.tolist()))
    return None


def check_three_array(inp):
    """the three-component solvers on an array of fractions (a layered profile, in any order): every element is what the scalar call gives"""
    m = gmf()
    cz = lambda p: complex(p[0], p[1]) if p[1] != 0 else float(p[0])
    e0, e1, e2 = cz(inp["eps0"]), cz(inp["eps1"]), cz(inp["eps2"])
    fs_ = np.array(inp["fs"], dtype=float)
    z = np.zeros_like(fs_)
    A, other = [1 / 3] * 3, [0.2, 0.3, 0.5]
    if inp["solver"] == "spherical":
        call = lambda f1, f2: m.polder_van_santen_three_spherical_components(f1, f2, e0, e1, e2)
    else:
        call = lambda f1, f2: m.polder_van_santen_three_components(f1, f2, e0, e1, e2, A, other)
    f2s = z
    if inp.get("broadcast"):
        # one component the same in every layer (a number), the other an array: a brine fraction through a profile of porosities
        f2s = np.full_like(fs_, 0.03)
    try:
        got = np.asarray(call(fs_.copy(), 0.03 if inp.get("broadcast") else z.copy()), dtype=complex).ravel()
    except Exception:  # noqa   (arrays not accepted: a loud refusal)
        return None
    ref = np.array([complex(call(float(f), float(g_))) for f, g_ in zip(fs_, f2s)])
    if inp.get("broadcast"):
        try:
            got2 = np.asarray(call(0.03, fs_.copy()), dtype=complex).ravel()
        except Exception:  # noqa
            got2 = None
        ref2 = np.array([complex(call(0.03, float(f))) for f in fs_])
        if got2 is not None and (got2.shape != ref2.shape or max(rel(complex(a), complex(b)) for a, b in zip(got2, ref2)) > RT3):
            return ("three_components:array", f"{inp['solver']} three-component solver with f1 = 0.03 and f2 = {inp['fs']}: {got2.tolist()} but the scalar calls give "
                    f"{ref2.tolist()}", str(got2.tolist()), str(ref2.tolist()))
    if got.shape != ref.shape or max(rel(complex(a), complex(b)) for a, b in zip(got, ref)) > RT3:
        k = int(np.argmax([rel(complex(a), complex(b)) for a, b in zip(got, ref)])) if got.shape == ref.shape else 0
        return ("three_components:array", f"{inp['solver']} three-component solver on the fractions {inp['fs']} (f2 = {0.03 if inp.get('broadcast') else 0}, eps0={e0}, eps1={e1}): element {k} is "
                f"{got[k] if got.shape == ref.shape else got.shape} but the scalar call gives {ref[k]}", str(got.tolist()), str(ref.tolist()))
    return None


def oracle(ctx, hints, effort):
    rng = ctx.np
    findings, evals = {}, 0

    def record(items, inp):
        for key, what, obs, req in items:
            if key not in findings:
                findings[key] = Finding(key, what, inp, obs, req)

    n = 150 if effort == "routine" else 3000
    record(check_depol_one(), {"kind": "depol1"}); evals += 1
    cases = []
    for h in hints[:40]:
        d = h.get("desc") or {}
        if "e0" in d and "eps" in d and "f" in d and 0 <= d["f"] <= 1:
            cases.append((d["f"], complex(d["e0"]), complex(d["eps"])))
    for _ in range(n):
        cases.append((gen_f(rng), gen_eps(rng)[1], gen_eps(rng)[1]))
    cases += round_cases()
    for f, e0, eps in cases:
        for shape in ("spheres", "random_needles"):
            inp = {"kind": "pvs", "f": f, "e0": [e0.real, e0.imag], "eps": [eps.real, eps.imag], "shape": shape}
            record(check_pvs(f, e0, eps, shape), inp); evals += 1
        record(check_mg(f, e0, eps), {"kind": "mg", "f": f, "e0": [e0.real, e0.imag], "eps": [eps.real, eps.imag]}); evals += 1
    for _ in range(n):
        f, g = sorted([gen_f(rng), gen_f(rng)])
        e0, eps = float(rng.uniform(1, 90)), float(rng.uniform(1, 90))
        lr, A, w = gen_lr(rng), [float(v) for v in rng.dirichlet(np.ones(3))], float(rng.uniform(0, 1))
        if _ < 4:
            w = [0.0, 1.0, 0.0, 1.0][_]           # the end points of the mixing ratio: all of the last / of the first shape
        inp = {"kind": "lossless", "f": f, "g": g, "e0": e0, "eps": eps, "lr": lr, "A": A, "w": w}
        record(check_lossless(f, g, e0, eps, lr, A, w), inp); evals += 1
    # three components
    three = list(THREE_WITNESSES)
    for _ in range(n):
        f = float(rng.uniform(0.01, 1))
        p = lambda: (lambda z: [z.real, z.imag])(gen_eps(rng)[1])
        three.append({"solver": ["spherical", "general"][int(rng.integers(0, 2))], "f": f, "which": int(rng.integers(1, 3)),
                      "eps0": p(), "eps1": p(), "eps2": p(), "A": ["iso", "needles"][int(rng.integers(0, 2))]})
    for solver in ("spherical", "general"):
        for media in (([3.17, 0.002], [60.0, 35.0]), ([1.0, 0.0], [3.18, 0.001]), ([2.0, 0.0], [80.0, 5.0])):
            inp = {"kind": "three-array", "solver": solver, "eps0": media[0], "eps1": media[1], "eps2": [5.0, 1.0], "fs": [0.05, 0.9, 0.1, 0.7, 0.3, 0.95, 0.02]}
            evals += 1
            r = check_three_array(inp)
            if r is not None and r[0] not in findings:
                findings[r[0]] = Finding(r[0], r[1], inp, r[2], r[3])
            inp = dict(inp, broadcast=True, fs=[0.05, 0.6, 0.1, 0.3])
            evals += 1
            r = check_three_array(inp)
            if r is not None and r[0] not in findings:
                findings[r[0]] = Finding(r[0], r[1], inp, r[2], r[3])
    for media in (([1.0, 0.0], [3.18, 0.001]), ([3.17, 0.002], [60.0, 35.0])):
        inp = {"kind": "mixture-array", "e0": media[0], "eps": media[1], "w": round(float(rng.uniform(0.2, 0.8)), 2), "fs": [0.05, 0.4, 0.2, 0.7]}
        evals += 1
        r = check_mixture_array(inp)
        if r is not None and r[0] not in findings:
            findings[r[0]] = Finding(r[0], r[1], inp, r[2], r[3])
    for inp in three:
        evals += 1
        r = check_three(inp)
        if r is not None:
            inp = dict(inp, kind="three")
            # prefer the simplest failing input: loss-free, isotropic
            score = lambda i: (i["eps0"][1] != 0 or i["eps1"][1] != 0, i.get("A") != "iso")
            if r[0] not in findings or score(inp) < score(findings[r[0]].inp):
                findings[r[0]] = Finding(r[0], r[1], inp, r[2], r[3])
    return list(findings.values()), evals


def replay(inp, rp=None):
    k = inp["kind"]
    cz = lambda p: complex(p[0], p[1])
    if k == "three":
        r = check_three(inp)
        return Finding(r[0], r[1], inp, r[2], r[3]) if r else None
    if k == "mixture-array":
        r = check_mixture_array(inp)
        return Finding(r[0], r[1], inp, r[2], r[3]) if r else None
    if k == "three-array":
        r = check_three_array(inp)
        return Finding(r[0], r[1], inp, r[2], r[3]) if r else None
    if k == "pvs":
        items = check_pvs(inp["f"], cz(inp["e0"]), cz(inp["eps"]), inp["shape"])
    elif k == "mg":
        items = check_mg(inp["f"], cz(inp["e0"]), cz(inp["eps"]))
    elif k == "lossless":
        items = check_lossless(inp["f"], inp["g"], inp["e0"], inp["eps"], inp["lr"], inp["A"], inp["w"])
    else:
        items = check_depol_one()
    if items:
        key, what, obs, req = items[0]
        return Finding(key, what, inp, obs, req)
    return None
