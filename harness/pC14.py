"""C14 — a formula evaluated through a layer equals the call with that layer's attributes.

Table generator (`generate_tables`), correspondence harness and property oracle.
The Lean model is `lean/SmrtVerif/Model/Inject.lean`; the regenerated table `lean/SmrtVerif/Gen/C14Decls.lean`.
"""
import ast, copy, importlib, inspect, itertools, json, re, sys
import numpy as np
import common as C
from common import Corr, Tol, Finding, f2t, t2f

PROP = "C14"
DRIVER = "C14"
LEAN_TARGETS = ["SmrtVerif.Props.C14", "SmrtVerif.Driver.C14"]
TRUSTED = ["table generator generate_tables() of harness/pC14.py (Python ast of smrt/permittivity/*.py, closure cells and "
           "signatures of the imported functions, attributes of layers built by the make_medium constructors)",
           "correspondence harness harness/pC14.py and driver SmrtVerif/Driver/C14.lean",
           "a layer is abstracted to the finite map {name: getattr(layer, name) | hasattr(layer, name)} over the names that occur "
           "in the table; attribute values are opaque tokens (the formulae themselves are C13/C15)",
           "Python's argument binding as reported by inspect.signature(f).bind (compared with the model's `bind`)"]
ASSUMPTIONS = ["decorated functions have plain parameter lists (no *args/**kwargs/keyword-only); the table theorem checks this flag",
               "'clear error' for a missing required attribute is read as: an exception is raised before the formula is evaluated and "
               "its message names the attribute and the function; the code raises a bare Exception (not SMRTError), which is accepted"]
RULE = ("every function decorated with layer_properties in smrt/permittivity x layers from make_snow_layer / make_ice_layer (3 ice types) / "
        "make_water_layer / make_generic_layer over their parameter space x every subset of the function's optional layer attributes "
        "present (attributes set on / deleted from a copy) x three paths (f(.., layer_to_inject=layer), Layer.permittivity, the "
        "effective_permittivity mixin alone and inside IBA); plus random ad-hoc declarations; distinct = distinct (slice, input line)")

GEN = C.LEAN / "SmrtVerif" / "Gen"
SKIP_MODULES = ("__init__",)


# =============================================================================================
# the table: declarations of smrt/permittivity and what the layer constructors store

def _lit(node):
    try:
        v = ast.literal_eval(node)
    except Exception:
        return None
    if isinstance(v, str):
        return [v]
    if isinstance(v, (list, tuple)) and all(isinstance(x, str) for x in v):
        return list(v)
    if v is None:
        return []
    return None


def is_layer_properties(dec):
    if not isinstance(dec, ast.Call):
        return False
    f = dec.func
    return (isinstance(f, ast.Name) and f.id == "layer_properties") or (isinstance(f, ast.Attribute) and f.attr == "layer_properties")


def ast_declarations():
    """[(module, function, required, optional, swallowed [(kw, names)], params, ndefaults, star)] from the source text"""
    out = []
    for f in sorted((C.REPO / "smrt" / "permittivity").glob("*.py")):
        if f.stem in SKIP_MODULES or f.stem.startswith("test_"):
            continue
        tree = ast.parse(f.read_text())
        for node in ast.walk(tree):
            if not isinstance(node, (ast.FunctionDef, ast.AsyncFunctionDef)):
                continue
            for dec in node.decorator_list:
                if not is_layer_properties(dec):
                    continue
                req, opt, swallowed = [], [], []
                for a in dec.args:
                    names = _lit(a)
                    if isinstance(a, ast.Starred) or names is None or len(names) != 1:
                        swallowed.append(("<non-literal positional>", []))
                    else:
                        req += names
                for k in dec.keywords:
                    names = _lit(k.value)
                    if k.arg == "optional_arguments" and names is not None:
                        opt += names
                    else:
                        swallowed.append((k.arg or "**", names or []))
                a = node.args
                params = [x.arg for x in a.posonlyargs + a.args]
                star = bool(a.vararg or a.kwarg or a.kwonlyargs or a.posonlyargs)
                out.append((f.stem, node.name, req, opt, swallowed, params, len(a.defaults), star))
    return out


def imported_function(module, name):
    m = importlib.import_module(f"smrt.permittivity.{module}")
    return getattr(m, name)


def closure_of(fn):
    """what the decorator really captured for `newf`: {'f':…, 'required_arguments':…, 'optional_arguments':…}"""
    return dict(zip(fn.__code__.co_freevars, (c.cell_contents for c in (fn.__closure__ or ()))))


def declarations():
    """the AST table cross-checked against the imported objects; a disagreement is recorded as a swallowed pseudo-keyword"""
    C.import_smrt()
    decls, problems = [], []
    for (mod, name, req, opt, sw, params, ndef, star) in ast_declarations():
        sw = list(sw)
        try:
            fn = imported_function(mod, name)
            cl = closure_of(fn)
            creq = list(cl.get("required_arguments", ()))
            copt = list(cl.get("optional_arguments") or ())
            sig = inspect.signature(cl["f"])
            cparams = list(sig.parameters)
            cndef = sum(1 for p in sig.parameters.values() if p.default is not inspect.Parameter.empty)
            if (creq, copt, cparams, cndef) != (req, opt, params, ndef):
                problems.append(f"{mod}.{name}: source text and imported object disagree")
                sw.append(("<source/object mismatch>", []))
        except Exception as e:  # module cannot be imported here: the source text alone is used
            problems.append(f"{mod}.{name}: not importable ({type(e).__name__})")
        decls.append(dict(module=mod, name=name, required=req, optional=opt, swallowed=sw, params=params, ndefaults=ndef, star=star))
    return decls, problems


CTOR_VARIANTS = [
    ("make_snow_layer", "make_snow_layer", dict(layer_thickness=1.0, microstructure_model="homogeneous", density=300.0)),
    ("make_ice_layer:firstyear", "make_ice_layer", dict(ice_type="firstyear", layer_thickness=1.0, temperature=265.0, salinity=0.005,
                                                         microstructure_model="homogeneous")),
    ("make_ice_layer:multiyear", "make_ice_layer", dict(ice_type="multiyear", layer_thickness=1.0, temperature=265.0, salinity=0.002,
                                                         microstructure_model="homogeneous", porosity=0.05)),
    ("make_ice_layer:fresh", "make_ice_layer", dict(ice_type="fresh", layer_thickness=1.0, temperature=265.0, salinity=0.0,
                                                     microstructure_model="homogeneous", porosity=0.02)),
    ("make_water_layer", "make_water_layer", dict(layer_thickness=1.0)),
    ("make_generic_layer", "make_generic_layer", dict(layer_thickness=1.0)),
]
NOT_PROPERTIES = {"read_only_attributes"}


def visible_attributes(lay):
    names = [k for k in vars(lay) if not k.startswith("_") and k not in NOT_PROPERTIES]
    for cls in type(lay).__mro__:
        for k, v in vars(cls).items():
            if isinstance(v, property) and not k.startswith("_") and k != "ssa" and k not in names:
                try:
                    if hasattr(lay, k):
                        names.append(k)
                except Exception:
                    pass
    return names


def constructors():
    C.import_smrt()
    from smrt.inputs import make_medium
    out = []
    for label, fname, kw in CTOR_VARIANTS:
        lay = getattr(make_medium, fname)(**kw)
        models = [p.__name__ for p in (lay.permittivity_model or ()) if callable(p) and hasattr(p, "__wrapped__")]
        out.append(dict(name=label, stored=visible_attributes(lay), models=models))
    return out


def lstr(s):
    return json.dumps(s, ensure_ascii=False)


def llist(xs):
    return "[" + ", ".join(lstr(x) for x in xs) + "]"


def generate_tables():
    GEN.mkdir(exist_ok=True)
    decls, problems = declarations()
    ctors = constructors()
    out = ["/- GENERATED by harness/pC14.py generate_tables() from the working tree of /repo (smrt/permittivity/*.py, "
           "smrt/inputs/make_medium.py) — do not edit -/",
           "import SmrtVerif.Model.Inject", "namespace Smrt.Gen.C14", "open Smrt.Inject", "",
           "/-- ⟨module, function, required, optional_arguments, keywords swallowed by the decorator, parameters, #defaults, star⟩ -/",
           "def decls : List Decl := ["]
    rows = []
    for d in decls:
        sw = "[" + ", ".join(f"({lstr(k)}, {llist(v)})" for k, v in d["swallowed"]) + "]"
        rows.append(f"  ⟨{lstr(d['module'])}, {lstr(d['name'])}, {llist(d['required'])}, {llist(d['optional'])}, {sw}, "
                    f"{llist(d['params'])}, {d['ndefaults']}, {'true' if d['star'] else 'false'}⟩")
    out.append(",\n".join(rows) + "]\n")
    out.append("/-- ⟨constructor (per ice type), attributes of the layer it returns, layer-aware functions it installs by default⟩ -/")
    out.append("def constructors : List Ctor := [")
    out.append(",\n".join(f"  ⟨{lstr(c['name'])}, {llist(c['stored'])}, {llist(c['models'])}⟩" for c in ctors) + "]\n")
    out.append("def layerNames : List String := layerNamesOf constructors decls\n")
    out.append("end Smrt.Gen.C14")
    (GEN / "C14Decls.lean").write_text("\n".join(out) + "\n")
    return {"obligations": len(decls) + sum(len(c["models"]) for c in ctors),
            "tables": {"decorated_functions": len(decls), "with_optional": sum(1 for d in decls if d["optional"]),
                       "swallowed_keywords": [f"{d['module']}.{d['name']}: {k}=" for d in decls for k, _ in d["swallowed"]],
                       "constructors": len(ctors), "problems": problems}}


# =============================================================================================
# values, layers, recording

_TABLE = None


def table():
    """declarations by function name, with the imported decorated function `fn` and the undecorated `orig`"""
    global _TABLE
    if _TABLE is None:
        decls, _ = declarations()
        for d in decls:
            try:
                d["fn"] = imported_function(d["module"], d["name"])
                d["orig"] = closure_of(d["fn"])["f"]
            except Exception:
                d["fn"] = d["orig"] = None
        ctors = constructors()
        names = set()
        for c in ctors:
            names |= set(c["stored"])
        for d in decls:
            names |= set(d["required"]) | set(d["optional"]) | {n for _, ns in d["swallowed"] for n in ns}
        _TABLE = dict(decls={d["name"]: d for d in decls}, ctors=ctors, layer_names=names)
    return _TABLE


def layer_params(d):
    """the parameters of the function that are layer properties (what its declaration and the constructors name)"""
    return [p for p in d["params"] if p in table()["layer_names"]]


def perm_fn(spec):
    mod, name = spec.rsplit(".", 1)
    return importlib.import_module("smrt.permittivity." + mod).__dict__[name]


def resolve(v):
    """JSON-able value spec -> Python object"""
    if isinstance(v, dict):
        if "$fn" in v:
            return perm_fn(v["$fn"])
        if "$tuple" in v:
            return tuple(resolve(x) for x in v["$tuple"])
        if "$array" in v:
            return np.array(v["$array"], dtype=float)
        if "$dict" in v:
            return {k: resolve(x) for k, x in v["$dict"].items()}
        if "$complex" in v:
            return complex(*v["$complex"])
        return {k: resolve(x) for k, x in v.items()}
    if isinstance(v, list):
        return [resolve(x) for x in v]
    return v


class Reg:
    """opaque value tokens for the driver, and back"""

    def __init__(self):
        self.objs = {}

    def tok(self, v):
        if v is None:
            t = "None"
        elif isinstance(v, (bool, np.bool_)):
            t = "b:" + str(bool(v))
        elif isinstance(v, (int, float, np.integer, np.floating)):
            t = f2t(float(v))
        elif isinstance(v, (complex, np.complexfloating)):
            t = "c" + f2t(v.real) + f2t(v.imag)
        elif isinstance(v, str):
            t = "s:" + re.sub(r"\s+", "_", v)
        elif callable(v):
            t = "fn:" + getattr(v, "__name__", "callable")
        elif isinstance(v, np.ndarray):
            t = "a:" + ",".join(f2t(x) for x in np.asarray(v, dtype=float).ravel())
        else:
            t = "o:" + re.sub(r"\s+", "", repr(v))
        self.objs.setdefault(t, v)
        return t

    def obj(self, t):
        return self.objs[t]


def set_attr(lay, n, v):
    if n == "frac_volume":
        if hasattr(lay, "microstructure"):
            lay.microstructure.frac_volume = v
        return
    lay.__dict__[n] = v          # some attributes are read-only through setattr: the harness edits a private copy


def del_attr(lay, n):
    if n == "frac_volume":
        if hasattr(lay, "microstructure") and hasattr(lay.microstructure, "frac_volume"):
            del lay.microstructure.frac_volume
        return
    lay.__dict__.pop(n, None)


def build_layer(spec):
    from smrt.inputs import make_medium
    lay = getattr(make_medium, spec["ctor"])(**{k: resolve(v) for k, v in spec["args"].items()})
    for n, v in spec.get("set", {}).items():
        set_attr(lay, n, resolve(v))
    for n in spec.get("del", []):
        del_attr(lay, n)
    return lay


def layer_env(lay, names, reg):
    return [(n, reg.tok(getattr(lay, n))) for n in names if hasattr(lay, n)]


def env_s(env):
    return f"{len(env)}" + "".join(f" {k} {v}" for k, v in env)


def fspec(d):
    if d.get("adhoc"):
        return (f"adhoc {d['name']} {len(d['required'])} " + "".join(n + " " for n in d["required"]) + f"{len(d['optional'])} "
                + "".join(n + " " for n in d["optional"]) + f"{len(d['params'])} " + "".join(n + " " for n in d["params"]) + f"{d['ndefaults']}")
    return "tbl " + d["name"]


def run_recorded(d, thunk):
    """put a recorder in the `f` cell of the decorated function (what `newf` calls); returns (first call, outcome)"""
    fn = d["fn"]
    cell = fn.__closure__[fn.__code__.co_freevars.index("f")]
    orig = cell.cell_contents
    calls = []

    def rec(*a, **k):
        if not calls:
            calls.append((a, dict(k)))
        return orig(*a, **k)
    cell.cell_contents = rec
    try:
        try:
            res = ("ok", thunk())
        except Exception as e:  # noqa
            res = ("err", e)
    finally:
        cell.cell_contents = orig
    return calls, res


def err_tok(e):
    if type(e) is Exception:
        m = re.search(r"must have the '([^']+)' attribute", str(e))
        return "ERR foreign:Exception " + (m.group(1) if m else "?")
    return C.err_kind(e)


def val_toks(v):
    z = np.asarray(v, dtype=complex).ravel()
    return "val " + " ".join(f2t(x.real) + " " + f2t(x.imag) for x in z)


def res_toks(res, passive=False):
    kind, v = res
    if kind == "err":
        return err_tok(v)
    if passive:                      # the mixin's own test `if eps.imag < -1e-10` (model: checkPassive, slice emmodel.passive)
        try:
            if v.imag < -1e-10:
                return "ERR SMRTError"
        except Exception as e:  # noqa  (an array-valued function is not an effective-permittivity formula)
            return err_tok(e)
    return val_toks(v)


def impl_line(d, calls, res, reg):
    """canonical line of what the implementation did: the call the undecorated function received and the result"""
    if not calls:
        kind, v = res
        if kind == "ok":
            return "value " + reg.tok(v)
        return err_tok(v)
    a, k = calls[0]
    try:
        ba = inspect.signature(d["orig"]).bind(*a, **k)
    except TypeError:
        return "ERR foreign:TypeError" if (res[0] == "err" and isinstance(res[1], TypeError)) else "ERR harness:bind-vs-call"
    bound = " ".join(f"{p} g {reg.tok(ba.arguments[p])}" if p in ba.arguments else f"{p} d" for p in d["params"])
    kws = sorted(k.items())
    parts = ["call", d["name"], "pos", str(len(a))] + [reg.tok(x) for x in a] + ["kw", str(len(kws))]
    for kk, vv in kws:
        parts += [kk, reg.tok(vv)]
    parts += ["bound", str(len(d["params"])), bound] if d["params"] else ["bound", "0"]
    return " ".join(parts) + " res " + res_toks(res)


def make_post(d, reg, passive=False):
    """the model's line + the value of the *direct* call of the undecorated function with the arguments the model predicts"""
    def post(mo):
        ts = mo.split()
        if not ts or ts[0] != "call":
            return mo
        i = ts.index("bound")
        n = int(ts[i + 1])
        j, kw = i + 2, {}
        for _ in range(n):
            p = ts[j]
            if ts[j + 1] == "g":
                kw[p] = reg.obj(ts[j + 2]); j += 3
            else:
                j += 2
        try:
            res = ("ok", d["orig"](**kw))
        except Exception as e:  # noqa
            res = ("err", e)
        return mo + " res " + res_toks(res, passive)
    return post


# =============================================================================================
# generators

ICE_FNS = ["ice.ice_permittivity_maetzler06", "ice.ice_permittivity_maetzler87", "ice.ice_permittivity_tiuri84",
           "ice.ice_permittivity_hufford91_maetzler87"]
WATER_FNS = ["water.water_permittivity_maetzler87", "water.water_permittivity_tiuri80"]
BRINE_FNS = ["saline_water.brine_permittivity_stogryn85", "saline_water.seawater_permittivity_stogryn71"]
SHAPES = ["spheres", "random_needles", {"$tuple": ["spheres", "random_needles"]}, {"$dict": {"spheres": 0.3, "random_needles": 0.7}}]


def pick(rng, xs):
    return xs[int(rng.integers(0, len(xs)))]


def r3(rng, lo, hi):
    return float("%.4g" % rng.uniform(lo, hi))


def optional_value(rng, name):
    """a value for an optional layer attribute, from the domain its documentation gives"""
    if name.endswith("inclusion_shape"):
        return pick(rng, SHAPES + [None]) if name == "inclusion_shape" else pick(rng, SHAPES)
    if name.endswith("mixing_ratio"):
        return pick(rng, [r3(rng, 0.05, 0.95), {"$tuple": [r3(rng, 0.05, 0.95)]}])
    if name == "depol_xyz":
        return pick(rng, [None, None, {"$array": [0.2, 0.3, 0.5]}])
    if name == "length_ratio":
        return pick(rng, [None, None, r3(rng, 0.3, 3.0)])
    if name == "ice_permittivity_model":
        return {"$fn": pick(rng, ICE_FNS)}
    if name == "water_permittivity_model":
        return {"$fn": pick(rng, WATER_FNS)}
    if name == "brine_permittivity_model":
        return {"$fn": pick(rng, BRINE_FNS)}
    return r3(rng, 0.1, 0.9)


def required_value(rng, name):
    return {"temperature": r3(rng, 245, 272), "salinity": r3(rng, 0.0005, 0.03), "density": r3(rng, 120, 600),
            "liquid_water": r3(rng, 0.0, 0.15), "frac_volume": r3(rng, 0.05, 0.6),
            "brine_volume_fraction": r3(rng, 0.005, 0.2)}.get(name, r3(rng, 0.1, 0.9))


def base_layers(rng, kinds=None):
    """one layer specification per constructor variant, drawn from the constructor's parameter space"""
    ms = pick(rng, [dict(microstructure_model="homogeneous"), dict(microstructure_model="exponential", corr_length=r3(rng, 5e-5, 5e-4)),
                    dict(microstructure_model="sticky_hard_spheres", radius=r3(rng, 1e-4, 1e-3), stickiness=r3(rng, 0.1, 1.0))])
    out = {}
    snow = dict(layer_thickness=r3(rng, 0.05, 3), density=r3(rng, 100, 550), temperature=r3(rng, 240, 273), **ms)
    wet = rng.random()
    if wet < 0.3:
        snow["volumetric_liquid_water"] = r3(rng, 0.001, 0.08)
    elif wet < 0.45:
        snow["liquid_water"] = r3(rng, 0.001, 0.15)
    if rng.random() < 0.4:
        snow["salinity"] = r3(rng, 0.0005, 0.02)
    if rng.random() < 0.5:
        snow["ice_permittivity_model"] = {"$fn": pick(rng, ICE_FNS + ["wetsnow.wetsnow_permittivity", "saline_ice.impure_ice_permittivity_maetzler06"])}
    out["make_snow_layer"] = dict(ctor="make_snow_layer", args=snow)
    for it in ("firstyear", "multiyear", "fresh"):
        a = dict(ice_type=it, layer_thickness=r3(rng, 0.1, 3), temperature=r3(rng, 250, 271.5), **ms,
                 salinity=0.0 if it == "fresh" else r3(rng, 0.0005, 0.012))
        if it != "fresh":
            a["brine_inclusion_shape"] = pick(rng, SHAPES)
            if isinstance(a["brine_inclusion_shape"], dict) and "$tuple" in a["brine_inclusion_shape"]:
                a["brine_mixing_ratio"] = r3(rng, 0.05, 0.95)         # through **kwargs: stored on the layer
            if rng.random() < 0.3:
                a["brine_volume_fraction"] = r3(rng, 0.005, 0.2)
            if rng.random() < 0.3:
                a["brine_permittivity_model"] = {"$fn": pick(rng, BRINE_FNS)}
        if it != "firstyear":
            if rng.random() < 0.5:
                a["porosity"] = r3(rng, 0.0, 0.3)
            elif it == "multiyear" and rng.random() < 0.5:
                a["density"] = r3(rng, 700, 915)
        if rng.random() < 0.3:
            a["ice_permittivity_model"] = {"$fn": pick(rng, ICE_FNS)}
        out["make_ice_layer:" + it] = dict(ctor="make_ice_layer", args=a)
    w = dict(layer_thickness=r3(rng, 1, 100), temperature=r3(rng, 271.5, 295), salinity=r3(rng, 0.0, 0.04))
    if rng.random() < 0.4:
        w["foam_frac_volume"] = r3(rng, 0.01, 0.3)
    if rng.random() < 0.3:
        w["water_permittivity_model"] = {"$fn": pick(rng, ["saline_water.seawater_permittivity_stogryn95", "saline_water.seawater_permittivity_klein76"])}
    out["make_water_layer"] = dict(ctor="make_water_layer", args=w)
    out["make_generic_layer"] = dict(ctor="make_generic_layer", args=dict(layer_thickness=r3(rng, 0.1, 3), ks=r3(rng, 0, 2), ka=r3(rng, 0, 2),
                                                                          effective_permittivity=r3(rng, 1, 3), temperature=r3(rng, 240, 273)))
    return out if kinds is None else {k: v for k, v in out.items() if k in kinds}


def optional_names(d):
    """the optional layer attributes the function documents: what the decorator call names beyond the required ones"""
    names = list(d["optional"])
    for _, ns in d["swallowed"]:
        names += [n for n in ns if n not in names]
    # and every other parameter that is a layer property by name (declared by another formula or stored by a constructor)
    names += [p for p in layer_params(d) if p not in names and p not in d["required"]]
    return names


def tampered(rng, d, spec, subset, drop_required=0.0):
    """`spec` with every required attribute present (added from the documented domain when the constructor does not store
    it), exactly the optional attributes of `subset` present, and possibly one required attribute removed"""
    spec = json.loads(json.dumps(spec))
    lay = build_layer(spec)
    st, dl = {}, []
    for r in d["required"]:
        if not hasattr(lay, r):
            st[r] = required_value(rng, r)
    for o in optional_names(d):
        if o in d["required"]:
            continue
        if o in subset:
            if not hasattr(lay, o) or getattr(lay, o) is None or rng.random() < 0.5:
                st[o] = optional_value(rng, o)
        else:
            dl.append(o)
    fit_domain(rng, d, lay, st)
    if d["required"] and rng.random() < drop_required:
        r = pick(rng, d["required"])
        st.pop(r, None)
        dl.append(r)
    spec["set"], spec["del"] = st, dl
    return spec


def fit_domain(rng, d, lay, st):
    """most of the time move the temperature into the domain the formula accepts (wet snow at the melting point, liquid
    water above it, ice below it), so that most cases return a value rather than the formula's own SMRTError"""
    if "temperature" not in d["params"] or rng.random() < 0.12:
        return
    T = st.get("temperature", getattr(lay, "temperature", None))
    lw = st.get("liquid_water", getattr(lay, "liquid_water", 0)) or 0
    if d["module"] == "water":
        if T is None or T < 273.15:
            st["temperature"] = r3(rng, 273.15, 295)
    elif "liquid_water" in d["params"] and d["module"] == "snow_mixing_formula":
        if lw > 0:
            st["temperature"] = 273.15
        elif T is not None and T > 273.15:
            st["temperature"] = r3(rng, 245, 273.15)
    elif d["module"] in ("ice", "saline_ice", "wetice", "wetsnow", "brine") or "ice_permittivity_model" in d["params"]:
        if T is not None and T > 273.0:
            st["temperature"] = r3(rng, 245, 273.0)


def call_extras(rng, d, frequency):
    """positional and keyword arguments the caller supplies besides the layer"""
    pos, kw = [], {}
    declared = set(d["required"]) | set(optional_names(d))
    nreq = len(d["params"]) - d["ndefaults"]
    for i, p in enumerate(d["params"]):
        if p in declared:
            continue
        if p == "frequency":
            if i == 0 and rng.random() < 0.85:
                pos.append(frequency)
            else:
                kw[p] = frequency
        elif i < nreq or rng.random() < 0.5:
            kw[p] = {"$complex": [r3(rng, 1, 80), r3(rng, 0, 30)]} if p in ("e0", "eps") else r3(rng, 0.1, 0.9)
    u = rng.random()
    if u < 0.08 and kw:
        kw.pop(pick(rng, sorted(kw)))                       # a missing argument -> TypeError
    elif u < 0.22 and declared:
        n = pick(rng, sorted(declared))                     # the caller's keyword collides with a layer attribute: the layer wins
        kw[n] = required_value(rng, n) if n in d["required"] else optional_value(rng, n)
    elif u < 0.26:
        kw["bogus_keyword"] = 1.0                           # unknown keyword -> TypeError
    return pos, kw


def subsets(names):
    for k in range(len(names) + 1):
        for s in itertools.combinations(names, k):
            yield set(s)


def attr_names(d):
    t = table()
    return sorted(set(d["params"]) | set(d["required"]) | set(optional_names(d))
                  | {n for c in t["ctors"] for n in c["stored"] if n in {p for dd in t["decls"].values() for p in dd["params"]}})


def exec_case(case):
    """run one case on the implementation: returns (driver line, implementation line, post-processor)"""
    d = case["_d"] if "_d" in case else table()["decls"][case["fn"]]
    reg = Reg()
    lay = build_layer(case["layer"]) if isinstance(case.get("layer"), dict) else case.get("layer")
    names = case.get("names") or attr_names(d)
    path = case["path"]
    if path == "inj":
        pos = [resolve(x) for x in case["pos"]]
        kw = {k: resolve(v) for k, v in case["kw"].items()}
        if lay is None:
            la, arg = "none", None
        elif lay == "other":
            la, arg = "other", object()
        else:
            la, arg = "layer " + env_s(layer_env(lay, names, reg)), lay
        line = (f"inj {fspec(d)} {la} {len(pos)}" + "".join(" " + reg.tok(x) for x in pos) + " " + env_s([(k, reg.tok(v)) for k, v in kw.items()]))
        calls, res = run_recorded(d, lambda: d["fn"](*pos, layer_to_inject=arg, **kw))
        return line, impl_line(d, calls, res, reg), make_post(d, reg)
    if path == "perm":
        pm = case["pm"]            # list of entries: ("d",) the function | ("c", value) | ("p",) plain callable | None
        i, freq = case["i"], case["frequency"]
        if pm is None:
            lay.__dict__["permittivity_model"] = None
            pms = "none"
        else:
            ents, toks = [], []
            for e in pm:
                if e[0] == "d":
                    ents.append(d["fn"]); toks.append("d " + fspec(d))
                elif e[0] == "c":
                    v = resolve(e[1]); ents.append(v); toks.append("c " + reg.tok(v))
                else:
                    ents.append(lambda frequency: 3.0 + 0j); toks.append("p plain_lambda")
            lay.__dict__["permittivity_model"] = tuple(ents)
            pms = f"{len(ents)} " + " ".join(toks)
        line = f"perm {pms} {env_s(layer_env(lay, names, reg))} {i} {reg.tok(freq)}"
        calls, res = run_recorded(d, lambda: lay.permittivity(i, freq))
        return line, impl_line(d, calls, res, reg), make_post(d, reg)
    if path == "eff":
        from smrt.emmodel.common import AdjustableEffectivePermittivityMixins
        em = type("Em_" + d["name"], (AdjustableEffectivePermittivityMixins,), {"effective_permittivity_model": staticmethod(d["fn"])})()
        em.layer = lay
        em.e0, em.eps, em.frequency = resolve(case["e0"]), resolve(case["eps"]), case["frequency"]
        avail = [("e0", reg.tok(em.e0)), ("eps", reg.tok(em.eps)), ("frequency", reg.tok(em.frequency))]
        line = f"eff {fspec(d)} {env_s(layer_env(lay, names, reg))} {env_s(avail)}"
        calls, res = run_recorded(d, em.effective_permittivity)
        if res[0] == "err" and type(res[1]).__name__ == "SMRTError" and "imaginary part" in str(res[1]):
            res = ("ok", complex(0, -1))     # reported by the sign test, after the call: shown as such by res_toks(passive=True)
            out = impl_line(d, calls, ("ok", 0j), reg).rsplit(" res ", 1)[0] + " res ERR SMRTError"
            return line, out, make_post(d, reg, passive=True)
        return line, impl_line(d, calls, res, reg), make_post(d, reg, passive=True)
    raise KeyError(path)


def js(v):
    return C.jsonable(v)


def pinned_mismatches():
    t = table()
    pinned = pinned_declarations()
    out = []
    for name, d in t["decls"].items():
        if name in pinned:
            if sorted(d["required"]) != pinned[name]["required"] or sorted(optional_names(d)) != pinned[name]["optional"]:
                out.append({"slice": "declarations.pinned", "why": f"{name}: declared required {sorted(d['required'])} optional {sorted(optional_names(d))}; "
                            f"pinned required {pinned[name]['required']} optional {pinned[name]['optional']}", "desc": {"fn": name}, "line": "",
                            "impl": str(sorted(d["required"])), "model": str(pinned[name]["required"])})
    for name in pinned:
        if name not in t["decls"]:
            out.append({"slice": "declarations.pinned", "why": f"{name}: no longer a layer-aware function", "desc": {"fn": name}, "line": "", "impl": "-", "model": "declared"})
    return out


def correspond(ctx):
    C.import_smrt()
    rng = ctx.np
    co = Corr(PROP, DRIVER)
    t = table()
    nlay = ctx.n(1, 4)
    for name, d in t["decls"].items():
        if d["fn"] is None:
            co.note("not importable: " + name)
            continue
        opts = optional_names(d)
        for rep in range(nlay):
            for kind, base in base_layers(rng).items():
                for sub in subsets(opts):
                    freq = r3(rng, 1, 100) * 1e9
                    try:
                        spec = tampered(rng, d, base, sub, drop_required=0.12)
                    except Exception as e:  # the constructor refused the drawn arguments: not a case
                        co.note(f"constructor refused: {kind} {type(e).__name__}")
                        continue
                    co.note(f"layer {kind}")
                    co.note(f"optional attributes present: {len(sub)}/{len(opts)}")
                    # (1) f(..., layer_to_inject=layer)
                    pos, kw = call_extras(rng, d, freq)
                    add_case(co, "inject.table", dict(fn=name, path="inj", layer=spec, pos=pos, kw=kw))
                    # (2) Layer.permittivity(i, frequency)
                    u = rng.random()
                    pm = [("d",), ("c", 1.0)] if u < 0.5 else [("c", {"$complex": [3.1, 0.01]}), ("d",)]
                    i = 0 if u < 0.5 else 1
                    if rng.random() < 0.06:
                        i = pick(rng, [-1, 2, 1 - i])
                    add_case(co, "layer.permittivity", dict(fn=name, path="perm", layer=spec, pm=pm, i=i, frequency=freq))
                    # (3) the mixin's effective_permittivity
                    add_case(co, "emmodel.effective_permittivity",
                             dict(fn=name, path="eff", layer=spec, frequency=freq, e0={"$complex": [r3(rng, 1, 4), r3(rng, 0, 0.1)]},
                                  eps={"$complex": [r3(rng, 1, 80), r3(rng, 0, 30)]}))
    # dispatch corner cases of Layer.permittivity
    d = t["decls"]["ice_permittivity_maetzler06"]
    for _ in range(ctx.n(6, 30)):
        base = base_layers(rng)[pick(rng, ["make_snow_layer", "make_ice_layer:fresh", "make_water_layer"])]
        for pm, i in [(None, 0), ([("p",), ("c", 1.0)], 0), ([("p",), ("d",)], 1), ([("c", 2.5), ("c", {"$complex": [3.0, 0.2]})], int(rng.integers(0, 2))),
                      ([("d",)], 1), ([("d",), ("d",), ("c", 1.0)], int(rng.integers(-1, 4)))]:
            add_case(co, "layer.permittivity.dispatch", dict(fn=d["name"], path="perm", layer=base, pm=pm, i=i, frequency=r3(rng, 1, 100) * 1e9))
    # layer_to_inject None / not a Layer
    for name in ("ice_permittivity_maetzler06", "polder_van_santen", "saline_ice_permittivity_pvs_mixing", "wetsnow_permittivity_memls"):
        d = t["decls"][name]
        for _ in range(ctx.n(3, 12)):
            freq = r3(rng, 1, 100) * 1e9
            pos, kw = call_extras(rng, d, freq)
            for r in d["required"]:
                kw.setdefault(r, required_value(rng, r))
            add_case(co, "inject.no_layer", dict(fn=name, path="inj", layer=None, pos=pos, kw=kw))
            add_case(co, "inject.no_layer", dict(fn=name, path="inj", layer="other", pos=pos, kw=kw))
    adhoc_cases(ctx, co)
    iba_cases(ctx, co)
    passive_cases(ctx, co)
    co.disagreements.extend(pinned_mismatches())
    co.note("declarations compared with those pinned from the audited tree")
    return co


def add_case(co, slice_, case):
    try:
        line, out, post = exec_case(case)
    except Exception as e:  # noqa  (a harness failure must be visible, not swallowed)
        co.add(slice_, "inj tbl __harness_error__ none 0 0", "ERR harness:" + type(e).__name__ + ":" + str(e)[:150], C.EXACT, desc=js(case))
        return
    kind = out.split()[0] + ("" if not out.startswith("ERR") else " " + out.split()[1])
    if " res " in out:
        kind += " -> " + " ".join(out.rsplit(" res ", 1)[1].split()[:2] if "ERR" in out.rsplit(" res ", 1)[1] else ["val"])
    co.note(f"{slice_}: {kind}")
    co.add(slice_, line, out, C.EXACT, desc={k: js(v) for k, v in case.items() if not k.startswith("_")}, post=post)


def adhoc_cases(ctx, co):
    """random declarations applied with the real decorator to throw-away functions, random bare layers and keywords"""
    from smrt.core.layer import Layer, layer_properties
    rng = ctx.np
    pool = [f"a{i}" for i in range(7)]
    for k in range(ctx.n(150, 1500)):
        req = [pool[i] for i in rng.permutation(7)[:int(rng.integers(0, 4))]]
        opt = [pool[i] for i in rng.permutation(7)[:int(rng.integers(0, 4))]]
        declared = set(req) | set(opt)
        params = ["frequency"] * int(rng.random() < 0.6) + [pool[i] for i in rng.permutation(7) if pool[i] in declared or rng.random() < 0.25]
        if rng.random() < 0.1 and len(params) > 1:
            params.pop(int(rng.integers(0, len(params))))          # a declared name may not be a parameter
        ndef = int(rng.integers(0, len(params) + 1))
        ns = {}
        exec(gsrc(params, ndef), ns)
        fn = layer_properties(*req, optional_arguments=(opt if (opt or rng.random() < 0.5) else None))(ns["g"])
        d = dict(adhoc=True, module="adhoc", name=f"g{k}", required=req, optional=opt, swallowed=[], params=params, ndefaults=ndef,
                 star=False, fn=fn, orig=ns["g"])
        lay = Layer(1.0)
        for n in pool:                                             # mostly: every required attribute present
            if rng.random() < (0.92 if n in req else 0.5):
                setattr(lay, n, float(rng.integers(1, 50)))
        pos = [float(rng.integers(50, 60))] if params[:1] == ["frequency"] and rng.random() < 0.8 else []
        kw = {}
        for i, n in enumerate(params):
            if (i < len(pos)) or (n in declared):
                continue
            if rng.random() < (0.93 if i < len(params) - ndef else 0.4):
                kw[n] = float(rng.integers(60, 99))
        u = rng.random()
        if u < 0.15 and declared:
            kw[pick(rng, sorted(declared))] = 7.0                  # collides with a layer attribute
        elif u < 0.20:
            pos.append(5.0)                                        # one positional too many / bound twice
        elif u < 0.25:
            kw["bogus"] = 1.0
        path = rng.random()
        if path < 0.6:
            case = dict(_d=d, path="inj", layer=pick(rng, [lay] * 8 + [None, "other"]), pos=pos, kw=kw, names=pool, decl=d_json(d))
            sl = "inject.adhoc"
        else:
            # called without caller keywords: mostly, every parameter that is not required from the layer has a default
            first = [n for n in ("frequency", "e0", "eps") if (n == "frequency" and path < 0.8) or (path >= 0.8 and rng.random() < 0.4)]
            lead = first + [n for n in params if n in req]
            rest = [n for n in params if n not in lead and n != "frequency"]
            params = lead + rest
            ndef = len(rest) if rng.random() < 0.85 else int(rng.integers(0, len(params) + 1))
            exec(gsrc(params, ndef), ns)
            d.update(params=params, ndefaults=ndef, orig=ns["g"], fn=layer_properties(*req, optional_arguments=opt)(ns["g"]))
            if path < 0.8:
                case = dict(_d=d, path="perm", layer=lay, pm=[("c", 1.5), ("d",)], i=int(rng.integers(0, 5) > 0), frequency=float(rng.integers(50, 60)),
                            names=pool, decl=d_json(d))
                sl = "layer.permittivity.adhoc"
            else:
                case = dict(_d=d, path="eff", layer=lay, frequency=55.0, e0=3.0, eps=4.0, names=pool, decl=d_json(d))
                sl = "emmodel.effective_permittivity.adhoc"
        add_case(co, sl, case)


def gsrc(params, ndef):
    """source of a throw-away function whose value depends on every argument"""
    return ("def g(" + ", ".join(p if i < len(params) - ndef else f"{p}=-1.0" for i, p in enumerate(params)) + "):\n"
            "    return complex(" + " + ".join(["0"] + [f"{i + 2}*{p}" for i, p in enumerate(params)]) + ")\n")


def d_json(d):
    return {k: d[k] for k in ("name", "required", "optional", "params", "ndefaults")}


MIXING = ["polder_van_santen", "maxwell_garnett", "maxwell_garnett_for_spheres", "drysnow_permittivity_maetzler96",
          "wetsnow_permittivity_memls", "wetsnow_permittivity_wiesmann99", "wetsnow_permittivity_tinga73", "wetsnow_permittivity_colbeck80_caseI",
          "wetsnow_permittivity_hallikainen86", "saline_snow_permittivity_geldsetzer09"]


def iba_cases(ctx, co):
    """the same mixin inside a real emmodel: IBA (and derived_IBA with every mixing formula) on snow and sea-ice layers"""
    from smrt.emmodel.iba import IBA, derived_IBA
    from smrt.inputs import sensor_list
    rng = ctx.np
    t = table()
    for _ in range(ctx.n(4, 25)):
        for kind, base in base_layers(rng, ["make_snow_layer", "make_ice_layer:firstyear", "make_ice_layer:multiyear", "make_ice_layer:fresh"]).items():
            base = json.loads(json.dumps(base))
            base["args"].update(microstructure_model="exponential", corr_length=r3(rng, 5e-5, 4e-4))
            base["args"].pop("radius", None); base["args"].pop("stickiness", None)
            for name in MIXING:
                d = t["decls"][name]
                if d["fn"] is None:
                    continue
                if not kind.startswith("make_snow") and name not in ("polder_van_santen", "maxwell_garnett", "maxwell_garnett_for_spheres"):
                    continue
                spec = json.loads(json.dumps(base))
                if name == "maxwell_garnett" and not kind.startswith("make_snow"):
                    spec["args"]["brine_inclusion_shape"] = "spheres"
                freq = r3(rng, 1, 90) * 1e9
                try:
                    lay = build_layer(spec)
                    em = (IBA if name == "polder_van_santen" and rng.random() < 0.5 else derived_IBA(d["fn"]))(sensor_list.passive(freq, 40.), lay)
                except Exception as e:  # noqa
                    co.note(f"IBA refused: {name} on {kind}: {type(e).__name__}")
                    continue
                reg = Reg()
                names = attr_names(d)
                avail = [("e0", reg.tok(em.e0)), ("eps", reg.tok(em.eps)), ("frequency", reg.tok(em.frequency))]
                line = f"eff {fspec(d)} {env_s(layer_env(em.layer, names, reg))} {env_s(avail)}"
                calls, res = run_recorded(d, em.effective_permittivity)
                out = impl_line(d, calls, res, reg)
                co.note(f"emmodel.iba: {name} on {kind}")
                co.add("emmodel.iba", line, out, C.EXACT, desc=dict(fn=name, path="iba", layer=js(spec), frequency=freq), post=make_post(d, reg, passive=True))


def passive_cases(ctx, co):
    """the sign test of the mixin on prescribed imaginary parts"""
    from smrt.emmodel.common import AdjustableEffectivePermittivityMixins
    from smrt.core.layer import Layer, layer_properties
    rng = ctx.np
    ims = [0.0, -1e-10, -1.0000001e-10, -0.9999999e-10, 1e-10, -1e-9, -1e-11, 5.0] + [float(-10.0 ** rng.uniform(-12, -8)) for _ in range(ctx.n(10, 60))]
    for im in ims:
        fn = layer_properties()(lambda im=im: complex(2.0, im))
        em = type("Em", (AdjustableEffectivePermittivityMixins,), {"effective_permittivity_model": staticmethod(fn)})()
        em.layer, em.e0, em.eps, em.frequency = Layer(1.0), 1.0, 3.0, 1e9
        try:
            em.effective_permittivity()
            out = "ok"
        except Exception as e:  # noqa
            out = C.err_kind(e)
        co.add("emmodel.passive", "passive " + f2t(im), out, C.EXACT, desc={"im": im})


# =============================================================================================
# the property itself on the implementation (independent of the Lean model)

def same_value(a, b):
    a, b = np.asarray(a, dtype=complex), np.asarray(b, dtype=complex)
    return a.shape == b.shape and bool(np.all((a == b) | (np.isnan(a) & np.isnan(b))))


def outcome(thunk):
    try:
        return ("ok", thunk())
    except Exception as e:  # noqa
        return ("err", e)


def show(res):
    if res[0] == "err":
        return "raises " + type(res[1]).__name__ + ": " + str(res[1])[:120]
    return C.jsonable(np.asarray(res[1], dtype=complex).ravel().tolist())


def check_case(case):
    """C14 on one input: value through the layer = direct call with the layer's attribute values; a missing required
    attribute is reported by an exception that names it.  Returns None or (key suffix, what, observed, required)."""
    d = table()["decls"][case["fn"]]
    fn, orig = d["fn"], d["orig"]
    lay = build_layer(case["layer"])
    freq = case["frequency"]
    path = case["path"]
    extra = {k: resolve(v) for k, v in case.get("extra", {}).items()}
    pos = [freq] if d["params"][:1] == ["frequency"] else []
    if path == "perm":
        i = case.get("i", 0)
        if case.get("install", True):
            pm = [1.0, 1.0]; pm[i] = fn
            lay.__dict__["permittivity_model"] = tuple(pm)
        through = outcome(lambda: lay.permittivity(i, freq))
        extra = {}
    elif path == "inj":
        through = outcome(lambda: fn(*pos, layer_to_inject=lay, **extra))
    elif path in ("eff", "iba"):
        if path == "iba":
            from smrt.emmodel.iba import derived_IBA
            from smrt.inputs import sensor_list
            holder = {}

            def thunk():
                holder["em"] = derived_IBA(fn)(sensor_list.passive(freq, 40.), lay)
                return holder["em"].effective_permittivity()
            through = outcome(thunk)
            if "em" not in holder:            # the emmodel could not be built (it evaluates the formula, and more, while it is built): refused
                return None
            em = holder["em"]
        else:
            from smrt.emmodel.common import AdjustableEffectivePermittivityMixins
            em = type("Em", (AdjustableEffectivePermittivityMixins,), {"effective_permittivity_model": staticmethod(fn)})()
            em.layer, em.frequency = lay, freq
            em.e0, em.eps = extra.get("e0", 1.0), extra.get("eps", 3.0 + 0.01j)
        if path != "iba":
            through = outcome(em.effective_permittivity)
        pos = []
        extra = {k: v for k, v in dict(e0=em.e0, eps=em.eps, frequency=em.frequency).items() if k in d["params"]}
        lay = em.layer
    else:
        raise KeyError(path)
    missing = [r for r in d["required"] if not hasattr(lay, r)]
    if missing:
        if through[0] == "ok":
            return ("missing-required-silent", f"required attribute(s) {missing} absent from the layer but a value is returned", show(through),
                    "an exception naming the missing attribute")
        e = through[1]
        if isinstance(e, (TypeError, AssertionError)) and path == "perm" and d["params"][:1] != ["frequency"]:
            return None
        if not any(f"'{r}'" in str(e) for r in missing):
            return ("missing-required-unclear", f"required attribute(s) {missing} absent: the exception does not name any of them",
                    show(through), "an exception naming the missing attribute")
        return None
    attrs = {p: getattr(lay, p) for p in layer_params(d) if hasattr(lay, p)}
    # the optional properties the documentation lists reach the formula whenever the formula has such a parameter and the layer carries
    # the attribute - whatever the decorator's declaration says today
    import inspect
    try:
        sig = set(inspect.signature(orig).parameters)
    except (TypeError, ValueError):
        sig = set()
    for p_ in DOCUMENTED_OPTIONAL:
        if p_ in sig and p_ not in attrs and hasattr(lay, p_):
            attrs[p_] = getattr(lay, p_)
    kw = dict(extra)
    kw.update(attrs)                                   # the layer's values override the caller's
    if pos:
        kw.pop("frequency", None)
    direct = outcome(lambda: orig(*pos, **kw))
    if through[0] == "err" and direct[0] == "err":
        if type(through[1]) is type(direct[1]):
            return None
        return ("error-differs", "the call through the layer and the direct call fail differently", show(through), show(direct))
    if through[0] == "ok" and direct[0] == "ok":
        if same_value(through[1], direct[1]):
            return None
        # which attribute did not reach the formula?
        lost = []
        for a in attrs:
            alt = outcome(lambda: orig(*pos, **{k: v for k, v in kw.items() if k != a}))
            if alt[0] == "ok" and same_value(alt[1], through[1]):
                lost.append(a)
        return ("layer-attribute-not-injected", f"value through the layer differs from the direct call with the layer's attributes"
                + (f"; it equals the direct call without {lost} (the layer's {lost} never reaches the formula)" if lost else ""),
                show(through), show(direct))
    if path in ("eff", "iba") and through[0] == "err" and type(through[1]).__name__ in ("SMRTError", "ValueError") and direct[0] == "ok":
        try:
            if direct[1].imag < -1e-10:
                return None                              # the mixin's own sign test
        except Exception:  # noqa
            return None
    return ("error-differs", "one of the two calls fails, the other returns a value", show(through), show(direct))


DOCUMENTED_OPTIONAL = ["inclusion_shape", "mixing_ratio", "brine_inclusion_shape", "brine_mixing_ratio", "ice_permittivity_model",
                       "brine_permittivity_model", "water_permittivity_model", "depol_xyz", "length_ratio"]


def check_update_sequence(seed):
    """a layer evaluated, then changed through its documented update() / attribute assignment, then evaluated again: the second value is
    that of a layer built with the new parameters (what the layer returns is a function of its current attributes)"""
    from smrt import make_snow_layer
    rng = np.random.default_rng(seed)
    f = float(rng.choice([1.4e9, 10.65e9, 19e9, 37e9]))
    dens = r3(rng, 200, 450)
    mk = lambda **kw: make_snow_layer(1.0, "homogeneous", density=dens, temperature=273.15, **kw)
    vlw = r3(rng, 0.01, 0.08)
    for what, change, fresh in (("update(volumetric_liquid_water)", lambda l: l.update(volumetric_liquid_water=vlw), lambda: mk(volumetric_liquid_water=vlw)),
                                ("update(density) of wet snow", None, None)):
        if change is None:
            lay = mk(volumetric_liquid_water=vlw); d2 = r3(rng, 200, 450)
            change = lambda l: l.update(density=d2)
            fresh = lambda: make_snow_layer(1.0, "homogeneous", density=d2, temperature=273.15, volumetric_liquid_water=vlw)
        else:
            lay = mk()
        before = [complex(lay.permittivity(i, f)) for i in (0, 1)]
        change(lay)
        got = [complex(lay.permittivity(i, f)) for i in (0, 1)]
        want = [complex(fresh().permittivity(i, f)) for i in (0, 1)]
        if not all(abs(a - b) <= 1e-12 * abs(b) for a, b in zip(got, want)):
            return ("layer:stale-after-update", f"snow layer (density {dens}) evaluated at {f:g} Hz, then {what}, then evaluated again: {got} but a "
                    f"layer built with the new parameters gives {want}", str(got), str(want))
    return None


def check_ctor_reaches(it, shape, ratio, f=10e9, T=262.0, S=0.004):
    """what the user hands to make_ice_layer is what the formulas see through the layer: the brine inclusion shape (and mixing ratio) of
    multi-year ice reaches saline_ice_permittivity_pvs_mixing, that of first-year ice is the layer's inclusion shape"""
    from smrt.inputs.make_medium import make_ice_layer
    from smrt.permittivity.saline_ice import saline_ice_permittivity_pvs_mixing as pvs
    shp = resolve(shape)
    kw = dict(brine_inclusion_shape=shp)
    if isinstance(shp, tuple):
        kw["brine_mixing_ratio"] = ratio
    if it == "multiyear":
        kw["porosity"] = 0.08
    lay = make_ice_layer(it, 1.0, temperature=T, salinity=S, microstructure_model="exponential", corr_length=2e-4, **kw)
    for k in ("brine_inclusion_shape", "brine_mixing_ratio"):
        if k in kw and (not hasattr(lay, k) or getattr(lay, k) != kw[k]):
            return ("make_medium.make_ice_layer:argument-not-stored", f"make_ice_layer('{it}', {k}={kw[k]!r}): the layer carries "
                    f"{getattr(lay, k, '<nothing>')!r}", repr(getattr(lay, k, None)), repr(kw[k]))
    if it == "firstyear" and lay.inclusion_shape != shp:
        return ("make_medium.make_ice_layer:argument-not-stored", f"make_ice_layer('firstyear', brine_inclusion_shape={shp!r}): the inclusions of "
                f"first-year ice are the brine pockets but the layer's inclusion_shape is {lay.inclusion_shape!r}", repr(lay.inclusion_shape), repr(shp))
    if it == "multiyear":
        through = outcome(lambda: lay.permittivity(0, f))
        dkw = dict(brine_volume_fraction=lay.brine_volume_fraction, brine_inclusion_shape=shp)
        if "brine_mixing_ratio" in kw:
            dkw["brine_mixing_ratio"] = ratio
        direct = outcome(lambda: pvs(f, T, **dkw))
        if through[0] != direct[0] or (through[0] == "ok" and not same_value(through[1], direct[1])):
            return ("saline_ice.saline_ice_permittivity_pvs_mixing:constructor-argument-not-injected",
                    f"make_ice_layer('multiyear', brine_inclusion_shape={shp!r}"
                    + (f", brine_mixing_ratio={ratio}" if "brine_mixing_ratio" in kw else "") + f"): the background permittivity through the layer at "
                    f"{f:g} Hz is not saline_ice_permittivity_pvs_mixing with that shape", show(through), show(direct))
    return None


def check_phantom_attributes():
    """a layer property that some formula requires is either set on the layer by its constructor (or computed by a property of the class)
    or absent: a plain class-level default would answer for every layer, so the clear error for a missing property could never be raised"""
    t = table()
    required = sorted({r for d in t["decls"].values() for r in d["required"]})
    out = []
    for label, fname, kw in CTOR_VARIANTS:
        from smrt.inputs import make_medium
        lay = getattr(make_medium, fname)(**kw)
        own = set(visible_attributes(lay))
        for r in required:
            if hasattr(lay, r) and r not in own:
                users = sorted(n for n, d in t["decls"].items() if r in d["required"])[:3]
                out.append(("layer:phantom-required-property", f"a {label} layer answers '{r}' = {getattr(lay, r)!r} although its constructor never set it "
                            f"(class-level default): formulae requiring it ({', '.join(users)}...) can no longer fail with the clear error",
                            f"hasattr(layer, '{r}') is True", "absent (a clear error when a formula needs it)"))
    return out


def check_dense_auto(density, formula_name, option):
    """an emmodel that works on another medium than the layer it was given (dense_snow_correction="auto": the phase-inverted twin above one
    half) resolves the arguments of its mixing formula from the medium it works with: effective_permittivity() is the direct call of the
    formula with the emmodel's own frac_volume, e0, eps and inclusion_shape"""
    from smrt.emmodel.iba import IBA, derived_IBA
    from smrt.inputs import sensor_list
    from smrt.inputs.make_medium import make_snow_layer
    from smrt.permittivity import generic_mixing_formula as g
    formula = getattr(g, formula_name)
    cls = IBA if formula_name == "polder_van_santen" else derived_IBA(formula)
    lay = make_snow_layer(1.0, "exponential", density=density, temperature=260.0, corr_length=1e-4)
    em = cls(sensor_list.passive(19e9, 53.), lay, dense_snow_correction=option)
    got = complex(em.effective_permittivity())
    kw = dict(e0=em.e0, eps=em.eps)
    if formula_name in ("polder_van_santen", "maxwell_garnett", "bruggeman"):
        kw["inclusion_shape"] = getattr(em, "inclusion_shape", None)
    want = complex(np.squeeze(formula(em.frac_volume, **kw)))
    if not abs(got - want) <= 1e-12 * abs(want):
        return ("emmodel.iba:works-on-other-medium", f"IBA({formula_name}, dense_snow_correction={option!r}) on snow of density {density}: effective_permittivity() = {got} "
                f"but {formula_name}(frac_volume={em.frac_volume:.4f}, e0={em.e0}, eps={em.eps}) = {want}", str(got), str(want))
    return None


def finding_of(case, r):
    d = table()["decls"][case["fn"]]
    key = f"{d['module']}.{d['name']}:{r[0]}"
    return Finding(key, f"{d['name']} [{case['path']}]: {r[1]}", C.jsonable(case), r[2], r[3])


def witness_cases():
    """layers exactly as the constructors return them (no attribute edited), through Layer.permittivity"""
    out = []
    for shape in ("random_needles", {"$dict": {"spheres": 0.3, "random_needles": 0.7}}, "spheres"):
        for it, fnname, i in (("multiyear", "saline_ice_permittivity_pvs_mixing", 0), ("firstyear", "ice_permittivity_maetzler06", 0),
                              ("firstyear", "brine_permittivity_stogryn85", 1)):
            out.append(dict(fn=fnname, path="perm", i=i, install=False, frequency=10e9,
                            layer=dict(ctor="make_ice_layer", args=dict(ice_type=it, layer_thickness=1.0, temperature=260.0, salinity=0.002,
                                                                        microstructure_model="homogeneous", brine_inclusion_shape=shape))))
    out.append(dict(fn="wetice_permittivity_bohren83", path="perm", i=1, install=False, frequency=19e9,
                    layer=dict(ctor="make_snow_layer", args=dict(layer_thickness=1.0, microstructure_model="homogeneous", density=320.0,
                                                                 temperature=273.15, volumetric_liquid_water=0.03))))
    out.append(dict(fn="seawater_permittivity_klein76", path="perm", i=0, install=False, frequency=1.4e9,
                    layer=dict(ctor="make_water_layer", args=dict(layer_thickness=10.0, temperature=275.0, salinity=0.034))))
    return out


def pinned_declarations():
    """required / optional layer properties of every layer-aware function as declared in the audited tree (committed, never regenerated
    at run time): what "required" means in the statement does not move with the code"""
    import pathlib
    f = pathlib.Path(__file__).resolve().parent / "pinned" / "C14_declarations.json"
    return json.loads(f.read_text()) if f.exists() else {}


def check_pinned_required(name, d, prop, rng):
    """a property that the audited tree declares as required is absent from the layer: a clear error, never a silent fall-back"""
    out = []
    for kind, base in base_layers(rng).items():
        spec = json.loads(json.dumps(base))
        try:
            lay = build_layer(spec)
        except Exception:  # noqa
            continue
        st = {r: required_value(rng, r) for r in d["required"] if not hasattr(lay, r) and r != prop}
        spec["set"], spec["del"] = st, [prop]
        try:
            lay = build_layer(spec)
        except Exception:  # noqa
            continue
        if hasattr(lay, prop):
            continue
        pos = [10e9] if d["params"][:1] == ["frequency"] else []
        extra = {p: complex(3.0, 0.1) for p in ("e0", "eps") if p in d["params"]}
        through = outcome(lambda: d["fn"](*pos, layer_to_inject=lay, **extra))
        if through[0] == "ok":
            out.append(("missing-required-silent", f"'{prop}' (a required layer property of {name} in the audited tree) is absent from a {kind} layer but a "
                        f"value is returned", show(through), "an exception naming the missing attribute", kind))
            break
    return out


def oracle(ctx, hints, effort):
    C.import_smrt()
    rng = ctx.np
    t = table()
    findings, evals = [], 0
    pinned = pinned_declarations()
    for name, d in t["decls"].items():
        if d["fn"] is None or name not in pinned:
            continue
        for prop in sorted(set(pinned[name]["required"]) - set(d["required"])):
            evals += 1
            for r in check_pinned_required(name, d, prop, rng):
                findings.append(Finding(f"{d['module']}.{d['name']}:{r[0]}", f"{d['name']}: {r[1]}", {"kind": "pinned-required", "fn": name, "prop": prop},
                                        r[2], r[3]))

    for density in (250.0, round(float(rng.uniform(480, 600)), 1), round(float(rng.uniform(600, 850)), 1)):
        for fname in ("polder_van_santen", "maxwell_garnett"):
            for option in (None, "auto"):
                evals += 1
                try:
                    r = check_dense_auto(density, fname, option)
                except (AssertionError, Warning):
                    r = None
                except Exception as e:  # noqa
                    from smrt.core.error import SMRTError
                    r = None if isinstance(e, SMRTError) else ("emmodel.iba:works-on-other-medium", f"IBA({fname}, dense_snow_correction={option!r}) on snow of density "
                                                               f"{density} raises {type(e).__name__}: {str(e)[:120]}", type(e).__name__, "a value")
                if r:
                    findings.append(Finding(r[0], r[1], {"kind": "dense-auto", "density": density, "formula": fname, "option": option}, r[2], r[3]))

    def run(case):
        nonlocal evals
        evals += 1
        try:
            r = check_case(case)
        except Exception as e:  # noqa  (the case could not be built: not an input of the property)
            return
        if r is not None:
            findings.append(finding_of(case, r))

    for h in hints or []:                               # cases on which model and implementation disagreed
        desc = h.get("desc") if isinstance(h, dict) else None
        if isinstance(desc, dict) and desc.get("fn") in t["decls"] and desc.get("path") in ("perm", "inj", "eff", "iba"):
            case = dict(fn=desc["fn"], path=desc["path"], layer=desc["layer"], frequency=desc.get("frequency", 10e9))
            if desc["path"] == "perm":
                case["i"] = desc.get("i", 0) if desc.get("i", 0) in (0, 1) else 0
            if desc["path"] == "inj":
                case["extra"] = {k: v for k, v in desc.get("kw", {}).items() if k in t["decls"][desc["fn"]]["params"]}
            if desc["path"] == "eff":
                case["extra"] = dict(e0=desc.get("e0", 1.0), eps=desc.get("eps", 3.0))
            run(case)
    for case in witness_cases():
        run(case)
    evals += len(CTOR_VARIANTS)
    for r in check_phantom_attributes():
        if r[0] not in {f.key for f in findings}:
            findings.append(Finding(r[0], r[1], {"kind": "phantom"}, r[2], r[3]))
    for it in ("multiyear", "firstyear"):
        for shape in SHAPES:
            evals += 1
            ratio = r3(rng, 0.1, 0.9)
            r = check_ctor_reaches(it, shape, ratio)
            if r is not None:
                findings.append(Finding(r[0], r[1], {"kind": "ctor-reaches", "ice_type": it, "shape": shape, "ratio": ratio}, r[2], r[3]))
    # an emmodel built on a formula whose required property the layer lacks: refused, whatever the theory's own default formula is
    for name, d in t["decls"].items():
        if d["fn"] is None or not d["required"]:
            continue
        for kind, base in base_layers(rng, ["make_snow_layer", "make_ice_layer:fresh", "make_ice_layer:firstyear", "make_water_layer"]).items():
            try:
                lay0 = build_layer(json.loads(json.dumps(base)))
            except Exception:  # noqa
                continue
            if all(hasattr(lay0, r_) for r_ in d["required"]) or not hasattr(lay0, "microstructure"):
                continue
            b = json.loads(json.dumps(base))
            if kind != "make_water_layer":
                b["args"].update(microstructure_model="exponential", corr_length=2e-4)
                b["args"].pop("radius", None); b["args"].pop("stickiness", None)
            run(dict(fn=name, path="iba", layer=b, frequency=19e9))
    for _ in range(3 if effort == "routine" else 20):
        evals += 1
        sd = int(rng.integers(0, 2**31))
        try:
            r = check_update_sequence(sd)
        except Exception:  # noqa
            r = None
        if r is not None:
            findings.append(Finding(r[0], r[1], {"kind": "update-sequence", "seed": sd}, r[2], r[3]))
    # layers carrying a list of inclusion shapes together with a mixing ratio (the documented way to mix shapes), through every path
    for name, d in t["decls"].items():
        if d["fn"] is None or "inclusion_shape" not in d["params"] or "mixing_ratio" not in d["params"]:
            continue
        for _ in range(2 if effort == "routine" else 10):
            spec = dict(ctor="make_snow_layer", args=dict(layer_thickness=1.0, microstructure_model="homogeneous", density=r3(rng, 150, 500),
                                                          temperature=265.0, inclusion_shape={"$tuple": ["spheres", "random_needles"]},
                                                          mixing_ratio=r3(rng, 0.1, 0.9)))
            extra = {p: {"$complex": [r3(rng, 1, 80), r3(rng, 0, 30)]} for p in ("e0", "eps") if p in d["params"]}
            run(dict(fn=name, path="inj", layer=spec, frequency=10e9, extra=extra))
            run(dict(fn=name, path="eff", layer=spec, frequency=10e9, extra=extra))
    nlay = 1 if effort == "routine" else 6
    for name, d in t["decls"].items():
        if d["fn"] is None:
            continue
        opts = optional_names(d)
        for _ in range(nlay):
            for kind, base in base_layers(rng).items():
                subs = list(subsets(opts))
                if effort == "routine" and len(subs) > 4:
                    subs = [subs[0], subs[-1]] + [subs[int(j)] for j in rng.choice(len(subs), 2, replace=False)]
                for sub in subs:
                    try:
                        spec = tampered(rng, d, base, sub, drop_required=0.1)
                    except Exception:  # noqa
                        continue
                    freq = r3(rng, 1, 100) * 1e9
                    extra = {p: {"$complex": [r3(rng, 1, 80), r3(rng, 0, 30)]} for p in ("e0", "eps") if p in d["params"]}
                    xinj = dict(extra)
                    if rng.random() < 0.3:            # the caller's keyword collides with a layer attribute: the layer's value wins
                        n = pick(rng, d["required"] + opts)
                        xinj[n] = required_value(rng, n) if n in d["required"] else optional_value(rng, n)
                    run(dict(fn=name, path="inj", layer=spec, frequency=freq, extra=xinj))
                    if d["params"][:1] == ["frequency"]:
                        run(dict(fn=name, path="perm", i=int(rng.integers(0, 2)), layer=spec, frequency=freq))
                    run(dict(fn=name, path="eff", layer=spec, frequency=freq, extra=extra))
    # inside a real emmodel
    for _ in range(2 if effort == "routine" else 10):
        for kind, base in base_layers(rng, ["make_snow_layer", "make_ice_layer:firstyear", "make_ice_layer:multiyear"]).items():
            base = json.loads(json.dumps(base))
            base["args"].update(microstructure_model="exponential", corr_length=r3(rng, 5e-5, 4e-4))
            base["args"].pop("radius", None); base["args"].pop("stickiness", None)
            for name in (MIXING if kind == "make_snow_layer" else MIXING[:1]):
                if t["decls"].get(name, {}).get("fn") is not None:
                    run(dict(fn=name, path="iba", layer=base, frequency=r3(rng, 1, 90) * 1e9))
    best = {}
    for f in findings:                                  # one finding per defect site, the smallest input
        if f.key not in best or len(json.dumps(f.inp)) < len(json.dumps(best[f.key].inp)):
            best[f.key] = f
    return list(best.values()), evals


def replay(inp, rp=None):
    C.import_smrt()
    if inp.get("kind") == "pinned-required":
        d = table()["decls"][inp["fn"]]
        rs = check_pinned_required(inp["fn"], d, inp["prop"], np.random.default_rng(0))
        return Finding(f"{d['module']}.{d['name']}:{rs[0][0]}", rs[0][1], inp, rs[0][2], rs[0][3]) if rs else None
    if inp.get("kind") == "dense-auto":
        r = check_dense_auto(inp["density"], inp["formula"], inp["option"])
        return None if r is None else Finding(r[0], r[1], inp, r[2], r[3])
    if inp.get("kind") == "phantom":
        rs = check_phantom_attributes()
        return Finding(rs[0][0], rs[0][1], inp, rs[0][2], rs[0][3]) if rs else None
    if inp.get("kind") == "ctor-reaches":
        r = check_ctor_reaches(inp["ice_type"], inp["shape"], inp["ratio"])
        return None if r is None else Finding(r[0], r[1], inp, r[2], r[3])
    if inp.get("kind") == "update-sequence":
        r = check_update_sequence(inp["seed"])
        return None if r is None else Finding(r[0], r[1], inp, r[2], r[3])
    r = check_case(inp)
    return None if r is None else finding_of(inp, r)
