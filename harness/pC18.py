"""C18 — altimeter waveforms are non-negative, additive and sampling-consistent: correspondence harness and oracle."""
import itertools, math, json
import numpy as np
import common as C
from common import Corr, Tol, Finding, f2t, fs

PROP = "C18"
DRIVER = "C18"
LEAN_TARGETS = ["SmrtVerif.Props.C18", "SmrtVerif.Driver.C18"]
TRUSTED = ["correspondence harness harness/pC18.py and driver SmrtVerif/Driver/C18.lean",
           "inputs of the model taken from smrt and not re-derived: emmodel scalars (Re eps_eff, ke, backward phase value), interface "
           "coherent transmission / diffuse backscatter values, gate depths of gate_depth() (np.interp, ceil), the PFS_PTR_PDF vector "
           "of Brown1977 (erf)",
           "np.argsort keeps the order of the concatenation on ties (layer boundary before gate at z = 0)",
           "scipy.signal.convolve (direct or FFT) is the discrete full convolution; np.interp is linear interpolation; np.mean is sum/n",
           "real arithmetic in the theorems vs IEEE doubles in the code (rounding not modelled)"]
ASSUMPTIONS = ["ke > 0 in every layer (a lossless non-scattering layer divides 0 by 0 in the code)",
               "layer boundaries and gate depths ascending; the last gate lies below the snowpack bottom (gate_depth guarantees it)",
               "nadir-looking sensor, Brown1977 waveform model (the default), no surface slope"]
RULE = ("1-6-layer snowpacks (iba + exponential, or nonscattering), flat / geometrical_optics_backscatter interfaces, no / flat / "
        "geometrical-optics substrate, every altimeter of altimeter_list, oversampling 1-20, theta_inc_sampling over divisors of ngate "
        "(and a few non-divisors), all 16 flag combinations, sigma_surface 0-1 m; distinct = distinct (slice, input line)")

TOL = Tol(1e-9, 0.0, scale="line")
FLAGS = ("return_contributions", "return_oversampled", "skip_pfs_convolution", "return_theta_inc_sampling")

ALTIMETERS = ["envisat_ra2:Ku", "envisat_ra2:S", "sentinel3_sral:Ku", "saral_altika", "cryosat2_lrm", "cryosat2_sin", "asiras_lam"]


# ---------------------------------------------------------------------------------------------
# building cases (a case is a JSON-able dict; `build` makes the smrt objects)

def make_sensor(name):
    from smrt.inputs import altimeter_list
    if ":" in name:
        fn, ch = name.split(":")
        return getattr(altimeter_list, fn)(ch)
    if name == "asiras_lam":
        return altimeter_list.asiras_lam(altitude=1100.0)
    return getattr(altimeter_list, name)()


def make_iface(spec):
    from smrt import make_interface
    if spec == "flat":
        return make_interface("flat")
    kind, mss = spec.split(":")
    assert kind == "go"
    return make_interface("geometrical_optics_backscatter", mean_square_slope=float(mss))


def build(case):
    """(sensor, snowpack, emmodel instances) of a case"""
    from smrt import make_snowpack, make_model, make_soil
    sensor = make_sensor(case["alt"])
    sub = None
    if case["substrate"] is not None:
        kind = case["substrate"]
        if kind == "flat":
            sub = make_soil("flat", complex(*case["sub_eps"]), temperature=265)
        else:
            sub = make_soil("geometrical_optics_backscatter", complex(*case["sub_eps"]), temperature=265,
                            mean_square_slope=float(kind.split(":")[1]))
    nl = len(case["thickness"])
    kw = dict(density=case["density"], temperature=case["temperature"], interface=[make_iface(s) for s in case["interfaces"]], substrate=sub)
    if case["emmodel"] == "iba":
        sp = make_snowpack(case["thickness"], "exponential", corr_length=case["corr_length"], **kw)
    else:
        sp = make_snowpack(case["thickness"], "homogeneous", **kw)
    if case.get("sigma_surface") is not None:
        sp.sigma_surface = case["sigma_surface"]
    model = make_model(case["emmodel"], "nadir_lrm_altimetry")
    emmodels = model.prepare_emmodels(sensor, sp)
    return sensor, sp, emmodels


def new_solver(opts):
    from smrt.rtsolver.nadir_lrm_altimetry import NadirLRMAltimetry
    return NadirLRMAltimetry(**opts)


def run_impl(case, opts, objs=None):
    """solve() on the real code -> AltimetryResult (exceptions propagate)"""
    sensor, sp, emmodels = objs or build(case)
    return new_solver(opts).solve(sp, emmodels, sensor)


def rand_case(rng, alt=None, nl=None, deep=False):
    alt = alt or ALTIMETERS[int(rng.integers(len(ALTIMETERS)))]
    nl = nl or int(rng.integers(1, 7))
    total = float(rng.uniform(60, 150)) if deep else float(rng.choice([0.3, 2.0, 8.0, 20.0]))
    th = rng.uniform(0.2, 1.0, nl); th = (th / th.sum() * total * rng.uniform(0.5, 1.0)).round(4)
    emmodel = "iba" if rng.random() < 0.8 else "nonscattering"
    ifs = [("flat" if rng.random() < 0.5 else "go:%.3f" % rng.uniform(0.005, 0.08)) for _ in range(nl)]
    r = rng.random()
    sub = None if r < 0.35 else ("flat" if r < 0.55 else "go:%.3f" % rng.uniform(0.005, 0.08))
    return dict(alt=alt, thickness=th.tolist(), density=rng.uniform(150, 550, nl).round(1).tolist(),
                corr_length=rng.uniform(5e-5, 6e-4, nl).round(7).tolist(), temperature=round(float(rng.uniform(220, 272)), 2),
                emmodel=emmodel, interfaces=ifs, substrate=sub, sub_eps=[round(float(rng.uniform(3, 12)), 2), round(float(rng.uniform(0.01, 1)), 3)],
                sigma_surface=(None if rng.random() < 0.3 else float(rng.choice([0.0, 0.05, 0.3, 1.0]) if rng.random() < 0.5 else round(float(rng.uniform(0, 1)), 3))))


def divisors(n):
    return [d for d in range(1, n + 1) if n % d == 0]


def rand_opts(rng, ngate, big=False, flags=None):
    os_ = int(rng.integers(1, 21)) if big else int(rng.choice([1, 1, 2, 3, 4, 5]))
    r = rng.random()
    if r < 0.45:
        tis = 1
    elif r < 0.92:
        tis = int(rng.choice([d for d in divisors(ngate) if 1 < d <= 32]))
    else:
        tis = int(rng.choice([0, 3, 5, 7]))         # 0: nadir only; 3,5,7: not a divisor of a power of two -> SMRTError
    if flags is None:
        flags = [bool(rng.random() < 0.5), bool(rng.random() < 0.5), bool(rng.random() < 0.2), bool(rng.random() < 0.2)]
    o = dict(oversampling=os_, theta_inc_sampling=tis)
    o.update(dict(zip(FLAGS, map(bool, flags))))
    return o


# ---------------------------------------------------------------------------------------------
# the model's inputs, obtained from the same smrt objects with the calls the solver makes

def solver_inputs(case, opts, objs):
    from smrt.core.globalconstants import C_SPEED
    from smrt.rtsolver.waveform_model import Brown1977
    sensor, sp, emmodels = objs
    s = new_solver(dict(opts))
    s.snowpack, s.emmodels, s.sensor = sp, emmodels, sensor
    tis, os_ = opts["theta_inc_sampling"], opts["oversampling"]
    ngate = int(sensor.ngate)
    if tis > 1:
        t_inc = np.linspace(0, ngate / sensor.pulse_bandwidth, tis + 1)
        mu_i = 1. / (1. + C_SPEED * t_inc / sensor.altitude)
    else:
        mu_i = np.array([1.0])
    nmu = len(mu_i)
    zg, _ = s.gate_depth()
    eps = np.array([em.effective_permittivity().real for em in emmodels])
    ke = [float(np.mean(em.ke(mu=[1.]).diagonal)) for em in emmodels]
    ph = [float(np.real(np.squeeze(em.phase(mu_s=-1., mu_i=1., dphi=np.pi, npol=2)[0, 0]))) for em in emmodels]
    eps_up = np.insert(eps[:-1], 0, 1.)
    tr = [float(np.real(i.coherent_transmission_matrix(sensor.frequency, e1, e2, mu1=1., npol=2)[0, 0]))
          for i, e1, e2 in zip(sp.interfaces, eps_up, eps)]
    mu_up = np.sqrt(1 - (1 - mu_i[None, :]) / eps_up[:, None]).real
    echo = np.zeros((nmu, len(eps)))
    for k, (i, e1, e2, mu) in enumerate(zip(sp.interfaces, eps_up, eps, mu_up)):
        echo[:, k] = np.broadcast_to(np.squeeze(i.diffuse_reflection_matrix(sensor.frequency, e1, e2, mu_s=mu, mu_i=mu, dphi=np.pi,
                                                                             npol=2).diagonal[0]), (nmu,))
    sub = None
    if sp.substrate is not None:
        mu2 = np.sqrt(1 - (1 - mu_i) / eps[-1]).real
        sub = np.broadcast_to(np.squeeze(sp.substrate.diffuse_reflection_matrix(sensor.frequency, eps[-1], mu_s=mu2, mu_i=mu2, dphi=np.pi,
                                                                                npol=2).diagonal[0]), (nmu,))
    n = ngate * os_
    t_gate = np.arange(0, n) / (sensor.pulse_bandwidth * os_)
    pfs = Brown1977(sensor).PFS_PTR_PDF(t_gate, sigma_surface=getattr(sp, "sigma_surface", 0), surface_slope=0)
    return dict(nl=len(eps), zl=np.asarray(sp.z, float), zg=zg, nmu=nmu, eps=eps, ke=ke, phase=ph, trans=tr, echo=echo, sub=sub,
                pfs=pfs, ngate=ngate, bw=float(sensor.pulse_bandwidth), solver=s, mu_i=mu_i)


def stack_tokens(I):
    t = [fs(I["eps"]), fs(I["ke"]), fs(I["phase"]), fs(I["trans"]), fs(I["echo"])]
    if I["sub"] is not None:
        t.append(fs(I["sub"]))
    return " ".join(t)


def solve_line(I, opts):
    b = lambda k: "1" if opts[k] else "0"
    return (f"solve {I['nl']} {len(I['zg'])} {I['nmu']} {I['ngate']} {opts['oversampling']} {opts['theta_inc_sampling']} "
            f"{b(FLAGS[0])} {b(FLAGS[1])} {b(FLAGS[2])} {b(FLAGS[3])} {1 if I['sub'] is not None else 0} {len(I['pfs'])} {f2t(I['bw'])} "
            f"{fs(I['zl'])} {fs(I['zg'])} {stack_tokens(I)} {fs(I['pfs'])}")


def ser_result(res):
    d = np.asarray(res.data.values, float)
    d = d.reshape(d.shape[0], -1) if "contribution" in res.data.dims else d.reshape(1, -1)
    return f"ok {d.shape[0]} {d.shape[1]} {fs(d)} z {fs(np.asarray(res.z_gate.values, float))}"


def impl(fn):
    try:
        return fn()
    except Exception as e:  # noqa
        return C.err_kind(e)


# ---------------------------------------------------------------------------------------------

def correspond(ctx):
    import scipy.signal
    from smrt.rtsolver import nadir_lrm_altimetry as A
    co = Corr(PROP, DRIVER)
    rng = ctx.np

    # ---- the array helpers on their own
    for _ in range(ctx.n(30, 200)):
        nm = int(rng.integers(1, 30))
        mask = rng.random(nm) < rng.uniform(0.1, 0.9)
        if rng.random() < 0.8:
            mask[0] = True
        a = rng.uniform(0, 3, int(mask.sum()))
        ms = " ".join("1" if b else "0" for b in mask)
        if len(a):
            co.add("fill_forward", f"ff {len(a)} {nm} {fs(a)} {ms}", impl(lambda: fs(A.fill_forward(list(a), mask))), C.EXACT)
            co.add("fill", f"fill {len(a)} {nm} {fs(a)} {ms}", impl(lambda: fs(A.fill(a, mask))), C.EXACT)
        na, nb = int(rng.integers(1, 40)), int(rng.integers(1, 40))
        p, b = rng.uniform(0, 2, na), rng.uniform(0, 2, nb) * (rng.random(nb) < 0.6)
        co.add("convolve", f"conv {na} {nb} {fs(p)} {fs(b)}", fs(scipy.signal.convolve(p, b, mode="full")), Tol(1e-12, 0.0, scale="line"))
        npn = int(rng.integers(2, 12))
        xp = np.cumsum(rng.uniform(0.1, 1, npn)); fp = rng.uniform(0, 2, npn)
        xs = np.concatenate((rng.uniform(xp[0] - 0.5, xp[-1] + 0.5, 6), xp[:2]))
        co.add("interp", f"interp {len(xs)} {npn} {fs(xs)} {fs(xp)} {fs(fp)}", fs(np.interp(xs, xp, fp)), Tol(1e-12))

    # ---- solver cases
    cases = []
    n_rand = ctx.n(46, 500)
    for a in ALTIMETERS:                                   # every predefined altimeter, every layer count
        for nl in ([1, 3, 6] if not ctx.thorough else range(1, 7)):
            cases.append((rand_case(rng, alt=a, nl=nl), False))
    for _ in range(n_rand):
        cases.append((rand_case(rng, deep=rng.random() < 0.08), False))
    for k in range(ctx.n(2, 12)):
        cases.append((rand_case(rng), True))               # large over-sampling (1..20)
    for idx, (case, big) in enumerate(cases):
        objs = build(case)
        ngate = int(objs[0].ngate)
        opts = rand_opts(rng, ngate, big=big)
        if big:
            opts["skip_pfs_convolution"] = bool(rng.random() < 0.5)
            if ngate > 128:
                opts["oversampling"] = min(opts["oversampling"], 6)
        elif ngate * opts["oversampling"] > 640 and not ctx.thorough:
            opts["oversampling"] = max(1, 640 // ngate)    # quick tier: keep the interpreted double sum small
        I = solver_inputs(case, opts, objs)
        desc = {"case": case, "opts": opts}
        co.note(f"alt {case['alt']}"); co.note(f"layers {I['nl']}"); co.note(f"emmodel {case['emmodel']}")
        co.note(f"oversampling {opts['oversampling']}"); co.note("tis " + ("1" if opts['theta_inc_sampling'] <= 1 else ">1"))
        co.note("substrate " + str(case["substrate"]).split(":")[0]); co.note("flags " + "".join("1" if opts[f] else "0" for f in FLAGS))
        co.note("gates deeper than window" if len(I["zg"]) > ngate * opts["oversampling"] else "gates within window")
        # combined grid
        s = I["solver"]; s.z_gate = I["zg"]
        zt, dz, bg, bl, bi = s.combined_depth_grid()
        bs = lambda m: " ".join("1" if x else "0" for x in m)
        co.add("grid", f"grid {I['nl']} {len(I['zg'])} {fs(I['zl'])} {fs(I['zg'])}",
               f"{fs(zt)} | {fs(dz)} | {bs(bg)} | {bs(bl)} | {bs(bi)}", Tol(1e-12), desc=desc)
        # vertical scattering distribution (both forms when one incidence sample)
        for contrib in ([True, False] if I["nmu"] == 1 else [True]):
            def vsd():
                s.return_contributions = contrib
                out = np.atleast_2d(s.vertical_scattering_distribution(return_contributions=contrib, mu_i=I["mu_i"]))
                return f"{out.shape[0]} {out.shape[1]} {fs(out)}"
            co.add("vsd", f"vsd {I['nl']} {len(I['zg'])} {I['nmu']} {1 if contrib else 0} {1 if I['sub'] is not None else 0} "
                   f"{fs(I['zl'])} {fs(I['zg'])} {stack_tokens(I)}", impl(vsd), TOL, desc=desc)
        # solve
        out = impl(lambda: ser_result(run_impl(case, opts, objs)))
        co.note("solve -> " + (out if out.startswith("ERR") else "ok"))
        co.add("solve", solve_line(I, opts), out, TOL, desc=desc)
        # the same case with the remaining flag combinations (cheap ones: no convolution or small)
        if idx % 6 == 0:
            for fl in itertools.product([False, True], repeat=4):
                o2 = dict(opts); o2.update(dict(zip(FLAGS, fl)))
                cap = 640 if ctx.thorough else 256
                if ngate * o2["oversampling"] > cap:
                    o2["oversampling"] = max(1, cap // ngate)
                I2 = solver_inputs(case, o2, objs)
                out = impl(lambda: ser_result(run_impl(case, o2, objs)))
                co.note("solve -> " + (out if out.startswith("ERR") else "ok"))
                co.add("solve.flags", solve_line(I2, o2), out, TOL, desc={"case": case, "opts": o2})
    return co


# ---------------------------------------------------------------------------------------------
# the property itself on the implementation

def classify_exception(case, opts, e):
    tis = opts["theta_inc_sampling"]
    rt = opts["return_theta_inc_sampling"] or opts["skip_pfs_convolution"]
    import traceback
    where = [f.name for f in traceback.extract_tb(e.__traceback__)]
    if tis > 1 and "vertical_scattering_distribution" in where and isinstance(e, ValueError):
        return "vsd:bottom-echo-shape", ("theta_inc_sampling > 1 on a snowpack without substrate whose last interface is flat raises "
                                         "ValueError (np.zeros_like of a scalar echo is 0-d and escapes the scalar -> array conversion)")
    if tis > 1 and rt and isinstance(e, ValueError):
        return "solve:return_theta_inc_sampling", ("theta_inc_sampling > 1 with return_theta_inc_sampling or skip_pfs_convolution raises "
                                                   "ValueError (shape / coords mismatch)")
    return "solve:raises:" + type(e).__name__, "solve raises " + type(e).__name__ + ": " + str(e)[:120]


def check_case(case, opts0):
    """evaluate the property on one snowpack/sensor for the given oversampling / theta_inc_sampling, over all 16 flag
    combinations.  returns a list of (key, what, opts, observed, required)"""
    from smrt.core.error import SMRTError
    bad = []
    objs = build(case)
    sensor = objs[0]
    res = {}
    for fl in itertools.product([False, True], repeat=4):
        o = dict(opts0); o.update(dict(zip(FLAGS, fl)))
        try:
            r = run_impl(case, o, objs)
            d = np.asarray(r.data.values, float)
            res[fl] = d.reshape(d.shape[0], -1) if "contribution" in r.data.dims else d.reshape(1, -1)
        except SMRTError:
            if o["theta_inc_sampling"] > 1 and sensor.ngate % o["theta_inc_sampling"] != 0:
                continue                               # documented refusal
            raise
        except Exception as e:  # noqa
            key, what = classify_exception(case, o, e)
            bad.append((key, what, o, "raises " + type(e).__name__, "a waveform"))
    os_ = opts0["oversampling"]
    for fl, d in res.items():
        o = dict(opts0); o.update(dict(zip(FLAGS, fl)))
        scale = float(np.abs(d).max()) if d.size else 0.0
        if not np.all(np.isfinite(d)):
            I = solver_inputs(case, o, objs)
            order = np.argsort(np.concatenate((I["zl"], I["zg"])))
            if order[0] != 0:
                bad.append(("grid:unstable-argsort", "waveform is NaN: np.argsort (default, not stable) in combined_depth_grid sorts the gate at "
                            "z = 0 before the surface, fill_forward then propagates NaN", o, "nan", "finite values"))
            else:
                bad.append(("waveform:not-finite", "waveform contains NaN/inf", o, "nan", "finite values"))
            continue
        if d.min() < -1e-12 * scale:
            bad.append(("waveform:negative", "negative waveform entry", o, float(d.min()), ">= 0"))
        rc, ro, sk, rt = fl
        if rc:
            err = float(np.abs(d[0] + d[1] + d[2] - d[3]).max())
            if err > 1e-12 * scale:
                bad.append(("contributions:sum", "surface + interfaces + volume != total", o, err, "<= 1e-12 * max"))
            other = res.get((False, ro, sk, rt))
            if other is not None:
                err = float(np.abs(other[0] - d[3]).max()) if other.shape[1] == d.shape[1] else float("inf")
                if err > 1e-12 * scale:
                    bad.append(("contributions:unseparated", "total of the contributions != waveform computed without separating them",
                                o, err, "<= 1e-12 * max"))
        if not ro and os_ > 1:
            over = res.get((rc, True, sk, rt))
            if over is not None:
                gm = over.reshape(over.shape[0], -1, os_).mean(axis=-1)
                err = float(np.abs(gm - d).max()) if gm.shape == d.shape else float("inf")
                if err > 1e-12 * scale:
                    bad.append(("downsample:gate-mean", "down-sampled waveform != gate mean of the over-sampled one", o, err, "<= 1e-12 * max"))
        if case["emmodel"] == "nonscattering" and case["substrate"] in (None, "flat") and all(i == "flat" for i in case["interfaces"]):
            if scale != 0.0:
                bad.append(("waveform:zero-without-sources", "non-zero waveform without volume scattering or interface echo", o, scale, 0.0))
    return bad


def beer_lambert_case(rng):
    """single homogeneous layer: the gate-integrated volume backscatter must sum to T^2 gamma (1 - exp(-2 ke D)) / (2 ke)"""
    c = rand_case(rng, nl=1)
    c.update(emmodel="iba", interfaces=["flat"], substrate=None, sigma_surface=None)
    c["thickness"] = [round(float(rng.uniform(0.2, 12.0)), 3)]
    return c


def check_beer_lambert(case, os_):
    objs = build(case)
    o = dict(oversampling=os_, theta_inc_sampling=1, return_contributions=True, return_oversampled=True, skip_pfs_convolution=True,
             return_theta_inc_sampling=False)
    I = solver_inputs(case, o, objs)
    r = run_impl(case, o, objs)
    d = np.asarray(r.data.values, float).reshape(4, -1)
    ke, eps, T = I["ke"][0], I["eps"][0], I["trans"][0]
    gamma = I["phase"][0] / (4 * np.pi) / eps
    D = case["thickness"][0]
    n = I["ngate"] * os_
    covered = len(I["zg"]) - 1 <= n          # the whole layer lies inside the gate window
    req = T ** 2 * gamma * (1 - math.exp(-2 * ke * D)) / (2 * ke)
    obs = float(d[2].sum())
    if covered and abs(obs - req) > 1e-6 * abs(req):
        return ("beer-lambert", "volume backscatter of a homogeneous layer does not integrate to the Beer-Lambert closed form",
                o, obs, req)
    return None


def check_beer_lambert_edited(case, os_, d2):
    """the same medium object simulated, its layer thickness edited in place (a sensitivity loop), and simulated again: the second
    profile integrates to the closed form of the thickness it has now"""
    objs = build(case)
    o = dict(oversampling=os_, theta_inc_sampling=1, return_contributions=True, return_oversampled=True, skip_pfs_convolution=True,
             return_theta_inc_sampling=False)
    sensor, sp, emmodels = objs
    _ = sp.bottom_layer_depths, sp.z          # a profile plot between two edits
    run_impl(case, o, objs)
    sp.layers[0].thickness = d2
    case2 = dict(case, thickness=[d2])
    I = solver_inputs(case2, o, objs)
    r = run_impl(case2, o, objs)
    d = np.asarray(r.data.values, float).reshape(4, -1)
    ke, eps, T = I["ke"][0], I["eps"][0], I["trans"][0]
    gamma = I["phase"][0] / (4 * np.pi) / eps
    n = I["ngate"] * os_
    req = T ** 2 * gamma * (1 - math.exp(-2 * ke * d2)) / (2 * ke)
    obs = float(d[2].sum())
    if len(I["zg"]) - 1 <= n and abs(obs - req) > 1e-6 * abs(req):
        return ("beer-lambert:edited", f"layer thickness edited in place from {case['thickness'][0]} to {d2} m between two runs: the volume backscatter does not integrate "
                "to the Beer-Lambert closed form of the new thickness", o, obs, req)
    return None


def _waveform_of(case, opts):
    res = run_impl(case, opts)
    return np.asarray(res.data.values, dtype=float).ravel()


def check_sequence(seq=("envisat_ra2:Ku", "sentinel3_sral:Ku", "cryosat2_lrm")):
    """altimeters that share band, bandwidth and gate count simulated one after the other in one process: each waveform is the one the same
    altimeter gives when it is the first thing simulated in a fresh process (nothing of an earlier simulation survives in the solver)"""
    import subprocess, sys, os
    opts = dict(oversampling=4, theta_inc_sampling=1)
    base = dict(thickness=[3.0], density=[350.0], corr_length=[2e-4], temperature=260.0, emmodel="iba", interfaces=["go:0.02"], substrate=None,
                sub_eps=[9.0, 0.7], sigma_surface=0.1)
    here = [(alt, _waveform_of(dict(base, alt=alt), opts)) for alt in seq]
    code = ("import sys, json; sys.path.insert(0, %r); import common as C; C.import_smrt(); import pC18, numpy as np\n"
            "base, opts = json.loads(sys.argv[1]), json.loads(sys.argv[2])\n"
            "print('WF ' + json.dumps(pC18._waveform_of(base, opts).tolist()))\n") % os.path.dirname(os.path.abspath(__file__))
    for alt, wf in here[1:]:
        p = subprocess.run([sys.executable, "-c", code, json.dumps(dict(base, alt=alt)), json.dumps(opts)], capture_output=True, text=True, timeout=600,
                           env=dict(os.environ))
        line = [l for l in p.stdout.split("\n") if l.startswith("WF ")]
        if not line:
            continue
        fresh = np.array(json.loads(line[0][3:]))
        dev = float(np.abs(wf - fresh).max() / max(1e-300, np.abs(fresh).max()))
        if not dev <= 1e-9:
            return ("sequence:" + alt.split(":")[0], dev, f"<= 1e-9 of the peak (simulated after {seq[0]})")
    return None


def check_analytic_numerical(alt, sigma_surface, os_=8):
    """the analytic PFS*PTR*PDF of the waveform model against the flat-surface response of the same model convolved numerically with a
    Gaussian pulse (pulse_sigma) and a Gaussian distribution of surface heights (a height h is a two-way delay 2h/c), on the solver's
    own time grid; deviation in fraction of the peak (the unchanged package stays below 5.5 % for the satellite altimeters)"""
    from smrt.rtsolver.waveform_model import Brown1977
    from smrt.core.globalconstants import C_SPEED
    sensor = make_sensor(alt)
    n = sensor.ngate * os_
    dt = 1.0 / (sensor.pulse_bandwidth * os_)
    tau = np.arange(n) * dt
    w = Brown1977(sensor)
    ana = np.asarray(w.PFS_PTR_PDF(tau.copy(), sigma_surface=sigma_surface), dtype=float)
    sc = math.sqrt(sensor.pulse_sigma ** 2 + (2 * sigma_surface / C_SPEED) ** 2)
    m = int(math.ceil(6 * sc / dt))
    pfs = np.asarray(w.PFS(np.arange(-m, n + m) * dt), dtype=float)
    x = np.arange(-m, m + 1) * dt
    kern = np.exp(-x ** 2 / (2 * sc ** 2)); kern /= kern.sum()
    num = np.convolve(pfs, kern, mode="same")[m:m + n] / sensor.pulse_bandwidth
    dev = float(np.abs(ana - num).max() / num.max())
    if not dev <= 0.07:
        return ("analytic-vs-numerical:" + alt.split(":")[0], dev, "<= 7 % of the peak")
    # the package's own numerical counterpart (numerical_convolution=True) over the same window: same echo energy (the unchanged package
    # stays within 0.5 % for every predefined altimeter and surface roughness)
    own = np.asarray(Brown1977(sensor, numerical_convolution=True).PFS_PTR_PDF(tau.copy(), sigma_surface=sigma_surface), dtype=float)[:n]
    ratio = float(own.sum() / ana.sum())
    if not abs(ratio - 1) <= 0.015:
        return ("analytic-vs-own-numerical:" + alt.split(":")[0], ratio, "energy ratio numerical / analytic = 1 within 1.5 %")
    # ... and the same shape as the independent numerical convolution above, sample by sample (the unchanged package: to rounding, 0.2 % for cryosat2_lrm, up to
    # a sub-sample delay where the nominal gate falls between two samples: each sample lies between its neighbours' values)
    lo = np.minimum(np.minimum(num[:-2], num[1:-1]), num[2:])
    hi = np.maximum(np.maximum(num[:-2], num[1:-1]), num[2:])
    dev = float(np.maximum(np.maximum(lo - own[1:n - 1], own[1:n - 1] - hi), 0.0).max() / num.max())
    if not dev <= 1e-2:
        return ("own-numerical-vs-numerical:" + alt.split(":")[0], dev, f"within 1 % of the peak of the neighbouring samples at every sample (oversampling {os_})")
    return None


def check_tis_convergence(case, tis_list=(2, 4, 8), ref=32):
    """the echo energy converges as the incidence sampling is refined: every sampling of the list gives the energy of the finest one (the
    unchanged package: within 0.1 % from theta_inc_sampling = 2 on, rough interfaces everywhere)"""
    E = {t: float(_waveform_of(case, dict(oversampling=4, theta_inc_sampling=t)).sum()) for t in list(tis_list) + [ref]}
    worst = max(tis_list, key=lambda t: abs(E[t] / E[ref] - 1))
    dev = abs(E[worst] / E[ref] - 1)
    if not dev <= 0.01:
        return ("convergence:theta_inc_sampling", f"{len(case['thickness'])} layers under geometrical-optics interfaces: the echo energy at theta_inc_sampling = "
                f"{worst} is {E[worst] / E[ref]:.3f} of the one at {ref}", dev, "<= 1 %")
    return None


def to_finding(case, b):
    key, what, o, obs, req = b
    return Finding(key, what, {"case": case, "opts": o, "check": "beer" if key == "beer-lambert" else "flags"}, obs, req)


def oracle(ctx, hints, effort):
    rng = ctx.np
    findings, evals, extra = [], 0, []
    todo = []
    for h in (hints or [])[:20]:
        d = h.get("desc") or {}
        if isinstance(d, dict) and "case" in d:
            todo.append((d["case"], {k: d["opts"][k] for k in ("oversampling", "theta_inc_sampling")}))
    n = (14 if effort == "routine" else 36) * (4 if ctx.thorough else 1)
    for k in range(n):
        case = rand_case(rng, deep=(k % 9 == 8))
        ngate = make_sensor(case["alt"]).ngate
        tis = 1 if k % 3 == 0 else int(rng.choice([d for d in divisors(ngate) if 1 < d <= 32]))
        os_ = int(rng.integers(1, 21)) if k % 2 else int(rng.choice([1, 2, 4]))
        if ngate > 128:
            os_ = min(os_, 8)
        if k == 0:       # smallest configuration with several incidence samples
            case = rand_case(rng, alt="envisat_ra2:Ku", nl=1); case.update(substrate="flat"); tis, os_ = 2, 1
        if k == 1:       # the plain default configuration: flat interfaces, no substrate, default theta_inc_sampling
            case.update(interfaces=["flat"] * len(case["thickness"]), substrate=None); tis = 8
        if k == 2:       # no source at all
            case.update(emmodel="nonscattering", interfaces=["flat"] * len(case["thickness"]), substrate="flat")
        todo.append((case, dict(oversampling=os_, theta_inc_sampling=tis)))
    # fixed probe of the tie order of np.argsort at z = 0 (636 gates; data-dependent, found by the thorough tier)
    todo.append((dict(alt="cryosat2_lrm", thickness=[52.0381, 42.8746, 21.3022], density=[156.0, 537.3, 435.2],
                      corr_length=[0.0001585, 0.0005188, 0.0004931], temperature=244.87, emmodel="iba",
                      interfaces=["go:0.044", "go:0.007", "go:0.073"], substrate=None, sub_eps=[9.04, 0.723], sigma_surface=None),
                 dict(oversampling=2, theta_inc_sampling=1)))
    # the airborne altimeter over a nearly smooth geometrical-optics surface: the backscatter lobe falls off inside the range window, so the
    # dependence on the incidence angle is steep between the incidence samples
    for mss_ in (1e-3, 1e-4):
        c_ = rand_case(rng, alt="asiras_lam", nl=1)
        c_.update(emmodel="iba", interfaces=["go:%g" % mss_], substrate=None, sigma_surface=None, thickness=[2.0])
        todo.append((c_, dict(oversampling=4, theta_inc_sampling=8)))
    for case, o in todo:
        evals += 16
        for b in check_case(case, o):
            findings.append(to_finding(case, b))
    for k in range(6 if effort == "routine" else 30):
        case = beer_lambert_case(rng)
        if k == 0:
            case.update(alt="asiras_lam", thickness=[0.2])      # a thin layer: one gate and a bit
        evals += 1
        os_ = int(rng.choice([1, 2, 5, 10, 20]))
        if k in (1, 2):
            # a layer ending 0.3 (k = 1) or 0.7 (k = 2) of a sub-gate after a sub-gate boundary: the last, partly filled sub-gate counts
            os_ = k
            case["thickness"] = [5.0]
            zg = solver_inputs(case, dict(oversampling=os_, theta_inc_sampling=1), build(case))["zg"]
            if len(zg) >= 2 and zg[1] > zg[0]:
                case["thickness"] = [float((int(rng.integers(1, 6)) + (0.3 if k == 1 else 0.7)) * (zg[1] - zg[0]))]
        b = check_beer_lambert(case, os_)
        if b:
            findings.append(to_finding(case, b))
        if k % 3 == 0:
            evals += 2
            d2 = round(case["thickness"][0] * float(rng.choice([0.4, 1.7])), 3)
            b = check_beer_lambert_edited(case, os_, d2)
            if b and not any(f.key == b[0] for f in extra):
                extra.append(Finding(b[0], b[1], {"check": "beer-edited", "case": case, "os": os_, "d2": d2}, b[3], b[4]))
    evals += 5
    try:
        r = check_sequence()
    except Exception as e:  # noqa
        r = None
    if r:
        extra.append(Finding(r[0], f"simulated after another altimeter of the same band, bandwidth and gate count, the waveform differs by {r[1]:.3g} of "
                             f"the peak from the one obtained in a fresh process", {"check": "sequence"}, r[1], r[2]))
    for nl in ((2, 4) if effort == "routine" else (1, 2, 3, 4, 5, 6)):
        evals += 4
        case = rand_case(rng, alt=["envisat_ra2:Ku", "cryosat2_lrm"][nl % 2] if "cryosat2_lrm" in ALTIMETERS else "envisat_ra2:Ku", nl=nl)
        ms = round(float(rng.uniform(0.01, 0.05)), 3)
        case.update(emmodel="iba", interfaces=["go:%.3f" % ms] * nl, substrate="go:%.3f" % ms, sigma_surface=None, thickness=[0.5] * nl)
        r = check_tis_convergence(case)
        if r and not any(f.key == r[0] for f in extra):
            extra.append(Finding(r[0], r[1], {"check": "tis-convergence", "case": case}, r[2], r[3]))
    for alt in ALTIMETERS:
        for sig in ([0.0, 0.3, 1.0] if effort == "routine" else [0.0, 0.05, 0.15, 0.3, 0.5, 0.75, 1.0]):
            evals += 1
            r = check_analytic_numerical(alt, sig)
            if r and not any(f.key == r[0] for f in extra):
                extra.append(Finding(r[0], f"{alt}: analytic PFS*PTR*PDF differs from the numerical convolution by {100 * r[1]:.1f} % of the peak at "
                                     f"sigma_surface = {sig} m", {"check": "analytic", "alt": alt, "sigma_surface": sig}, r[1], r[2]))
    # one finding per defect site, the smallest input
    best = {}
    size = lambda f: (len(f.inp["case"]["thickness"]), f.inp["opts"]["oversampling"], f.inp["opts"]["theta_inc_sampling"],
                      sum(bool(f.inp["opts"][k]) for k in FLAGS), len(str(f.inp)))
    for f in findings:
        if f.key not in best or size(f) < size(best[f.key]):
            best[f.key] = f
    return list(best.values()) + extra, evals


def replay(inp, rp=None):
    if inp.get("check") == "sequence":
        r = check_sequence()
        return Finding(r[0], "waveform depends on what was simulated before", inp, r[1], r[2]) if r else None
    if inp.get("check") == "beer-edited":
        b = check_beer_lambert_edited(inp["case"], inp["os"], inp["d2"])
        return Finding(b[0], b[1], inp, b[3], b[4]) if b else None
    if inp.get("check") == "analytic":
        r = check_analytic_numerical(inp["alt"], inp["sigma_surface"])
        if r and r[0].startswith("analytic-vs-own"):
            return Finding(r[0], "energy of the package's numerical convolution / analytic form", inp, r[1], r[2])
        return Finding(r[0], "analytic PFS*PTR*PDF differs from the numerical convolution", inp, r[1], r[2]) if r else None
    if inp.get("check") == "tis-convergence":
        r = check_tis_convergence(inp["case"])
        return Finding(r[0], r[1], inp, r[2], r[3]) if r else None
    case, o = inp["case"], inp["opts"]
    if inp.get("check") == "beer":
        b = check_beer_lambert(case, o["oversampling"])
        return to_finding(case, b) if b else None
    key = (rp or {}).get("key")
    bs = check_case(case, {k: o[k] for k in ("oversampling", "theta_inc_sampling")})
    same = [b for b in bs if b[0] == key and all(b[2][k] == o[k] for k in FLAGS)] or [b for b in bs if b[0] == key] or bs
    return to_finding(case, same[0]) if same else None
