"""C12 — interfaces and substrates keep their energy budget and honour their defaults:
correspondence harness (Fresnel coefficients, every interface / substrate class) and property oracle."""
import ast, contextlib, importlib, inspect, io, math, types
from pathlib import Path
import numpy as np
import common as C
from common import Corr, Tol, Finding, f2t, fs

PROP = "C12"
DRIVER = "C12"
LEAN_TARGETS = ["SmrtVerif.Props.C12", "SmrtVerif.Driver.C12"]
TRUSTED = ["correspondence harness harness/pC12.py and driver SmrtVerif/Driver/C12.lean",
           "real arithmetic in the theorems vs IEEE doubles in the code (rounding not modelled)",
           "numpy complex sqrt is the principal root (Re >= 0, Im with the sign of Im z); np.arccos(mu) = arctan(sqrt(1-mu^2)/mu) and "
           "x**p = exp(p log x) for x > 0 up to rounding",
           "all smrt code is elementwise in the incidence cosine (the model takes one cosine, the harness passes arrays and compares per element)"]
ASSUMPTIONS = ["roughness parameters (roughness_rms, H) are non-negative, 0 <= Q <= 1, prescribed reflectivities of reflectors are in [0,1]",
               "the incidence cosine is in (0,1]; permittivities have Re in [1,90] and Im in [0,50]",
               "the diffuse parts (IEM / geometrical optics backscatter and the 513x128-point integral of "
               "geometrical_optics_backscatter.coherent_transmission_matrix) are not modelled"]
RULE = ("permittivity pairs Re U[1,90], Im 0 (30 %) or log-uniform [1e-6,50]; cosines U(0,1] plus normal incidence, Brewster, critical angle "
        "(exact and +-0.1 %) and grazing 1e-3; npol 2 and 3; frequencies 1.4-89 GHz; every class with its optional parameters at the default "
        "and at sampled values; distinct = distinct (slice, input line); every case has random permittivities so is non-trivial")

TOL = Tol(1e-9)
# exactly at the critical angle the transmitted normal wavenumber is the square root of a difference that cancels to rounding level
# (condition number 1/sqrt(eps_mach)): both sides are only required to agree to sqrt(rounding)
TOL_CRIT = Tol(2e-6)
SPECULAR_EXACT = {"flat", "transparent", "soil_wegmuller", "soil_qnh", "rough_choudhury79", "reflector", "reflector_backscatter"}
FREQS = [1.4e9, 6.925e9, 10.65e9, 18.7e9, 36.5e9, 89e9]


# ---------------------------------------------------------------------------------------------
# inputs

def rand_eps(rng, lossless=False):
    re = float(rng.uniform(1, 90))
    if lossless or rng.random() < 0.3:
        return complex(re, 0.0)
    return complex(re, float(10 ** rng.uniform(-6, math.log10(50))))


def rand_mu(rng, e1, e2, note=None):
    """cosine and a tag naming how it was chosen"""
    r = rng.random()
    if r < 0.55:
        return float(1 - rng.random()), "uniform"          # (0, 1]
    if r < 0.65:
        return 1.0, "normal"
    if r < 0.72:
        return 1e-3, "grazing"
    if r < 0.82:
        return float(math.sqrt(e1.real / (e1.real + e2.real))), "brewster"
    if e1.real > e2.real:
        mc = math.sqrt(1 - e2.real / e1.real)
        k = rng.random()
        if k < 0.3:
            return mc, "critical"
        return float(mc * (1 + (1e-3 if k < 0.65 else -1e-3))), "near-critical"
    return float(1 - rng.random()), "uniform"


def ctok(e):
    e = complex(e)
    return f"{f2t(e.real)} {f2t(e.imag)}"


# ---------------------------------------------------------------------------------------------
# the implementation side

def ser(m, npol, k=0):
    """rows of a smrt_matrix (npol, n) at direction k; smrt_matrix(0) = npol zeros"""
    if getattr(m, "mtype", None) == "0":
        return fs(np.zeros(npol))
    v = np.asarray(m.values, dtype=float)
    return fs(v[:, k])


def call(fn, npol):
    try:
        with contextlib.redirect_stdout(io.StringIO()):       # reflector_backscatter prints a notice for npol = 3
            return ser(fn(), npol)
    except Exception as e:  # noqa
        return C.err_kind(e)


def impl_fresnel(e1, e2, mu, npol):
    from smrt.core.fresnel import fresnel_coefficients, fresnel_reflection_matrix, fresnel_transmission_matrix
    m = np.array([mu])
    rv, rh, mu2 = fresnel_coefficients(e1, e2, m)
    R = fresnel_reflection_matrix(e1, e2, m, npol).values[:, 0]
    T = fresnel_transmission_matrix(e1, e2, m, npol).values[:, 0]
    return fs([rv[0].real, rv[0].imag, rh[0].real, rh[0].imag, mu2[0]] + list(R) + list(T))


# registry: (side, module) -> (model name, constructor keyword names that travel to the driver, fixed constructor keywords)
REG = {
    ("interface", "flat"): ("flat", [], {}),
    ("interface", "transparent"): ("transparent", [], {}),
    ("interface", "iem_fung92"): ("iem", ["roughness_rms"], {"corr_length": 5e-2}),
    ("interface", "iem_fung92_brogioni10"): ("iem", ["roughness_rms"], {"corr_length": 5e-2}),
    ("interface", "geometrical_optics"): ("null", [], {"mean_square_slope": 0.03}),
    ("interface", "geometrical_optics_backscatter"): ("nullspec", [], {"mean_square_slope": 0.03}),
    ("interface", "radar_calibration_sphere"): ("null", [], {}),
    ("interface", "coherent_flat"): ("coherent", [], {}),
    ("substrate", "flat"): ("flat", [], {}),
    ("substrate", "transparent"): ("transparent", [], {}),
    ("substrate", "iem_fung92"): ("iem", ["roughness_rms"], {"corr_length": 5e-2}),
    ("substrate", "iem_fung92_brogioni10"): ("iem", ["roughness_rms"], {"corr_length": 5e-2}),
    ("substrate", "geometrical_optics"): ("null", [], {"mean_square_slope": 0.03}),
    ("substrate", "geometrical_optics_backscatter"): ("nullspec", [], {"mean_square_slope": 0.03}),
    ("substrate", "radar_calibration_sphere"): ("null", [], {}),
    ("substrate", "soil_wegmuller"): ("wegmuller", ["roughness_rms"], {}),
    ("substrate", "soil_qnh"): ("qnh", ["H", "Q", "N", "Nv", "Nh"], {}),
    ("substrate", "rough_choudhury79"): ("choudhury", ["roughness_rms"], {}),
    ("substrate", "reflector"): ("reflector", [], {}),
    ("substrate", "reflector_backscatter"): ("reflectorb", [], {}),
}
ADAPTED = {"flat", "transparent", "iem_fung92", "iem_fung92_brogioni10", "geometrical_optics", "geometrical_optics_backscatter",
           "radar_calibration_sphere"}
REQUIRED_VALUES = {"roughness_rms": 1e-4, "corr_length": 5e-2, "mean_square_slope": 0.03, "H": 0.5}


def plugin_modules(side):
    d = C.REPO / "smrt" / side
    return sorted(p.stem for p in d.glob("*.py") if not p.stem.startswith(("test_", "__")) and p.stem != "vector3")


def plugin_class(side, module):
    """the class a module of smrt/interface or smrt/substrate defines (the one with specular_reflection_matrix)"""
    mod = importlib.import_module(f"smrt.{side}.{module}")
    cands = [c for n, c in vars(mod).items() if inspect.isclass(c) and c.__module__ == mod.__name__
             and hasattr(c, "specular_reflection_matrix")]
    if not cands:
        return None
    return cands[-1]


def make_obj(side, module, kw, e2, slab=None):
    cls = plugin_class(side, module)
    if module == "coherent_flat":
        return cls([None, None], types.SimpleNamespace(thickness=slab[1]), slab[0])
    if side == "interface":
        return cls(**kw)
    pm = None if e2 is None else (lambda f, T, _e=e2: _e)
    return cls(temperature=265., permittivity_model=pm, **kw)


def methods(side, obj, f, e1, e2, mu, npol):
    m = np.array([mu])
    if side == "interface":
        return (lambda: obj.specular_reflection_matrix(f, e1, e2, m, npol),
                lambda: obj.coherent_transmission_matrix(f, e1, e2, m, npol))
    return (lambda: obj.specular_reflection_matrix(f, e1, m, npol),
            lambda: obj.emissivity_matrix(f, e1, m, npol))


def refl_value(a, mu):
    """value at cosine mu of one component of a specular_reflection argument: a number, or {"$fn": [a, b]} = the function
    theta -> a + b (theta / 90 deg)^2 of the angle in radians"""
    if isinstance(a, dict) and "$fn" in a:
        return a["$fn"][0] + a["$fn"][1] * (math.acos(mu) / (math.pi / 2)) ** 2
    return float(a)


def refl_resolve(a):
    """JSON-able specular_reflection argument -> what is handed to the class (functions of theta for the {"$fn": ...} entries)"""
    if isinstance(a, dict) and "$fn" in a:
        c0, c1 = a["$fn"]
        return lambda theta: c0 + c1 * (np.asarray(theta) / (np.pi / 2)) ** 2
    if isinstance(a, dict):
        return {k: refl_resolve(v) for k, v in a.items()}
    return a


def with_resolved(kw):
    return {k: (refl_resolve(v) if k == "specular_reflection" else v) for k, v in kw.items()}


def refl_arg(rng):
    """a specular_reflection argument of the reflectors and its (V, H) values (nan = None)"""
    r = rng.random()
    if r < 0.25:
        return None, (float("nan"), float("nan"))
    def val():     # the end points are legitimate values: 0 is the documented black body, 1 the perfect mirror (also as int)
        q = rng.random()
        return 0.0 if q < 0.15 else 1.0 if q < 0.25 else float(rng.random())
    if r < 0.6:
        v = val()
        if v in (0.0, 1.0) and rng.random() < 0.5:
            return int(v), (v, v)
        return v, (v, v)
    def fn():      # an angle-dependent reflectivity (documented: a function of theta in radians), inside [0, 1]
        c0 = round(float(rng.uniform(0, 0.6)), 3)
        return {"$fn": [c0, round(float(rng.uniform(0, 1 - c0)), 3)]}
    if r < 0.72:
        return fn(), (float("nan"), float("nan"))
    if r < 0.82:
        return {"V": fn(), "H": val() if rng.random() < 0.5 else fn()}, (float("nan"), float("nan"))
    v, h = val(), val()
    return {"V": v, "H": h}, (v, h)


def sample_case(rng, side, module):
    """one random evaluation point of a class: returns a JSON-able dict"""
    e1, e2 = rand_eps(rng), rand_eps(rng)
    mu, how = rand_mu(rng, e1, e2)
    if how == "critical":
        mu, how = float(1 - rng.random()), "uniform"
    case = {"kind": "class", "side": side, "module": module, "f": float(rng.choice(FREQS)) if rng.random() < 0.7 else float(10 ** rng.uniform(9, 11)),
            "e1": [e1.real, e1.imag], "e2": [e2.real, e2.imag], "mu": mu, "how": how, "npol": int(rng.choice([2, 3])), "kw": {}}
    name, pnames, _ = REG[(side, module)]
    smooth = rng.random() < 0.15
    if name == "iem":
        case["kw"]["roughness_rms"] = 0.0 if smooth else float(10 ** rng.uniform(-5, -2))
    elif name == "choudhury":
        case["kw"]["roughness_rms"] = 0.0 if smooth else float(10 ** rng.uniform(-6, -3))
    elif name == "wegmuller":
        case["kw"]["roughness_rms"] = 0.0 if smooth else float(10 ** rng.uniform(-4, -1.3))
    elif name == "qnh":
        kw = {"H": 0.0 if smooth else float(rng.uniform(0, 2))}
        if rng.random() < 0.7:
            kw["Q"] = 0.0 if rng.random() < 0.3 else float(rng.random())
        if rng.random() < 0.7:
            kw["N"] = float(rng.choice([0., 1., 2., float(rng.uniform(0, 2))]))
        if rng.random() < 0.6:          # both given: the path the shipped tests use
            kw["Nv"] = float(rng.uniform(0, 2)); kw["Nh"] = float(rng.uniform(0, 2))
        elif rng.random() < 0.3:
            kw["Nv"] = float(rng.uniform(0, 2))
        case["kw"] = kw
    elif name in ("reflector", "reflectorb"):
        arg, _ = refl_arg(rng)
        if arg is not None:
            case["kw"]["specular_reflection"] = arg
    elif name == "coherent":
        es = rand_eps(rng)
        case["slab"] = [[es.real, es.imag], float(10 ** rng.uniform(-4.5, -2))]
    return case


def case_line(case, adapter_eps=True):
    side, module = case["side"], case["module"]
    name, pnames, fixed = REG[(side, module)]
    e1, e2 = complex(*case["e1"]), complex(*case["e2"])
    kw = case["kw"]
    if name == "qnh":
        defaults = {"Q": 0., "N": 0., "Nv": float("nan"), "Nh": float("nan")}
        ps = [kw.get(k, defaults.get(k)) for k in pnames]
    elif name in ("reflector", "reflectorb"):
        a = kw.get("specular_reflection")
        mu_ = case["mu"]
        ps = [float("nan")] * 2 if a is None else ([refl_value(a["V"], mu_), refl_value(a["H"], mu_)] if isinstance(a, dict) and "$fn" not in a
                                                  else [refl_value(a, mu_)] * 2)
    elif name == "coherent":
        ps = case["slab"][0] + [case["slab"][1]]
    else:
        ps = [kw[k] for k in pnames]
    head = f"cls {name}" if not (side == "substrate" and module in ADAPTED) else f"sub {'E' if adapter_eps else 'N'} {name}"
    return f"{head} {case['npol']} {f2t(case['f'])} {ctok(e1)} {ctok(e2)} {f2t(case['mu'])} " + " ".join(f2t(p) for p in ps)


def case_impl(case, adapter_eps=True):
    side, module = case["side"], case["module"]
    name, pnames, fixed = REG[(side, module)]
    e1, e2 = complex(*case["e1"]), complex(*case["e2"])
    kw = dict(fixed); kw.update(with_resolved(case["kw"]))
    slab = (complex(*case["slab"][0]), case["slab"][1]) if "slab" in case else None
    try:
        obj = make_obj(side, module, kw, e2 if adapter_eps else None, slab)
    except Exception as e:  # noqa
        return C.err_kind(e) + " | " + C.err_kind(e)
    sp, tr = methods(side, obj, case["f"], e1, e2, case["mu"], case["npol"])
    s = call(sp, case["npol"])
    t = "ERR not-modelled" if name == "nullspec" and not s.startswith("ERR") and adapter_eps else call(tr, case["npol"])
    return s + " | " + t


def correspond(ctx):
    co = Corr(PROP, DRIVER)
    rng = ctx.np
    # Fresnel coefficients and matrices
    for _ in range(ctx.n(400, 6000)):
        e1, e2 = rand_eps(rng), rand_eps(rng)
        if rng.random() < 0.05:
            e2 = e1
        mu, how = rand_mu(rng, e1, e2)
        npol = int(rng.choice([2, 3]))
        line = f"fres {npol} {ctok(e1)} {ctok(e2)} {f2t(mu)}"
        crit = how == "critical"
        co.add("fresnel.critical_angle" if crit else "fresnel", line, impl_fresnel(e1, e2, mu, npol), TOL_CRIT if crit else TOL,
               desc={"e1": e1, "e2": e2, "mu": mu, "npol": npol, "how": how})
        co.note("fresnel mu " + how)
        co.note("fresnel media " + ("lossless" if e1.imag == 0 and e2.imag == 0 else "absorbing"))
    for _ in range(ctx.n(40, 400)):
        z = complex(float(rng.uniform(-90, 90)), 0.0 if rng.random() < 0.4 else float(10 ** rng.uniform(-8, 1.7) * rng.choice([-1, 1])))
        w = np.sqrt(z)
        co.add("complex_sqrt", f"sqrt {ctok(z)}", fs([w.real, w.imag]), Tol(1e-13), desc={"z": z})
    # every class
    for side in ("interface", "substrate"):
        for module in plugin_modules(side):
            if (side, module) not in REG:
                co.add(f"{side}.{module}", "cls ?unregistered", "class not registered in harness/pC12.py REG", C.EXACT)
                continue
            for _ in range(ctx.n(25, 300)):
                case = sample_case(rng, side, module)
                sl = f"{side}.{module}"
                if module == "soil_qnh":
                    sl += ".explicit_Nv_Nh" if ("Nv" in case["kw"] and "Nh" in case["kw"]) else ".default_Nv_Nh"
                co.add(sl, case_line(case), case_impl(case), TOL, desc=case)
                co.note(f"class mu {case['how']}")
                for k in sorted(case["kw"]):
                    co.note(f"{module} optional {k} sampled")
                if not case["kw"]:
                    co.note(f"{module} all optional parameters at default")
            if REG[(side, module)][0] in ("reflector", "reflectorb"):
                # the documented end points, always: 0 is a black body, 1 a perfect mirror (float, int, per polarisation)
                for arg in (0.0, 0, 1.0, 1, {"V": 0.0, "H": 0.0}, {"V": 0.0, "H": 1.0}, {"V": 1, "H": 0}, {"$fn": [0.25, 0.6]},
                            {"V": {"$fn": [0.1, 0.3]}, "H": {"$fn": [0.2, 0.7]}}):
                    case = sample_case(rng, side, module)
                    case["kw"] = {"specular_reflection": arg}
                    case["npol"] = 2              # the reflectors refuse three polarisations
                    co.add(f"{side}.{module}", case_line(case), case_impl(case), TOL, desc=case)
                    co.note(f"{module} end-point reflectivity")
            if side == "substrate" and module in ADAPTED:
                for _ in range(ctx.n(3, 20)):
                    case = sample_case(rng, side, module)
                    co.add(f"adapter.no_permittivity_model", case_line(case, False), case_impl(case, False), C.EXACT, desc=case)
    return co


# ---------------------------------------------------------------------------------------------
# regenerated table: the plugin classes of the working tree, their required arguments and the kind of every optional default

GEN = C.LEAN / "SmrtVerif" / "Gen" / "C12.lean"


def default_kind(v):
    if v is None:
        return "none"
    if isinstance(v, bool):
        return "bool"
    if isinstance(v, (int, float, np.integer, np.floating)):
        return "nan" if math.isnan(float(v)) else ("num" if math.isfinite(float(v)) else "inf")
    if isinstance(v, str):
        return "str"
    return "other:" + type(v).__name__


def generate_tables():
    rows = defaults_table()
    q = lambda x: '"' + str(x).replace('\\', '\\\\').replace('"', '\\"') + '"'
    lines = []
    nopt = 0
    for side, module, clsname, args, opt in rows:
        nopt += len(opt)
        a = "[" + ", ".join(q(x) for x in args) + "]"
        o = "[" + ", ".join(f"({q(k)}, {q(default_kind(v))})" for k, v in opt.items()) + "]"
        lines.append(f"  ({q(side)}, {q(module)}, {q(clsname)}, {a}, {o})")
    src = ("/- GENERATED by harness/pC12.py generate_tables() from the working tree of /repo/smrt/{interface,substrate}; do not edit.\n"
           "   (side, module, class, required `args`, optional args with the kind of their default) -/\n"
           "namespace Smrt.Gen.C12\n\n"
           "def classes : List (String × String × String × List String × List (String × String)) := [\n"
           + ",\n".join(lines) + "\n]\n\nend Smrt.Gen.C12\n")
    GEN.parent.mkdir(exist_ok=True)
    if not GEN.exists() or GEN.read_text() != src:
        GEN.write_text(src)
    return {"obligations": len(rows) + nopt, "tables": {"classes": len(rows), "optional_arguments": nopt}}


# ---------------------------------------------------------------------------------------------
# the property itself on the implementation (independent of the Lean model)

SLACK = 1e-9


def RT(e1, e2, mu, npol=2):
    from smrt.core.fresnel import fresnel_reflection_matrix, fresnel_transmission_matrix
    m = np.atleast_1d(np.asarray(mu, dtype=float))
    return fresnel_reflection_matrix(e1, e2, m, npol).values[:, 0], fresnel_transmission_matrix(e1, e2, m, npol).values[:, 0]


def check_fresnel(inp):
    """budget, bounds and (for lossless media) reciprocity / total reflection / Brewster / normal incidence / identical media"""
    e1, e2, mu = complex(*inp["e1"]), complex(*inp["e2"]), inp["mu"]
    out = []
    R, T = RT(e1, e2, mu)
    for p, name in ((0, "V"), (1, "H")):
        if not (np.isfinite(R[p]) and np.isfinite(T[p])):
            out.append(("fresnel:finite", f"R_{name}={R[p]} T_{name}={T[p]}", "finite"))
            continue
        if abs(R[p] + T[p] - 1) > SLACK:
            out.append(("fresnel:budget", f"R_{name}+T_{name}={float(R[p] + T[p])!r}", "1"))
        if R[p] < -SLACK or R[p] > 1 + SLACK:
            out.append(("fresnel:bounds", f"R_{name}={float(R[p])!r}", "in [0,1]"))
    if e1.imag == 0 and e2.imag == 0:
        s = e1.real * (1 - mu * mu)
        if s < e2.real * (1 - 1e-9):                      # propagating: reciprocity with the Snell-conjugate cosine
            mu_t = math.sqrt(1 - s / e2.real)
            R2, _ = RT(e2, e1, mu_t)
            for p, name in ((0, "V"), (1, "H")):
                if abs(R2[p] - R[p]) > 1e-9:
                    out.append(("fresnel:reciprocity", f"R_{name}(1->2)={R[p]!r} R_{name}(2->1)={R2[p]!r}", "equal"))
        elif s > e2.real * (1 + 1e-9):                    # beyond the critical angle
            for p, name in ((0, "V"), (1, "H")):
                if abs(R[p] - 1) > 1e-9:
                    out.append(("fresnel:total_reflection", f"R_{name}={float(R[p])!r}", "1"))
        if mu == 1.0:
            n1, n2 = math.sqrt(e1.real), math.sqrt(e2.real)
            want = ((n1 - n2) / (n1 + n2)) ** 2
            for p, name in ((0, "V"), (1, "H")):
                if abs(R[p] - want) > 1e-12:
                    out.append(("fresnel:normal_incidence", f"R_{name}={float(R[p])!r}", repr(want)))
        mb = math.sqrt(e1.real / (e1.real + e2.real))
        Rb, _ = RT(e1, e2, mb)
        if abs(Rb[0]) > 1e-20:
            out.append(("fresnel:brewster", f"R_V at the Brewster angle = {Rb[0]!r}", "0"))
    R0, T0 = RT(e1, e1, mu)
    if max(abs(R0[0]), abs(R0[1])) > 1e-20 or max(abs(T0[0] - 1), abs(T0[1] - 1)) > 1e-12:
        out.append(("fresnel:identical_media", f"R={R0.tolist()} T={T0.tolist()}", "R=0, T=1"))
    return out


def eval_case(case):
    """(spec rows, emissivity/transmission rows) of a class case as float arrays, or an exception"""
    side, module = case["side"], case["module"]
    name, pnames, fixed = REG[(side, module)]
    e1, e2 = complex(*case["e1"]), complex(*case["e2"])
    kw = dict(fixed); kw.update(with_resolved(case["kw"]))
    slab = (complex(*case["slab"][0]), case["slab"][1]) if "slab" in case else None
    obj = make_obj(side, module, kw, e2, slab)
    sp, tr = methods(side, obj, case["f"], e1, e2, case["mu"], case["npol"])

    def rows(fn):
        with contextlib.redirect_stdout(io.StringIO()):
            m = fn()
        if getattr(m, "mtype", None) == "0":
            return np.zeros(case["npol"])
        return np.asarray(m.values, dtype=float)[:, 0]
    return rows(sp), rows(tr)


def refusal(e):
    """a loud, documented refusal (not a wrong value)"""
    from smrt.core.error import SMRTError
    return isinstance(e, (SMRTError, NotImplementedError, Warning))


def check_class(case):
    """bounds and budget of one class at one point; default-path failures are reported under '<module>:defaults'"""
    module = case["module"]
    key0 = f"{case['side']}.{module}" if module not in ("soil_qnh", "coherent_flat") else module
    try:
        s, t = eval_case(case)
    except Exception as e:  # noqa
        if refusal(e):
            return []
        return [(f"{key0}:defaults" if len(case["kw"]) <= len(required_of(case)) or module == "soil_qnh" else f"{key0}:error",
                 f"{type(e).__name__}: {e}", "a value")]
    out = []
    for p, name in ((0, "V"), (1, "H")):
        if not (np.isfinite(s[p]) and np.isfinite(t[p])):
            out.append((f"{key0}:finite", f"specular_{name}={s[p]} emissivity/transmission_{name}={t[p]}", "finite"))
            continue
        if min(s[p], t[p]) < -SLACK or max(s[p], t[p]) > 1 + SLACK:
            out.append((f"{key0}:bounds" if module != "coherent_flat" else "coherent_flat:budget",
                        f"specular_{name}={float(s[p])!r} emissivity/transmission_{name}={float(t[p])!r}", "both in [0,1]"))
        elif s[p] + t[p] > 1 + SLACK:
            out.append((f"{key0}:budget", f"specular_{name}+transmission_{name}={float(s[p] + t[p])!r}", "<= 1"))
        elif (module == "coherent_flat" and case["e1"][1] == 0 and case["e2"][1] == 0 and case["slab"][0][1] == 0
              and not case.get("total_reflection") and abs(s[p] + t[p] - 1) > 1e-6):
            out.append(("coherent_flat:lossless", f"loss-free slab between loss-free media, whatever its thickness: specular_{name}+transmission_{name}="
                        f"{float(s[p] + t[p])!r}", "1 (nothing is absorbed, nothing is scattered)"))
        elif module in SPECULAR_EXACT and abs(s[p] + t[p] - 1) > SLACK:
            out.append((f"{key0}:budget", f"specular_{name}+emissivity_{name}={float(s[p] + t[p])!r}", "1 (purely specular model)"))
    if module in ("reflector", "reflector_backscatter"):
        # a prescribed reflectivity is honoured as given (0 = black body ... 1 = mirror); the default is the perfect mirror
        a = case["kw"].get("specular_reflection")
        mu_ = case["mu"]
        want = [1.0, 1.0] if a is None else ([refl_value(a["V"], mu_), refl_value(a["H"], mu_)] if isinstance(a, dict) and "$fn" not in a
                                             else [refl_value(a, mu_)] * 2)
        for p, name in ((0, "V"), (1, "H")):
            if np.isfinite(s[p]) and abs(float(s[p]) - want[p]) > 1e-12:
                out.append((f"{key0}:prescribed", f"specular_reflection={a!r} but specular_{name}={float(s[p])!r}", f"{want[p]}"))
    return out


def check_go_backscatter(case):
    """geometrical-optics backscatter (transmissivity = 1 - a numerical hemispherical integral): bounds only, at the default and at the
    other value of shadow_correction and over the whole range of slopes; deviations below 0.02 are those of the quadrature and are
    reported under their own key"""
    key0 = f"{case['side']}.{case['module']}"
    try:
        s, t = eval_case(case)
    except Exception as e:  # noqa
        return [] if refusal(e) else [(f"{key0}:error", f"{type(e).__name__}: {e}", "a value")]
    lo, hi = float(min(s[:2].min(), t[:2].min())), float(max(s[:2].max(), t[:2].max()))
    if not (np.all(np.isfinite(s[:2])) and np.all(np.isfinite(t[:2]))):
        return [(f"{key0}:finite", f"specular={s.tolist()} transmission/emissivity={t.tolist()} with {case['kw']}", "finite")]
    if lo < -SLACK or hi > 1 + SLACK:
        slight = lo >= -0.02 and hi <= 1.02
        return [(f"{key0}:bounds" + (":slight" if slight else ""), f"specular={s[:2].tolist()} transmission/emissivity={t[:2].tolist()} with {case['kw']}, "
                 f"eps {case['e1']} -> {case['e2']}, mu={case['mu']}", "both in [0,1]")]
    return []


def required_of(case):
    cls = plugin_class(case["side"], case["module"])
    return list(getattr(cls, "args", []))


def check_smooth(case):
    """zero roughness gives the flat coefficients (IEM, Choudhury, QNH with Q = 0)"""
    module = case["module"]
    e1, e2 = complex(*case["e1"]), complex(*case["e2"])
    R, T = RT(e1, e2, case["mu"], case["npol"])
    try:
        s, t = eval_case(case)
    except Exception as e:  # noqa
        return [] if refusal(e) or module == "soil_qnh" else [(f"{module}:smooth_limit", f"{type(e).__name__}: {e}", "flat coefficients")]
    if np.max(np.abs(s[:2] - R[:2])) > 1e-12 or np.max(np.abs(t[:2] - T[:2])) > 1e-12:
        return [(f"{module}:smooth_limit", f"spec={s.tolist()} trans={t.tolist()}", f"R={R.tolist()} T={T.tolist()}")]
    return []


def check_adapter(case):
    """a substrate derived from an interface returns that interface's coefficients"""
    module = case["module"]
    e1, e2 = complex(*case["e1"]), complex(*case["e2"])
    _, _, fixed = REG[("substrate", module)]
    kw = dict(fixed); kw.update(with_resolved(case["kw"]))
    sub = make_obj("substrate", module, kw, e2)
    itf = make_obj("interface", module, kw, e2)
    m = np.array([case["mu"], 0.5 * case["mu"]])
    out = []
    for a, b, what in ((lambda: sub.specular_reflection_matrix(case["f"], e1, m, case["npol"]),
                        lambda: itf.specular_reflection_matrix(case["f"], e1, e2, m, case["npol"]), "specular_reflection_matrix"),
                       (lambda: sub.emissivity_matrix(case["f"], e1, m, case["npol"]),
                        lambda: itf.coherent_transmission_matrix(case["f"], e1, e2, m, case["npol"]), "emissivity_matrix")):
        x, y = a(), b()
        if x.mtype != y.mtype or (x.mtype != "0" and not np.array_equal(x.values, y.values)):
            out.append((f"adapter:{module}", f"{what} differs from the interface's", "identical"))
    # the diffuse (bistatic) part, in the backscatter direction, when the interface has one: same options, same numbers
    if hasattr(itf, "diffuse_reflection_matrix") and hasattr(sub, "diffuse_reflection_matrix"):
        m1 = np.array([case["mu"]])
        dphi = np.array([np.pi])
        try:
            with contextlib.redirect_stdout(io.StringIO()):
                x = sub.diffuse_reflection_matrix(case["f"], e1, m1, m1, dphi, case["npol"])
                y = itf.diffuse_reflection_matrix(case["f"], e1, e2, m1, m1, dphi, case["npol"])
        except Exception as e:  # noqa
            if refusal(e):
                return out
            raise
        xv = np.asarray(getattr(x, "values", x), dtype=float); yv = np.asarray(getattr(y, "values", y), dtype=float)
        if xv.shape != yv.shape or not np.allclose(xv, yv, rtol=1e-12, atol=0, equal_nan=True):
            out.append((f"adapter:{module}", f"diffuse_reflection_matrix (backscatter) with options {case['kw']} differs from the interface's built with "
                        f"the same options", "identical"))
    return out


def defaults_table():
    """(side, module, class name, required args, optional args) of every plugin module of the working tree"""
    rows = []
    for side in ("interface", "substrate"):
        for module in plugin_modules(side):
            cls = plugin_class(side, module)
            if cls is None:
                continue
            rows.append((side, module, cls.__name__, list(getattr(cls, "args", [])), dict(getattr(cls, "optional_args", {}))))
    return rows


def check_defaults(inp):
    """the class of inp[side], inp[module] built with only its required arguments evaluates to finite values"""
    side, module = inp["side"], inp["module"]
    cls = plugin_class(side, module)
    if module == "coherent_flat":
        return []         # not user-constructible: built by process_coherent_layers from a layer (checked by check_class)
    kw = {}
    for a in getattr(cls, "args", []):
        if a not in REQUIRED_VALUES:
            return [(f"{side}.{module}:unknown-required-argument", f"no value known for required argument {a}", "harness knows every required argument")]
        kw[a] = REQUIRED_VALUES[a]
    out = []
    for npol in (2, 3):
        case = {"side": side, "module": module, "kw": {}, "f": 1.4e9, "e1": [1.0, 0.0], "e2": [6.0, 0.5], "mu": 0.6, "npol": npol}
        try:
            obj = cls(**kw) if side == "interface" else cls(temperature=265., permittivity_model=lambda f, T: complex(6.0, 0.5), **kw)
            sp, tr = methods(side, obj, 1.4e9, complex(1.0), complex(6.0, 0.5), 0.6, npol)
            for fn, what in ((sp, "specular_reflection_matrix"), (tr, "emissivity/coherent_transmission_matrix")):
                try:
                    m = fn()
                    v = np.zeros(npol) if m.mtype == "0" else np.asarray(m.values, dtype=float)
                    if not np.all(np.isfinite(v)):
                        out.append((f"{module}:defaults", f"{what} with default optional arguments returns {v.ravel().tolist()}", "finite values"))
                except Exception as e:  # noqa
                    if not refusal(e):
                        out.append((f"{module}:defaults", f"{what} with default optional arguments raises {type(e).__name__}: {e}", "a value"))
        except Exception as e:  # noqa
            if not refusal(e):
                out.append((f"{module}:defaults", f"constructing with only the required arguments {sorted(kw)} raises {type(e).__name__}: {e}", "an instance"))
    return out[:1]


def check_repeat(case):
    """the coefficients are functions of their arguments: the same object asked twice (reflectivity, reflectivity, emissivity / transmission,
    reflectivity again), a fresh object, and the plain Fresnel matrices asked right afterwards with the same arguments all give what the
    first evaluation / the Fresnel formulas give - nothing computed for one request leaks into the next"""
    module = case["module"]
    side = case["side"]
    key0 = f"{side}.{module}" if module not in ("soil_qnh", "coherent_flat") else module
    name, pnames, fixed = REG[(side, module)]
    e1, e2 = complex(*case["e1"]), complex(*case["e2"])
    kw = dict(fixed); kw.update(with_resolved(case["kw"]))
    slab = (complex(*case["slab"][0]), case["slab"][1]) if "slab" in case else None
    npol = case["npol"]

    def rows(fn):
        with contextlib.redirect_stdout(io.StringIO()):
            m = fn()
        if getattr(m, "mtype", None) == "0":
            return np.zeros(npol)
        return np.array(np.asarray(m.values, dtype=float)[:, 0])
    try:
        obj = make_obj(side, module, kw, e2, slab)
        sp, tr = methods(side, obj, case["f"], e1, e2, case["mu"], npol)
        seq = [rows(sp), rows(sp), rows(tr), rows(tr), rows(sp)]
        from smrt.core.fresnel import fresnel_reflection_matrix, fresnel_transmission_matrix
        mu = np.array([case["mu"]])
        flat = [rows(lambda: fresnel_reflection_matrix(e1, e2, mu, npol)), rows(lambda: fresnel_transmission_matrix(e1, e2, mu, npol))]
        obj2 = make_obj(side, module, kw, e2, slab)
        sp2, tr2 = methods(side, obj2, case["f"], e1, e2, case["mu"], npol)
        fresh = [rows(sp2), rows(tr2)]
    except Exception as e:  # noqa
        return []
    out = []
    same = lambda a, b: a.shape == b.shape and np.allclose(a, b, rtol=1e-13, atol=1e-15, equal_nan=True)
    if not (same(seq[0], seq[1]) and same(seq[0], seq[4]) and same(seq[2], seq[3])):
        out.append((f"{key0}:repeat", f"asked twice, the same object answers specular {seq[0].tolist()} then {seq[1].tolist()} then {seq[4].tolist()}; "
                    f"emissivity/transmission {seq[2].tolist()} then {seq[3].tolist()}", "equal"))
    elif not (same(seq[0], fresh[0]) and same(seq[2], fresh[1])):
        out.append((f"{key0}:repeat", f"a fresh object answers {fresh[0].tolist()} / {fresh[1].tolist()} after another one answered "
                    f"{seq[0].tolist()} / {seq[2].tolist()}", "equal"))
    R, T = RT(e1, e2, case["mu"], npol)
    if np.max(np.abs(flat[0][:2] - R[:2])) > 1e-12 or np.max(np.abs(flat[1][:2] - T[:2])) > 1e-12:
        out.append((f"{key0}:repeat", f"the Fresnel matrices asked right after this class with the same arguments: R={flat[0].tolist()} T={flat[1].tolist()}",
                    f"R={R.tolist()} T={T.tolist()}"))
    return out


SOIL_KW = {"flat": {}, "soil_wegmuller": {"roughness_rms": 0.01}, "soil_qnh": {"H": 0.5, "Q": 0.1, "N": 1.0}, "rough_choudhury79": {"roughness_rms": 0.0005},
           "iem_fung92": {"roughness_rms": 0.002, "corr_length": 0.05}}


def check_frequency_sequence(inp):
    """one substrate object with a frequency-dependent permittivity model evaluated at several frequencies in a row answers, at each, what a
    fresh object answers at that frequency"""
    from smrt import make_soil
    module, model = inp["module"], inp["model"]
    mk = lambda: make_soil(module, model, inp["T"], moisture=inp["moisture"], sand=0.4, clay=0.3, drymatter=1100., **SOIL_KW[module])
    mu = np.array([inp["mu"]])
    e1 = complex(*inp["e1"])

    def both(o, f):
        with contextlib.redirect_stdout(io.StringIO()):
            return (np.array(np.asarray(o.specular_reflection_matrix(f, e1, mu, 2).values, dtype=float)[:, 0]),
                    np.array(np.asarray(o.emissivity_matrix(f, e1, mu, 2).values, dtype=float)[:, 0]))
    try:
        one = mk()
        got = [both(one, f) for f in inp["freqs"]]
        want = [both(mk(), f) for f in inp["freqs"]]
    except Exception as e:  # noqa
        if refusal(e):
            return []
        raise
    for f, g, w in zip(inp["freqs"], got, want):
        if not (np.allclose(g[0], w[0], rtol=1e-12, atol=1e-14) and np.allclose(g[1], w[1], rtol=1e-12, atol=1e-14)):
            return [(f"substrate.{module}:frequency-sequence", f"{module} on a {model} soil evaluated at {inp['freqs']} in a row: at {f:g} Hz it answers "
                     f"r={g[0].tolist()} e={g[1].tolist()}", f"r={w[0].tolist()} e={w[1].tolist()} (a fresh object at that frequency)")]
    return []


CHECKS = {"fresnel": check_fresnel, "class": check_class, "smooth": check_smooth, "adapter": check_adapter, "defaults": check_defaults,
          "go": check_go_backscatter, "repeat": check_repeat, "freqseq": check_frequency_sequence}


def run_check(inp):
    return CHECKS[inp["kind"]](inp)


def oracle(ctx, hints, effort):
    rng = ctx.np
    findings, evals = {}, 0
    big = effort == "search"

    def record(inp):
        nonlocal evals
        evals += 1
        for key, obs, req in run_check(inp):
            if key not in findings:
                findings[key] = Finding(key, f"{inp['kind']} check: {obs}", C.jsonable(inp), obs, req)

    # defaults: every class of the package directories with only its required arguments (first: gives the minimal witnesses)
    for side, module, clsname, args, opt in defaults_table():
        record({"kind": "defaults", "side": side, "module": module})
    # the smallest known way to break the slab pseudo-interface: zero thickness, vacuum above, eps = 3+4j below, normal incidence
    record({"kind": "class", "side": "interface", "module": "coherent_flat", "f": 10e9, "e1": [1.0, 0.0], "e2": [3.0, 4.0], "mu": 1.0,
            "how": "normal", "npol": 2, "kw": {}, "slab": [[1.0, 0.0], 0.0]})
    # loss-free slabs from a fraction of a wavelength to many wavelengths thick (beyond the coherency limit of 3 pi / 4 of phase too), seen from air
    # towards denser loss-free media: what is not reflected is transmitted
    for d_ in (0.0005, 0.004, 0.02, 0.1):
        for mu_ in (1.0, 0.6):
            record({"kind": "class", "side": "interface", "module": "coherent_flat", "f": 10e9, "e1": [1.0, 0.0], "e2": [2.0, 0.0], "mu": mu_,
                    "how": "normal", "npol": 2, "kw": {}, "slab": [[3.1, 0.0], d_]})
    # the fixed witness of the slightly negative transmissivity of the geometrical-optics backscatter model (quadrature of the hemispherical
    # integral; grazing incidence from the denser medium)
    for side in ("interface", "substrate"):
        record({"kind": "go", "side": side, "module": "geometrical_optics_backscatter", "f": 10e9, "e1": [3.0, 0.0], "e2": [1.5, 0.0], "mu": 0.05,
                "how": "uniform", "npol": 2, "kw": {"mean_square_slope": 0.01}})
    # the non-default option shadow_correction=False over a reflective lower medium at grazing incidence, small to large slopes
    for side in ("interface", "substrate"):
        for mss in (0.1, 0.5, 1.0):
            record({"kind": "go", "side": side, "module": "geometrical_optics_backscatter", "f": 10e9, "e1": [1.0, 0.0], "e2": [30.0, 10.0], "mu": 0.1,
                    "how": "uniform", "npol": 2, "kw": {"mean_square_slope": mss, "shadow_correction": False}})
    for h in hints[:60]:
        d = h.get("desc")
        if isinstance(d, dict) and d.get("kind") == "class":
            record(d)
    # Fresnel laws
    for _ in range(2000 if big else 300):
        e1, e2 = rand_eps(rng, lossless=rng.random() < 0.5), rand_eps(rng)
        if e1.imag == 0 and rng.random() < 0.8:
            e2 = complex(e2.real, 0.0)
        mu, how = rand_mu(rng, e1, e2)
        if how == "critical":
            mu = mu * (1 - 1e-6)
        record({"kind": "fresnel", "e1": [e1.real, e1.imag], "e2": [e2.real, e2.imag], "mu": mu})
    # classes
    for side in ("interface", "substrate"):
        for module in plugin_modules(side):
            if (side, module) not in REG:
                findings.setdefault(f"{side}.{module}:unregistered", Finding(f"{side}.{module}:unregistered", "class unknown to the C12 harness",
                                    {"kind": "defaults", "side": side, "module": module}, "unregistered", "registered"))
                continue
            for j_ in range(200 if big else 25):
                case = sample_case(rng, side, module)
                if REG[(side, module)][0] == "nullspec":
                    continue                                # 1 - numerical integral: slow, and bounded by construction only approximately
                record(case)
                if j_ % 5 == 0 and module != "coherent_flat":
                    record(dict(case, kind="repeat"))
            if side == "substrate" and module in SOIL_KW:
                for model in ("dobson85", "hut_epss", "montpetit2008"):
                    record({"kind": "freqseq", "module": module, "model": model, "T": 275.0 if model != "montpetit2008" else 260.0,
                            "moisture": round(float(rng.uniform(0.1, 0.35)), 3), "mu": round(float(rng.uniform(0.4, 0.99)), 3),
                            "e1": [round(float(rng.uniform(1.0, 1.8)), 3), 0.0], "freqs": [1.4e9, 10.65e9, 37e9][::(1 if rng.random() < 0.5 else -1)]})
            if REG[(side, module)][0] == "nullspec":
                for j in range(16 if big else 6):
                    case = sample_case(rng, side, module)
                    case["kind"] = "go"
                    case["kw"] = {"mean_square_slope": float(rng.choice([0.01, 0.03, 0.1, 0.3, 0.6, 1.0])), "shadow_correction": bool(j % 2)}
                    if j % 3 == 0:          # a reflective lower medium seen at grazing incidence
                        case["e1"], case["e2"], case["mu"] = [1.0, 0.0], [float(rng.uniform(20, 80)), float(rng.uniform(5, 40))], float(rng.uniform(0.05, 0.2))
                    record(case)
            if REG[(side, module)][0] in ("reflector", "reflectorb"):
                for arg in (0.0, 0, 1.0, 1, {"V": 0.0, "H": 1.0}, {"$fn": [0.25, 0.6]}, {"V": {"$fn": [0.1, 0.3]}, "H": 0.4}):
                    case = sample_case(rng, side, module)
                    case["kw"] = {"specular_reflection": arg}
                    case["npol"] = 2              # the reflectors refuse three polarisations
                    record(case)
            if REG[(side, module)][0] in ("iem", "choudhury", "qnh"):
                for _ in range(40 if big else 6):
                    case = sample_case(rng, side, module)
                    case["kind"] = "smooth"
                    if "roughness_rms" in case["kw"]:
                        case["kw"]["roughness_rms"] = 0.0
                    else:
                        case["kw"].update({"H": 0.0, "Q": 0.0, "Nv": 1.0, "Nh": 1.0})
                    record(case)
            if side == "substrate" and module in ADAPTED and REG[(side, module)][0] != "nullspec":
                opts = {"iem": [dict(autocorrelation_function="gaussian"), dict(series_truncation=2), {}],
                        "null": ([dict(shadow_correction=False), {}] if module == "geometrical_optics" else [{}])}.get(REG[(side, module)][0], [{}])
                for j_ in range(20 if big else 3):
                    case = sample_case(rng, side, module)
                    case["kind"] = "adapter"
                    case["kw"] = dict(case["kw"], **opts[j_ % len(opts)])
                    case["e1"] = [case["e1"][0], 0.0]
                    record(case)
            if side == "substrate" and module in ADAPTED and REG[(side, module)][0] == "nullspec":
                case = sample_case(rng, side, module)
                case.update(kind="adapter", kw={"mean_square_slope": 0.05, "shadow_correction": False}, e1=[1.6, 0.0], e2=[12.0, 2.0], mu=0.8)
                record(case)
    return list(findings.values()), evals


def replay(inp, rp=None):
    r = run_check(inp)
    if not r:
        return None
    key, obs, req = r[0]
    return Finding(key, f"{inp['kind']} check: {obs}", inp, obs, req)
