"""C10 — every scattering theory conserves energy and its phase-function forms agree: correspondence harness and oracle."""
import math
import numpy as np
import common as C
from common import Corr, Tol, Finding, f2t, fs

PROP = "C10"
DRIVER = "C10"
LEAN_TARGETS = ["SmrtVerif.Props.C10", "SmrtVerif.Driver.C10"]
TRUSTED = ["correspondence harness harness/pC10.py and driver SmrtVerif/Driver/C10.lean",
           "np.sqrt / cmath.sqrt on complex numbers = principal root; np.arctan on complex numbers = principal arctangent; "
           "np.fft.fft is the DFT; np.linspace contract; x**n modelled as a product",
           "inputs of the model that the code computes elsewhere: layer permittivities (C13), frac_volume, the microstructure "
           "parameters, nsamples of generic_ft_even_matrix, the SCE second-order term A2 (quadrature over the microstructure "
           "functions) and, for the SCE phase function, the spectrum at the complex wavenumber the code evaluates it at",
           "real arithmetic in the theorems vs IEEE doubles in the code (rounding not modelled)"]
ASSUMPTIONS = ["snow layers: density 30-900 kg/m3, 200-273 K, 1-100 GHz, scatterer size/wavelength in [0.0002, 0.05] where size = sphere "
               "diameter, correlation length (the larger one for the unified Teubner-Strey model); "
               "background = air (real permittivity 1) unless the DMRT models invert the medium above frac_volume 0.5",
               "the Rayleigh class is modelled for a real background permittivity (with a complex one the code's `e0**2` makes ks complex)",
               "gaussian_random_field (spectrum by numerical FFT, C17) takes part in the oracle only",
               "IBA/SCE: agreement of the stream-frame 4pi integral with the Romberg 1-2-frame integral is a quadrature statement "
               "(2 %): no theorem, oracle only; ks >= 0 for SFT/DMRT/SCE (difference of two Im sqrt) likewise"]
RULE = ("every shipped emmodel x compatible microstructure model x random layers of the quantifier space x passive/active: "
        "ks, ka, eps_eff, ke(mu), phase() at random directions, ft_even_phase() modes 0..4; values are compared relative to "
        "their own magnitude (differences of nearly equal numbers relative to the larger operand); "
        "distinct = distinct (slice, input line)")

REL = 1e-9
REL_NUM = 1e-6          # where the code integrates numerically (Romberg)
ICE = 916.7


# ---------------------------------------------------------------------------------------------
# layers of the quantifier space

MS_PARAMS = {
    "exponential": lambda s, r: dict(corr_length=s),
    "independent_sphere": lambda s, r: dict(radius=s),
    "sticky_hard_spheres": lambda s, r: dict(radius=s, stickiness=gen_tau(r)),
    "teubner_strey": lambda s, r: dict(corr_length=s, repeat_distance=s * float(r.uniform(4, 20))),
    "unified_scaled_exponential": lambda s, r: dict(porod_length=s, polydispersity=float(r.uniform(0.6, 1.8))),
    "unified_teubner_strey": lambda s, r: dict(porod_length=s, polydispersity=float(r.choice([r.uniform(0.6, 0.98), r.uniform(1.02, 1.8)]))),
    "unified_sticky_hard_spheres": lambda s, r: dict(porod_length=s, polydispersity=float(r.uniform(0.7, 1.8))),
    "gaussian_random_field": lambda s, r: dict(corr_length=s, repeat_distance=s * float(r.uniform(6, 20))),
    "homogeneous": lambda s, r: dict(),
}


def gen_tau(rng):
    u = rng.random()
    if u < 0.2:
        return math.inf
    return float(10 ** rng.uniform(-0.7, 1.5))


LENGTHS = ("radius", "corr_length", "repeat_distance", "porod_length")


def char_size(m):
    """the scatterer size of a microstructure object: sphere diameter, correlation length (the larger one when two)"""
    if hasattr(m, "radius"):
        return 2 * float(m.radius)
    if hasattr(m, "zeta1"):
        return float(max(m.zeta1, m.zeta2))
    return float(getattr(m, "corr_length", 0.0))


def sized_params(rng, ms, size, density):
    """parameters of microstructure model `ms` whose scatterer size (char_size) is `size`"""
    from smrt.inputs.make_medium import make_snow_layer
    kw = MS_PARAMS[ms](size, rng)
    if not kw:
        return kw
    c = char_size(make_snow_layer(1.0, ms, density=density, temperature=260, **kw).microstructure)
    return {k: (v * size / c if k in LENGTHS else v) for k, v in kw.items()}


def ms_tokens(layer):
    """line fragment naming the microstructure model of the layer for the driver (None: not in Model/Microstructure.lean)"""
    m = layer.microstructure
    n = type(m).__name__
    f = f2t(m.frac_volume)
    tau = lambda t: "inf" if math.isinf(t) else f2t(t)
    if n == "Exponential":
        return f"exp {f} {f2t(m.corr_length)}"
    if n == "IndependentSphere":
        return f"sph {f} {f2t(m.radius)}"
    if n == "StickyHardSpheres":
        return f"shs {f} {f2t(m.radius)} {tau(float(m.stickiness))}"
    if n == "TeubnerStrey":
        return f"ts {f} {f2t(m.corr_length)} {f2t(m.repeat_distance)}"
    if n == "UnifiedScaledExponential":
        return f"use {f} {f2t(m.porod_length)} {f2t(m.polydispersity)}"
    if n == "UnifiedTeubnerStrey":
        return f"uts {f} {f2t(m.porod_length)} {f2t(m.polydispersity)}"
    if n == "UnifiedStickyHardSpheres":
        return f"ushs {f} {f2t(m.porod_length)} {f2t(m.polydispersity)}"
    if n == "Homogeneous":
        return "hom"
    return None


def gen_layer(rng, ms, dens_max=900.0, size_lo=0.002):
    from smrt.inputs.make_medium import make_snow_layer
    freq = float(10 ** rng.uniform(9, 11))
    lam = 299792458.0 / freq
    size = lam * float(10 ** rng.uniform(math.log10(size_lo), math.log10(0.05)))
    dens = float(rng.choice([30.0, dens_max])) if rng.random() < 0.06 else float(rng.uniform(30, dens_max))
    T = float(rng.uniform(200, 273))
    kw = sized_params(rng, ms, size, dens)
    lay = make_snow_layer(1.0, ms, density=dens, temperature=T, **kw)
    return lay, freq, dict(ms=ms, density=dens, temperature=T, frequency=freq, **kw)


def sensor(freq, active):
    from smrt import sensor_list
    return sensor_list.active(freq, 40) if active else sensor_list.passive(freq, 40)


def make_em(name, sens, lay):
    from smrt.core.plugin import import_class
    if name.startswith("derived_"):
        # the public factories: a theory built on another effective-permittivity (mixing) formula, e.g. derived_SCETK21:polder_van_santen
        import importlib
        fac, formula = name.split(":")
        module = {"derived_IBA": "iba", "derived_SCETK21": "sce_torquato21", "derived_SymSCETK21": "symsce_torquato21",
                  "derived_SCETK21_ShortRange": "sce_torquato21_shortrange", "derived_SymSCETK21_ShortRange": "symsce_torquato21_shortrange"}[fac]
        from smrt.permittivity import generic_mixing_formula as g
        return getattr(importlib.import_module("smrt.emmodel." + module), fac)(getattr(g, formula))(sens, lay)
    return import_class("emmodel", name)(sens, lay)


def cxt(z):
    z = complex(z)
    return f"{f2t(z.real)} {f2t(z.imag)}"


# ---------------------------------------------------------------------------------------------
# scaled comparison: every value relative to its own scale

def _rescale(mo, sc):
    toks = mo.split()
    if len(toks) != len(sc) or not all(C.is_ftok(t) for t in toks):
        return mo
    return " ".join(f2t(C.t2f(t) / s) for t, s in zip(toks, sc))


def addv(co, slice_, line, fn, scales=None, rel=REL, desc=None, linemax=False):
    """fn() -> sequence of numbers of the implementation (or raises); compared to the driver's numbers relative to `scales`
    (default: the magnitude of each value; linemax: the largest magnitude of the line)"""
    try:
        vals = np.asarray(fn(), dtype=float).ravel()
    except Exception as e:  # noqa
        co.add(slice_, line, C.err_kind(e), Tol(rel), desc=desc)
        co.note(f"{slice_}: {C.err_kind(e)}")
        return None
    if linemax:
        m = float(np.nanmax(np.abs(vals))) if vals.size else 1.0
        sc = np.full(vals.shape, m)
    elif scales is None:
        sc = np.abs(vals)
    else:
        sc = np.abs(np.asarray(scales, dtype=float).ravel())
    sc = np.where(np.isfinite(sc) & (sc > 0), sc, 1.0)
    co.add(slice_, line, fs(vals / sc), Tol(rel), desc=desc, post=lambda mo, sc=sc: _rescale(mo, sc))
    return vals


def ke_slots(em, rng):
    mu = rng.uniform(0.05, 1, int(rng.integers(1, 5)))
    v = np.asarray(em.ke(mu, npol=3).values, dtype=float)       # (3, len(mu))
    j = min(int(rng.integers(0, len(mu))), v.shape[1] - 1)     # (a 1-element-array ks gives one column whatever mu: oracle `ke-shape`)
    return v[:, j]


def dirs(rng):
    u = rng.random()
    mus = float(rng.uniform(-1, 1))
    mui = float(rng.uniform(0.02, 0.999))
    if rng.random() < 0.4:
        mui = -mui         # the solver asks for both hemispheres of the incident direction as well
    phi = float(rng.uniform(0, 2 * math.pi))
    if u < 0.1:
        mus = mui          # forward / backward geometry: scattering angle 0 at phi = 0
        phi = float(rng.choice([0.0, math.pi]))
    elif u < 0.15:
        mus = float(rng.choice([1.0, -1.0, 0.0]))
    return mus, mui, phi


def nsamples_of(m_max):
    """the default of generic_ft_even_matrix, evaluated with the same numpy expression"""
    return int(2 ** np.ceil(3 + np.log(m_max + 1) / np.log(2)))


# ---------------------------------------------------------------------------------------------

RAYLEIGH_MS = ["independent_sphere", "sticky_hard_spheres", "unified_sticky_hard_spheres"]
SFT_MS = ["exponential", "teubner_strey", "unified_scaled_exponential"]
IBA_MS = ["exponential", "independent_sphere", "sticky_hard_spheres", "teubner_strey", "unified_scaled_exponential",
          "unified_teubner_strey", "unified_sticky_hard_spheres", "homogeneous"]
SCE_LOCAL_MS = ["exponential", "independent_sphere", "sticky_hard_spheres", "homogeneous"]   # need inv_slope_at_origin + acf
IBAS = ["iba", "iba_original", "iba_maxwell_garnett"]
SCES = {"sce_rechtsman08": ("sce", SCE_LOCAL_MS), "sce_torquato21": ("sce", IBA_MS),
        "sce_torquato21_shortrange": ("sce", SCE_LOCAL_MS), "symsce_torquato21": ("symsce", IBA_MS),
        "symsce_torquato21_shortrange": ("symsce", SCE_LOCAL_MS)}


def phase_flat(em, mus, mui, phi, npol):
    p = em.phase(np.array([mus]), np.array([mui]), np.array([phi]), npol)
    return np.asarray(p.values)[:, :, 0, 0, 0].ravel()


def ft_flat(em, mus, mui, m_max, npol):
    p = em.ft_even_phase(np.array([mus]), np.array([mui]), m_max, npol=npol)
    return np.asarray(p.values)[:, :, :, 0, 0].ravel()      # p, q, m


def correspond(ctx):
    from smrt.emmodel import common as emc
    import scipy.integrate
    co = Corr(PROP, DRIVER)
    rng = ctx.np
    reps = ctx.n(3, 12)

    # ---- scipy.integrate.romb
    for k in range(0, 8):
        for _ in range(ctx.n(1, 3)):
            y = rng.uniform(-1, 2, 2 ** k + 1)
            dx = float(rng.uniform(0.01, 1))
            addv(co, "romb", f"romb {k} {f2t(dx)} {fs(y)}", lambda: [scipy.integrate.romb(y, dx)], scales=[np.abs(y).sum() * dx], rel=1e-12)

    # ---- the Rayleigh matrix and Ulaby's modes (rayleigh.py through a prescribed-ks instance: no layer physics involved)
    from smrt.emmodel.prescribed_kskaeps import Prescribed_KsKaEps

    class L:       # the three attributes Prescribed_KsKaEps reads
        pass
    for _ in range(ctx.n(25, 120)):
        lay = L(); lay.ks = float(10 ** rng.uniform(-4, 1)); lay.ka = float(10 ** rng.uniform(-3, 1)); lay.effective_permittivity = 1.5 + 1e-3j
        em = Prescribed_KsKaEps(None, lay)
        mus, mui, phi = dirs(rng)
        for npol in (2, 3):
            addv(co, "rayleigh.phase", f"rayphase {f2t(lay.ks)} {npol} {f2t(mus)} {f2t(mui)} {f2t(phi)}",
                 lambda: phase_flat(em, mus, mui, phi, npol), linemax=True, desc=dict(npol=npol, mu_s=mus, mu_i=mui, dphi=phi))
        p, sh = emc.rayleigh_scattering_matrix_and_angle(mus, mui, phi, 2)
        addv(co, "rayleigh.sin_half_scatt", f"sinhalf {f2t(mus)} {f2t(mui)} {f2t(phi)}", lambda: [float(sh.ravel()[0])], scales=[1.0])
        for npol_arg, m_max in [(2, 0), (3, 0), (3, int(rng.integers(1, 5))), (None, int(rng.integers(0, 5))), (2, int(rng.integers(1, 3)))]:
            addv(co, "rayleigh.ulaby", f"ulaby {f2t(lay.ks)} {npol_arg} {m_max} {f2t(mus)} {f2t(mui)}",
                 lambda: ft_flat(em, mus, mui, m_max, npol_arg), linemax=True, desc=dict(npol=npol_arg, m_max=m_max, mu_s=mus, mu_i=mui))
            co.note(f"ulaby npol={npol_arg} m_max{'=0' if m_max == 0 else '>0'}")
        addv(co, "ke", f"presc {f2t(lay.ks)} {f2t(lay.ka)}", lambda: ke_slots(em, rng))
        # the sign convention (`basis` of the theorems): the code's own Fourier helper applied to the code's phase() gives Ulaby's modes
        from smrt.core.lib import generic_ft_even_matrix
        if abs(mui) < 1:
            mm = int(rng.integers(2, 5))
            addv(co, "rayleigh.fourier_roundtrip", f"ulaby {f2t(lay.ks)} 3 {mm} {f2t(mus)} {f2t(mui)}",
                 lambda: np.asarray(generic_ft_even_matrix(lambda dphi: em.phase(np.array([mus]), np.array([mui]), dphi, 3), mm).values)[:, :, :, 0, 0].ravel(),
                 linemax=True, desc=dict(m_max=mm, mu_s=mus, mu_i=mui))

    # ---- scalar coefficients of the Rayleigh family
    for _ in range(reps * 4):
        for ms in RAYLEIGH_MS:
            lay, freq, d = gen_layer(rng, ms, dens_max=600 if ms != "independent_sphere" else 900)
            e0, eps = lay.permittivity(0, freq), lay.permittivity(1, freq)
            radius = lay.microstructure.radius
            line = f"ray {f2t(lay.frac_volume)} {f2t(e0)} {cxt(eps)} {f2t(radius)} {f2t(freq)}"

            def run():
                em = make_em("rayleigh", sensor(freq, False), lay)
                ee = complex(em.effective_permittivity())
                return [em.ks, em.ka, ee.real, ee.imag] + list(ke_slots(em, rng))
            addv(co, "rayleigh.kska", line, run, desc=d)
            co.note("rayleigh x " + ms)
        for name, op in (("dmrt_qca_shortrange", "qca"), ("dmrt_qcacp_shortrange", "qcacp")):
            lay, freq, d = gen_layer(rng, "sticky_hard_spheres")
            e0, eps = lay.permittivity(0, freq), lay.permittivity(1, freq)
            m = lay.microstructure
            tau = "inf" if math.isinf(m.stickiness) else f2t(m.stickiness)
            line = f"{op} {f2t(lay.frac_volume)} {cxt(e0)} {cxt(eps)} {f2t(m.radius)} {f2t(freq)} {tau}"

            def run():
                em = make_em(name, sensor(freq, False), lay)
                ee = complex(em.effective_permittivity())
                return em, [em.ks, em.ka, ee.real, ee.imag] + list(ke_slots(em, rng))
            try:
                em, v = run()
                b = abs(v[0]) + abs(v[1])
                addv(co, name, line, lambda: v, scales=[v[0], b, v[2], v[3], b, b, b], desc=d)
                co.note(name + (" inverted" if lay.frac_volume > 0.5 else ""))
            except Exception as e:  # noqa
                co.add(name, line, C.err_kind(e), Tol(REL), desc=d)
                co.note(name + " " + C.err_kind(e))
            fv = lay.frac_volume if lay.frac_volume <= 0.5 else 1 - lay.frac_volume
            mm = lay.microstructure if lay.frac_volume <= 0.5 else lay.microstructure.inverted_medium()
            addv(co, "shs.compute_t", f"computet {f2t(mm.frac_volume)} {tau}", lambda: [mm.compute_t()], desc=d)
        # strong fluctuation theory: ks is a difference of two nearly equal numbers
        ms = SFT_MS[int(rng.integers(0, len(SFT_MS)))]
        lay, freq, d = gen_layer(rng, ms, size_lo=0.01)
        e0, eps = lay.permittivity(0, freq), lay.permittivity(1, freq)
        line = f"sft {f2t(lay.frac_volume)} {cxt(e0)} {cxt(eps)} {f2t(lay.microstructure.corr_length)} {f2t(freq)}"
        try:
            em = make_em("sft_rayleigh", sensor(freq, False), lay)
            ee = complex(em.effective_permittivity())
            v = [em.ks, em.ka, ee.real, ee.imag] + list(ke_slots(em, rng))
            b = abs(v[0]) + abs(v[1])
            # the code's own I2..I4 cancel to order (k xi)^4: its rounding noise relative to ka is 1e-16/(k xi)^4-ish
            addv(co, "sft_rayleigh", line, lambda: v, scales=[b, b, v[2], v[3], b, b, b], rel=1e-6, desc=d)
            co.note("sft_rayleigh x " + ms)
        except Exception as e:  # noqa
            co.add("sft_rayleigh", line, C.err_kind(e), Tol(REL), desc=d)
        z = complex(rng.uniform(-2, 2), rng.uniform(-2, 2)) * float(10 ** rng.uniform(-3, 0))
        addv(co, "complex.arctan", f"catan {cxt(z)}", lambda: [np.arctan(z).real, np.arctan(z).imag], scales=[abs(z), abs(z)], rel=1e-12)
        # non-scattering medium
        ms = IBA_MS[int(rng.integers(0, len(IBA_MS)))]
        lay, freq, d = gen_layer(rng, ms)
        e0, eps = lay.permittivity(0, freq), lay.permittivity(1, freq)

        def run():
            em = make_em("nonscattering", sensor(freq, False), lay)
            ee = complex(em.effective_permittivity())
            return [em.ks, em.ka, ee.real, ee.imag] + list(ke_slots(em, rng))
        addv(co, "nonscattering", f"nonscat {f2t(lay.frac_volume)} {cxt(e0)} {cxt(eps)} {f2t(freq)}", run, desc=d)

    # ---- the sign-convention guard of effective_permittivity()
    from smrt.emmodel.iba import derived_IBA
    from smrt.core.layer import layer_properties
    for im in [0.0, 1e-3, -1e-12, -0.99e-10, -1.01e-10, -1e-3, float(-10 ** rng.uniform(-12, -8)), float(-10 ** rng.uniform(-12, -8))]:
        re = float(rng.uniform(1, 3))

        @layer_properties("frac_volume")
        def fake_mixing(frac_volume, e0, eps, re=re, im=im):
            return np.complex128(complex(re, im))

        def run():
            lay, freq, d = gen_layer(rng, "exponential")
            em = derived_IBA(fake_mixing)(sensor(freq, False), lay)
            ee = complex(em.effective_permittivity())
            return [ee.real, ee.imag]
        addv(co, "epseff_guard", f"epsguard {f2t(re)} {f2t(im)}", run, scales=[1.0, 1.0])
        co.note("guard raises" if im < -1e-10 else "guard passes")

    # ---- IBA family x microstructure
    for name in IBAS:
        for ms in IBA_MS:
            for _ in range(reps if ms != "homogeneous" else 1):
                active = bool(rng.integers(0, 2))
                lay, freq, d = gen_layer(rng, ms, dens_max=500 if "sticky" in ms else 900)
                d["emmodel"], d["active"] = name, active
                mt = ms_tokens(lay)
                e0, eps = lay.permittivity(0, freq), lay.permittivity(1, freq)
                base = f"{name} {f2t(lay.frac_volume)} {cxt(e0)} {cxt(eps)} {f2t(freq)}"
                try:
                    em = make_em(name, sensor(freq, active), lay)
                except Exception as e:  # noqa
                    co.add("iba.kska", f"iba {base} | {mt}", C.err_kind(e), Tol(REL), desc=d)
                    continue
                ee = complex(em.effective_permittivity())
                b = abs(em.ks) + abs(em.ka)
                ksc = em.ks if em.ks > 0 else 1.0
                addv(co, "iba.kska", f"iba {base} | {mt}",
                     lambda: [em.ks, em.ka, ee.real, ee.imag, em.iba_coeff] + list(ke_slots(em, rng)),
                     scales=[ksc, em.ka, ee.real, ee.imag, em.iba_coeff, b, b, b], rel=REL_NUM, desc=d)
                co.note(f"{name} x {ms}")
                mu = float(rng.uniform(-1, 1))
                addv(co, "iba.ks_integrand", f"ibaintegrand {base} {f2t(mu)} | {mt}",
                     lambda: [float(np.asarray(em.ks_integrand(np.array([mu]))).ravel()[0])], rel=1e-8, desc=d)
                mus, mui, phi = dirs(rng)
                npol = 3 if active else 2
                addv(co, "iba.phase", f"ibaphase {base} {npol} {f2t(mus)} {f2t(mui)} {f2t(phi)} | {mt}",
                     lambda: phase_flat(em, mus, mui, phi, npol), linemax=True, rel=1e-8, desc=dict(d, mu_s=mus, mu_i=mui, dphi=phi))
                m_max = 0 if not active else int(rng.integers(0, 5))
                if rng.random() < 0.05:
                    mui = 1.0
                addv(co, "iba.ft_even_phase", f"ibaft {base} {npol} {nsamples_of(m_max)} {m_max} {f2t(mus)} {f2t(mui)} | {mt}",
                     lambda: ft_flat(em, mus, mui, m_max, None), linemax=True, rel=1e-8, desc=dict(d, m_max=m_max, mu_s=mus, mu_i=mui))
                co.note("iba ft " + ("active" if active else "passive") + (" mu_i=1" if mui == 1.0 else ""))

    # ---- SCE family
    # the short-range second-order term compute_A2_local (4097-point Romberg integral of r acf(r), real and complex wavenumbers)
    from smrt.emmodel import sce_common
    for ms in [m_ for m_ in SCE_LOCAL_MS if m_ != "homogeneous"]:
        for j in range(ctx.n(2, 8)):
            lay, freq, d = gen_layer(rng, ms, dens_max=450 if "sticky" in ms else 900, size_lo=0.01)
            mic = lay.microstructure
            k0 = 2 * np.pi * freq / 299792458.0
            Q = complex(k0 * np.sqrt(lay.permittivity(0, freq))) if j % 2 == 0 else complex(k0 * np.sqrt(1.3 + 0.4 * rng.random() + 1e-3j * rng.random()))
            sl = float(mic.inv_slope_at_origin)
            r = np.linspace(0, 8 * sl, 4097)
            g = np.real(np.asarray(mic.autocorrelation_function(r), dtype=complex))
            ft0 = float(np.squeeze(mic.ft_autocorrelation_function(0)))

            def run(Q=Q, mic=mic):
                a2 = complex(np.ravel(sce_common.compute_A2_local(Q if Q.imag != 0 else Q.real, mic))[0])
                return [a2.real, a2.imag]
            addv(co, "sce.A2_local", f"a2local {f2t(ft0)} {f2t(sl)} {cxt(Q)} " + fs(g), run, linemax=True, rel=1e-9,
                 desc=dict(d, Q=[Q.real, Q.imag], what="compute_A2_local"))
            co.note(f"compute_A2_local x {ms} " + ("real Q" if Q.imag == 0 else "complex Q"))
    for name, (op, mss) in SCES.items():
        for ms in mss:
            for _ in range(ctx.n(1, 4) if ms != "homogeneous" else 1):
                active = bool(rng.integers(0, 2))
                lay, freq, d = gen_layer(rng, ms, dens_max=450 if "sticky" in ms else 900, size_lo=0.01)
                d["emmodel"], d["active"] = name, active
                mt = ms_tokens(lay)
                e0, eps = lay.permittivity(0, freq), lay.permittivity(1, freq)
                try:
                    em = make_em(name, sensor(freq, active), lay)
                except Exception as e:  # noqa
                    co.note(f"{name} x {ms}: constructor {C.err_kind(e)}")
                    continue
                a2 = (cxt(np.ravel(em.A2)[0]) if op == "sce" else cxt(np.ravel(em.A2A2inv[0])[0]) + " " + cxt(np.ravel(em.A2A2inv[1])[0]))
                ee = complex(em.effective_permittivity())
                ks, ka, kee = float(np.ravel(em.ks)[0]), float(em.ka), float(np.ravel(em._ke)[0])
                em.phase(np.array([0.3]), np.array([0.4]), np.array([0.1]), 2)     # sets _phase_norm
                norm = float(np.ravel(em._phase_norm)[0])
                b = abs(kee) + abs(ka)
                addv(co, "sce.kska", f"{op} {f2t(lay.frac_volume)} {cxt(e0)} {cxt(eps)} {f2t(freq)} {a2} | {mt}",
                     lambda: [kee, ks, ka, ee.real, ee.imag, norm] + list(ke_slots(em, rng)),
                     scales=[kee, kee, ka, ee.real, ee.imag, max(abs(norm), 1e-300) * max(1.0, kee / max(abs(ks), 1e-300)), b, b, b],
                     rel=REL_NUM, desc=d)
                co.note(f"{name} x {ms}")
                if ks == 0:
                    continue
                mus, mui, phi = dirs(rng)
                npol = 3 if active else 2
                _, sh = emc.rayleigh_scattering_matrix_and_angle(mus, mui, phi, npol)
                kd = 2. * em.k0 * np.sqrt(em._effective_permittivity) * sh
                addv(co, "sce.kdiff", f"scekdiff {f2t(em.k0)} {cxt(ee)} {f2t(mus)} {f2t(mui)} {f2t(phi)}",
                     lambda: [kd.ravel()[0].real, kd.ravel()[0].imag], scales=[abs(kd.ravel()[0])] * 2, desc=d)
                ftc = complex(np.ravel(em.microstructure.ft_autocorrelation_function(kd))[0])

                def ph():
                    v = phase_flat(em, mus, mui, phi, npol)
                    return np.stack([v.real, v.imag], axis=-1).ravel()
                addv(co, "sce.phase", f"scephase {f2t(norm)} {cxt(ftc)} {npol} {f2t(mus)} {f2t(mui)} {f2t(phi)}", ph, linemax=True, desc=d)
                m_max = 0 if not active else int(rng.integers(0, 5))
                N = nsamples_of(m_max)
                dphi = np.linspace(0, np.pi, N // 2 + 1)
                _, shs_ = emc.rayleigh_scattering_matrix_and_angle(mus, mui, dphi, npol)
                kds = 2. * em.k0 * np.sqrt(em._effective_permittivity) * shs_.ravel()
                fts = np.asarray(em.microstructure.ft_autocorrelation_function(kds), dtype=complex).ravel()
                addv(co, "sce.ft_even_phase", f"sceft {f2t(norm)} {npol} {N} {m_max} {f2t(mus)} {f2t(mui)} " + fs(np.stack([fts.real, fts.imag], -1)),
                     lambda: ft_flat(em, mus, mui, m_max, None), linemax=True, rel=1e-8, desc=dict(d, m_max=m_max))
    return co


# ---------------------------------------------------------------------------------------------
# the property itself on the implementation

ALL_PAIRS = ([("rayleigh", m) for m in RAYLEIGH_MS] + [("sft_rayleigh", m) for m in SFT_MS + ["gaussian_random_field"]]
             + [("dmrt_qca_shortrange", "sticky_hard_spheres"), ("dmrt_qcacp_shortrange", "sticky_hard_spheres")]
             + [(n, m) for n in IBAS for m in IBA_MS[:-1] + ["gaussian_random_field"]]
             + [(n, m) for n, (_, mss) in SCES.items() for m in mss[:-1 if mss[-1] == "homogeneous" else None]]
             + [("sce_torquato21", "gaussian_random_field"), ("nonscattering", "exponential"), ("prescribed_kskaeps", "homogeneous")]
             # the same theories built by their public factories on the other shipped two-phase mixing formula
             + [("derived_IBA:maxwell_garnett_for_spheres", "exponential"), ("derived_SCETK21:polder_van_santen", "exponential"),
                ("derived_SymSCETK21:maxwell_garnett_for_spheres", "exponential"), ("derived_SCETK21_ShortRange:polder_van_santen", "exponential"),
                ("derived_SymSCETK21_ShortRange:maxwell_garnett_for_spheres", "exponential")])

# dense, scattering-dominated media (fractional volume above one half: the theories work on the phase-inverted medium)
DENSE_CASES = [
    dict(emmodel="dmrt_qcacp_shortrange", ms="sticky_hard_spheres", ms_params=dict(radius=6e-4, stickiness=0.5), density=550.0,
         temperature=205.0, frequency=10e9, active=False, mu_i=[0.3, 0.6], dirs=[[0.3, 0.6]]),
    dict(emmodel="dmrt_qcacp_shortrange", ms="sticky_hard_spheres", ms_params=dict(radius=3.16e-4, stickiness=0.5), density=550.0,
         temperature=205.0, frequency=19e9, active=False, mu_i=[0.3, 0.6], dirs=[[0.3, 0.6]]),
    dict(emmodel="dmrt_qcacp_shortrange", ms="sticky_hard_spheres", ms_params=dict(radius=4e-4, stickiness=0.5), density=650.0,
         temperature=220.0, frequency=13e9, active=True, mu_i=[0.3, 0.6], dirs=[[0.3, 0.6]]),
    dict(emmodel="dmrt_qca_shortrange", ms="sticky_hard_spheres", ms_params=dict(radius=6e-4, stickiness=0.5), density=650.0,
         temperature=260.0, frequency=10e9, active=False, mu_i=[0.3, 0.6], dirs=[[0.3, 0.6]]),
    dict(emmodel="dmrt_qca_shortrange", ms="sticky_hard_spheres", ms_params=dict(radius=3e-4, stickiness=0.5), density=750.0,
         temperature=260.0, frequency=37e9, active=False, mu_i=[0.3, 0.6], dirs=[[0.3, 0.6]]),
]


def build_case(inp):
    """emmodel instance from a JSON-able description"""
    from smrt.inputs.make_medium import make_snow_layer
    kw = dict(inp["ms_params"])
    if kw.get("stickiness") == "inf":
        kw["stickiness"] = math.inf
    lay = make_snow_layer(1.0, inp["ms"], density=inp["density"], temperature=inp["temperature"], **kw)
    if inp["emmodel"] == "prescribed_kskaeps":
        lay.ks, lay.ka, lay.effective_permittivity = inp["ks"], inp["ka"], complex(*inp["eps"])
    return make_em(inp["emmodel"], sensor(inp["frequency"], inp["active"]), lay)


def fourier_of_phase(em, mus, mui, npol, m_max, nphi=64):
    """azimuthal Fourier coefficients of phase() by direct summation on a full period, in the solver's sign convention"""
    dphi = np.arange(nphi) * (2 * np.pi / nphi)
    p = np.asarray(em.phase(np.array([mus]), np.array([mui]), dphi, npol).values)[:, :, :, 0, 0].real      # p, q, k
    out = np.zeros((npol, npol, m_max + 1))
    for m in range(m_max + 1):
        c = (p * np.cos(m * dphi)).sum(-1) * ((1.0 if m == 0 else 2.0) / nphi)
        s = (p * np.sin(m * dphi)).sum(-1) * (2.0 / nphi)
        out[:, :, m] = c
        if npol == 3 and m > 0:
            out[0:2, 2, m] = -s[0:2, 2]
            out[2, 0:2, m] = s[2, 0:2]
        if npol == 3 and m == 0:
            out[0:2, 2, m] = 0
            out[2, 0:2, m] = 0
    return out


def check_case(inp):
    """all sub-claims of the property on one emmodel instance; list of (key-suffix, what, observed, required)"""
    import scipy.integrate
    bad = []
    em = build_case(inp)
    name = inp["emmodel"]
    ks, ka = float(np.ravel(em.ks)[0]), float(np.ravel(em.ka)[0])
    ee = complex(em.effective_permittivity())
    if not ks >= 0:
        bad.append(("ks-sign", "ks < 0", ks, ">= 0"))
    if not ka >= 0:
        bad.append(("ka-sign", "ka < 0", ka, ">= 0"))
    if not ee.imag >= 0:
        bad.append(("epseff-sign", "Im eps_eff < 0", ee.imag, ">= 0"))
    mu = np.array(inp["mu_i"])
    for npol in (2, 3):
        kem = np.asarray(em.ke(mu, npol=npol).values, dtype=float)
        if kem.shape != (npol, len(mu)):
            bad.append(("ke-shape", f"ke(mu, npol={npol}) is not one extinction per polarisation and direction (ks is {type(em.ks).__name__} "
                        f"of shape {np.shape(em.ks)}): DORT cannot run this pairing", list(kem.shape), [npol, len(mu)]))
        if not np.allclose(kem, ks + ka, rtol=1e-12, atol=0):
            bad.append(("ke-sum", "ke != ks + ka", kem.tolist(), ks + ka))
    mu_s = np.linspace(-1, 1, 129)
    for npol in ((2, 3) if inp["active"] else (2,)):
        ft = np.asarray(em.ft_even_phase(mu_s, mu, 0, npol=npol).values, dtype=float)      # p, q, 0, mu_s, mu_i
        for pol in (0, 1):
            for j in range(len(mu)):
                integ = 2 * np.pi * scipy.integrate.simpson(ft[0, pol, 0, :, j] + ft[1, pol, 0, :, j], x=mu_s) / (4 * np.pi)
                if not abs(integ - ks) <= 0.02 * abs(ks):
                    bad.append(("energy", f"integrated phase matrix differs from ks by more than 2 % (npol={npol}, pol={pol}, mu_i={mu[j]})",
                                float(integ), ks))
    # phase() against ft_even_phase(): the code's Fourier modes are those of the direction-resolved function
    npol = 3 if inp["active"] else 2
    m_max = 4 if inp["active"] else 0
    from smrt.emmodel.rayleigh import Rayleigh
    analytic = isinstance(em, Rayleigh) or name == "nonscattering"
    # analytic modes (Rayleigh family): the matrix is band-limited, fine sampling gives its Fourier coefficients exactly: 1e-8.
    # FFT-based modes (IBA/SCE): (i) they must be the discrete Fourier coefficients of phase() sampled on the *full* period with the
    # code's own nsamples (tests mirroring, parity and sign conventions) at 1e-8; (ii) against fine sampling the 8..64-point
    # azimuthal quadrature has a discretisation error (up to 3e-3 at size/lambda = 0.05): judged at the 2 % of the statement.
    plans = [(128, 1e-8)] if analytic else [(nsamples_of(m_max), 1e-8), (128, 2e-2)]
    for (mus, mui) in inp["dirs"]:
        got = np.asarray(em.ft_even_phase(np.array([mus]), np.array([mui]), m_max, npol=npol).values)[:, :, :, 0, 0].real
        for nphi, tol in plans:
            ref = fourier_of_phase(em, mus, mui, npol, m_max, nphi)
            sc = max(np.abs(ref).max(), 1e-300)
            err = float(np.abs(got - ref).max() / sc) if ks > 0 else float(np.abs(got - ref).max())
            if not err <= tol:
                bad.append(("fourier", f"ft_even_phase() modes differ from the Fourier sums of phase() on {nphi} azimuths "
                            f"(mu_s={mus}, mu_i={mui}, npol={npol})", err, f"<= {tol} of the largest coefficient"))
        # the direction-resolved function is a function of the direction: its value at an azimuth does not depend on which other azimuths
        # are asked for in the same call, nor on what was evaluated before (an irregular grid with the ends and the length of the code's own)
        K = nsamples_of(m_max) // 2 + 1
        grid = np.concatenate(([0.0], np.sort(np.pi * (0.5 - 0.5 * np.cos(np.pi * (np.arange(1, K - 1) + 0.3) / (K - 1)))), [np.pi]))
        together = np.asarray(em.phase(np.array([mus]), np.array([mui]), grid, npol).values)[:, :, :, 0, 0].real
        for j in sorted({1, K // 2, K - 2} & set(range(K))):
            alone = np.asarray(em.phase(np.array([mus]), np.array([mui]), np.array([grid[j]]), npol).values)[:, :, 0, 0, 0].real
            sc = max(np.abs(together).max(), 1e-300)
            if not float(np.abs(together[:, :, j] - alone).max() / sc) <= 1e-10:
                bad.append(("phase-function", f"phase() at azimuth {grid[j]:.6f} depends on the other azimuths of the call or on earlier calls "
                            f"(mu_s={mus}, mu_i={mui}, npol={npol})", float(np.abs(together[:, :, j] - alone).max() / sc), "<= 1e-10"))
                break
    return bad


def gen_case(rng, name, ms):
    freq = float(10 ** rng.uniform(9, 11))
    lam = 299792458.0 / freq
    size = lam * float(10 ** rng.uniform(math.log10(2e-4), math.log10(0.05)))
    dmax = 450.0 if "sticky" in ms else 900.0
    dens = float(rng.uniform(30, dmax))
    kw = sized_params(rng, ms, size, dens)
    if "stickiness" in kw and math.isinf(kw["stickiness"]):
        kw["stickiness"] = "inf"
    inp = dict(emmodel=name, ms=ms, ms_params=kw, density=dens, temperature=float(rng.uniform(200, 273)),
               frequency=freq, active=bool(rng.integers(0, 2)), mu_i=[float(v) for v in rng.uniform(0.02, 0.98, 3)],
               dirs=[[float(rng.uniform(-1, 1)), float(rng.uniform(0.02, 0.98))] for _ in range(2)])
    if name == "prescribed_kskaeps":
        inp.update(ks=float(10 ** rng.uniform(-3, 1)), ka=float(10 ** rng.uniform(-3, 1)), eps=[float(rng.uniform(1, 3)), float(10 ** rng.uniform(-5, -2))])
    return inp


def site(name, suffix):
    """stable identifier of the defect site"""
    if suffix == "ke-shape" and name.endswith("_shortrange"):
        return "sce_common.compute_A2_local:ke-shape"
    return f"{name}:{suffix}"


WITNESSES = [
    # dmrt_qca_shortrange returns a negative absorption coefficient for weakly absorbing ice (cold, low frequency): diameter/lambda = 0.04
    dict(emmodel="dmrt_qca_shortrange", ms="sticky_hard_spheres", ms_params=dict(radius=0.005, stickiness=0.4), density=150.0,
         temperature=215.0, frequency=1.2e9, active=False, mu_i=[0.5], dirs=[[0.3, 0.6]]),
    # sce_torquato21_shortrange x sticky_hard_spheres: ks is a 1-element array, ke(mu) has one column
    dict(emmodel="sce_torquato21_shortrange", ms="sticky_hard_spheres", ms_params=dict(radius=2e-4, stickiness=0.3), density=300.0,
         temperature=260.0, frequency=37e9, active=False, mu_i=[0.3, 0.5, 0.7], dirs=[[0.3, 0.6]]),
]


def witnesses(ctx):
    """fixed inputs on which the unchanged code is known to fail the property (re-evaluated on every run)"""
    out = []
    for inp in WITNESSES:
        try:
            bad = check_case(inp)
        except Exception:  # noqa
            continue
        seen = set()
        for suffix, what, obs, req in bad:
            if suffix not in seen:
                seen.add(suffix)
                out.append(Finding(site(inp["emmodel"], suffix), f"{inp['emmodel']} x {inp['ms']}: {what}", inp, obs, req))
    return out


def oracle(ctx, hints, effort):
    rng = ctx.np
    findings, evals = {}, 0
    reps = 1 if effort == "routine" else 12
    for name, ms in [(c_["emmodel"], c_) for c_ in DENSE_CASES] + list(ALL_PAIRS):
        for _ in range(reps if not isinstance(ms, dict) else 1):
            inp = gen_case(rng, name, ms) if not isinstance(ms, dict) else ms
            ms = inp["ms"]
            evals += 1
            try:
                bad = check_case(inp)
            except Exception as e:  # noqa
                from smrt.core.error import SMRTError
                if isinstance(e, SMRTError):
                    continue          # a loud refusal (e.g. no solution for the stickiness parameter) is not a wrong value
                bad = [("exception", f"{type(e).__name__}: {e}", type(e).__name__, "a value")]
            for suffix, what, obs, req in bad:
                key = site(name, suffix) + (":dense" if any(inp is c_ for c_ in DENSE_CASES) else "")
                f = Finding(key, f"{name} x {ms}: {what}", inp, obs, req)
                if key not in findings:
                    findings[key] = f
    return list(findings.values()), evals


def replay(inp, rp=None):
    bad = check_case(inp)
    if not bad:
        return None
    want = (rp or {}).get("key", "")
    if want.endswith(":dense"):
        want = want[:-len(":dense")]
    for suffix, what, obs, req in bad:
        if not want or want.endswith(":" + suffix):
            return Finding(want or site(inp["emmodel"], suffix), what, inp, obs, req)
    suffix, what, obs, req = bad[0]
    return Finding(site(inp["emmodel"], suffix), what, inp, obs, req)
