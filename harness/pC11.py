"""C11 — scattering theories agree in their common validity domain (Rayleigh limit, sticky hard spheres, eps_eff limits,
phase-inverted twins)."""
import math
import numpy as np
import common as C
from common import Corr, Tol, Finding, f2t

PROP = "C11"
DRIVER = "C11"
LEAN_TARGETS = ["SmrtVerif.Props.C11", "SmrtVerif.Driver.C11"]
TRUSTED = ["correspondence harness harness/pC11.py and driver SmrtVerif/Driver/C11.lean",
           "IEEE double arithmetic of the driver vs numpy/CPython (complex division, csqrt, libm): rounding only; scattering "
           "coefficients are compared at 1e-7 relative (they are differences of nearly equal extinctions in the SCE family), "
           "everything else at 1e-9",
           "second-order coefficients A2 / A2inv of the strong-contrast expansions are taken from the implementation "
           "(numerical quadrature, passed on the line); their analytic values are compared at 1e-3 for the exponential and "
           "sphere models (local form both parts, non-local form imaginary part of the exponential model)",
           "IBA.compute_ks is compared in the static regime only (k_diff * radius <= 1e-3, where the sphere spectra are "
           "constant by construction and the Romberg rule is exact); the full angular integration belongs to C10",
           "the 'static, dilute' IBA form is observed on a real IBA instance whose _effective_permittivity is set to e0 before "
           "calling its own compute_iba_coeff / compute_ks"]
ASSUMPTIONS = ["oracle domain: frequency 1-40 GHz, radius/lambda in [1e-4, 0.01), fractional volume in [1e-4, 0.05); ice scatterers "
               "(ice_permittivity_maetzler06, 200-273 K) in air; stickiness in [0.1, 1000] or infinite",
               "'reduce to independent Rayleigh scattering within 10 %' is read on the independent_sphere microstructure for iba, "
               "iba_original, iba_maxwell_garnett, sce_torquato21, symsce_torquato21 (DESIGN §4 C11); the short-range SCE variants "
               "are not named by the statement",
               "frequency^4 x size^3 scaling is evaluated with frequency-independent permittivities",
               "eps_eff limits: exact at f in {0,1} (1e-9) and |eps_eff - limit| <= 2 f |eps - e0| for f <= 0.01",
               "inversion twins: ke, ks, eps_eff of layer and layer.inverted_medium() agree at 1e-9 relative to ke (ks: 1e-9 ke)"]
RULE = ("seeded random layers (frequency, radius/lambda, fractional volume, permittivities incl. lossy backgrounds and inverted "
        "media, stickiness incl. inf and inadmissible values) given to the real emmodel classes; distinct = distinct (slice, line)")

C_SPEED = 299792458.
MICRO_INV = ["exponential", "independent_sphere", "sticky_hard_spheres", "teubner_strey", "gaussian_random_field",
             "unified_scaled_exponential", "unified_teubner_strey", "unified_sticky_hard_spheres"]


# ---------------------------------------------------------------------------------------------
# smrt access

def em(name):
    from smrt.core.plugin import import_class
    if name.startswith("derived_"):
        # the public factories: a theory with another effective-permittivity (mixing) formula, e.g. derived_SCETK21:polder_van_santen
        import importlib
        fac, formula = name.split(":")
        module = {"derived_IBA": "iba", "derived_SCETK21": "sce_torquato21", "derived_SymSCETK21": "symsce_torquato21"}[fac]
        from smrt.permittivity import generic_mixing_formula as g
        return getattr(importlib.import_module("smrt.emmodel." + module), fac)(getattr(g, formula))
    return import_class("emmodel", name)


def mk_layer(ms, f, e0, eps, T=260., **kw):
    from smrt.core.layer import Layer, get_microstructure_model
    return Layer(1.0, get_microstructure_model(ms), frac_volume=f, temperature=T, permittivity_model=(e0, eps), **kw)


def sensor(nu):
    from smrt.core.sensor import passive
    return passive(nu, 55)


def ice_eps(nu, T):
    from smrt.permittivity.ice import ice_permittivity_maetzler06
    return complex(ice_permittivity_maetzler06(nu, T))


def micro_params(ms, rng, size):
    """parameters of every microstructure model with a characteristic size `size` (m)"""
    if ms == "exponential":
        return {"corr_length": size}
    if ms == "independent_sphere":
        return {"radius": size}
    if ms == "sticky_hard_spheres":
        return {"radius": size, "stickiness": float(rng.choice([0.2, 1.0, 1000.]))}
    if ms in ("teubner_strey", "gaussian_random_field"):
        return {"corr_length": size, "repeat_distance": size * float(rng.uniform(4, 12))}
    if ms.startswith("unified"):
        return {"porod_length": size, "polydispersity": float(rng.uniform(0.6, 1.8))}
    raise ValueError(ms)


# ---------------------------------------------------------------------------------------------
# generators

def gen_nu(rng):
    return float(10 ** rng.uniform(9, math.log10(40e9)))


def gen_rl(rng, lo=1e-4):
    return float(min(10 ** rng.uniform(math.log10(lo), -2), 0.00999))


def gen_f(rng, lo=1e-4):
    return float(min(10 ** rng.uniform(math.log10(lo), math.log10(0.05)), 0.04999))


def gen_media(rng, kind=None):
    """(e0 handed to smrt, eps handed to smrt, label)"""
    k = int(rng.integers(0, 6)) if kind is None else kind
    eps = complex(rng.uniform(3.1, 3.2), 10 ** rng.uniform(-4, -2))
    if k <= 1:
        return 1.0, eps, "air(float)/ice"
    if k == 2:
        return complex(1.0, 0.0), eps, "air(complex)/ice"
    if k == 3:
        return float(rng.uniform(1.0, 2.5)), complex(rng.uniform(3, 80), rng.uniform(0, 40)), "real background/any scatterer"
    if k == 4:
        return eps, 1.0, "ice/air (inverted)"
    return complex(rng.uniform(1.0, 2.5), 10 ** rng.uniform(-4, -1)), eps, "lossy background/ice"


def ct(z):
    z = complex(z)
    return f"{f2t(z.real)} {f2t(z.imag)}"


def tau_tok(tau):
    return "inf" if math.isinf(tau) else f2t(tau)


def relpost(vals, rel):
    """post-processor: a model token within `rel` (relative) of the implementation's value is replaced by it, so that the
    default comparison then accepts it; used where the quantities are many orders below 1"""
    def post(mo):
        toks = mo.split()
        if len(toks) != len(vals):
            return mo
        out = []
        for t, v in zip(toks, vals):
            if C.is_ftok(t):
                m = C.t2f(t)
                if (math.isnan(m) and math.isnan(v)) or m == v or abs(m - v) <= rel * max(abs(v), abs(m)):
                    out.append(f2t(v))
                    continue
            out.append(t)
        return " ".join(out)
    return post


def add(co, slice_, line, fn, rel=1e-9, desc=None, nontrivial=True):
    """run `fn` (returns a list of floats) on the implementation; errors become tokens"""
    try:
        vals = [float(v) for v in fn()]
        co.add(slice_, line, C.fs(vals), Tol(1e-12), desc=desc, post=relpost(vals, rel), nontrivial=nontrivial)
        return vals
    except Exception as e:  # noqa
        co.add(slice_, line, C.err_kind(e), Tol(), desc=desc, nontrivial=False)
        co.note(f"{slice_} -> {C.err_kind(e)}")
        return None


def parts(z):
    z = complex(z)
    return [z.real, z.imag]


# ---------------------------------------------------------------------------------------------
# correspondence

def correspond(ctx):
    C.import_smrt()
    from smrt.emmodel import sce_common
    from smrt.core.layer import get_microstructure_model
    rng = ctx.np
    co = Corr(PROP, DRIVER)

    # 1. rayleigh.py
    for i in range(ctx.n(40, 400)):
        nu, rl, f = gen_nu(rng), gen_rl(rng), gen_f(rng)
        if i % 10 == 0:
            f = float(rng.uniform(0, 1))
        e0, eps, lab = gen_media(rng)
        r = rl * C_SPEED / nu
        lay = mk_layer("independent_sphere", f, e0, eps, radius=r)
        s = sensor(nu)
        line = f"rayleigh {f2t(nu)} {f2t(f)} {f2t(r)} {ct(e0)} {ct(eps)}"
        add(co, "rayleigh", line, lambda: (lambda m: parts(m.ks) + [m.ka.real if isinstance(m.ka, complex) else m.ka])(em("rayleigh")(s, lay)),
            desc={"nu": nu, "f": f, "radius": r, "e0": complex(e0), "eps": complex(eps)})
        if complex(e0).imag == 0:
            add(co, "rayleigh.per-volume", f"raypv {f2t(nu)} {f2t(r)} {ct(e0)} {ct(eps)}",
                lambda: [complex(em("rayleigh")(s, lay).ks).real / f], rel=1e-9, desc={"nu": nu, "f": f, "radius": r})
        co.note("rayleigh media: " + lab)

    # 2. effective-permittivity closures at the limits and inside
    closures = [("pvs", "iba"), ("mg", "iba_maxwell_garnett"), ("mgs", "sce_torquato21_shortrange"), ("pvs", "symsce_torquato21_shortrange")]
    for i in range(ctx.n(48, 480)):
        nu = gen_nu(rng)
        f = [0.0, 1.0, float(rng.uniform(0, 1)), gen_f(rng)][i % 4]
        e0, eps, lab = gen_media(rng, kind=[0, 2, 3, 4, 5][int(rng.integers(0, 5))])
        kind, name = closures[(i // 4) % 4]
        if kind == "mgs" and f == 0.0:
            co.note("eeff mgs f=0 skipped: the non-symmetric SCE constructor divides by f (ZeroDivisionError, a loud refusal)")
            continue
        lay = mk_layer("exponential", f, e0, eps, corr_length=1e-4)
        s = sensor(nu)
        add(co, "eeff." + kind, f"eeff {kind} {f2t(f)} {ct(e0)} {ct(eps)}", lambda: parts(em(name)(s, lay).effective_permittivity()),
            desc={"emmodel": name, "f": f, "e0": complex(e0), "eps": complex(eps)})
        co.note(f"eeff {kind} via {name}" + (" f=0" if f == 0 else " f=1" if f == 1 else ""))

    # 3. IBA coefficient (mean squared field ratio, iba_coeff, ka) with the model's own closure, and in the dilute form
    for i in range(ctx.n(45, 450)):
        nu, f = gen_nu(rng), (gen_f(rng) if i % 3 else float(rng.uniform(0, 0.5)))
        e0, eps, lab = gen_media(rng)
        kind = ["pvs", "mg", "dilute"][i % 3]
        lay = mk_layer("independent_sphere", f, e0, eps, radius=1e-4)
        s = sensor(nu)

        def run():
            m = em("iba_maxwell_garnett" if kind == "mg" else "iba")(s, lay)
            if kind == "dilute":
                m._effective_permittivity = complex(m.e0)
            ee = complex(m._effective_permittivity)
            return [ee.real, ee.imag, m.mean_sq_field_ratio(), m.compute_iba_coeff(), m.compute_ka()]
        add(co, "iba.coeff." + kind, f"ibacoeff {kind} {f2t(nu)} {f2t(f)} {ct(e0)} {ct(eps)}", run,
            desc={"nu": nu, "f": f, "e0": complex(e0), "eps": complex(eps), "closure": kind})
        co.note(f"iba.coeff {kind} media: {lab}")

    # 4. IBA scattering coefficient in the static regime (spectrum constant over the 65 Romberg nodes)
    for i in range(ctx.n(60, 600)):
        nu, f = gen_nu(rng), gen_f(rng)
        e0, eps, lab = gen_media(rng, kind=[0, 0, 2, 5][int(rng.integers(0, 4))])
        # static regime: 2 k0 |sqrt(eps_eff)| radius < 1e-3, i.e. radius/lambda < 1e-3 / (4 pi |sqrt(eps_eff)|)
        rl = float(10 ** rng.uniform(-6, math.log10(7e-5 / math.sqrt(1.15 * abs(complex(e0))))))
        kind = ["pvs", "mg", "dilute"][i % 3]
        micro = ["sph", "shs"][(i // 3) % 2]
        tau = float([np.inf, 10 ** rng.uniform(-1, 3), rng.uniform(0.1, 0.3)][int(rng.integers(0, 3))])
        r = rl * C_SPEED / nu
        kw = {"radius": r} if micro == "sph" else {"radius": r, "stickiness": tau}
        lay = mk_layer("independent_sphere" if micro == "sph" else "sticky_hard_spheres", f, e0, eps, **kw)
        s = sensor(nu)

        def run():
            m = em("iba_maxwell_garnett" if kind == "mg" else "iba")(s, lay)
            if kind == "dilute":
                m._effective_permittivity = complex(m.e0)
                m.iba_coeff = m.compute_iba_coeff()
            xmax = 2 * m.k0 * abs(np.sqrt(m._effective_permittivity)) * r
            assert xmax < 9.9e-4, "generator left the static regime"
            return [float(np.squeeze(lay.microstructure.ft_autocorrelation_function(0))), m.compute_ks()]
        add(co, f"iba.ks.static.{micro}.{kind}", f"ibaks {micro} {kind} {f2t(nu)} {f2t(f)} {f2t(r)} {tau_tok(tau)} {ct(e0)} {ct(eps)}", run,
            desc={"nu": nu, "f": f, "radius": r, "radius/lambda": rl, "stickiness": tau, "closure": kind, "micro": micro})
        co.note(f"iba.ks.static {micro} {kind}")

    # 5. compute_t
    SHS = get_microstructure_model("sticky_hard_spheres")
    for i in range(ctx.n(60, 600)):
        f = gen_f(rng) if i % 2 else float(rng.uniform(0, 0.6))
        tau = float([np.inf, 10 ** rng.uniform(-1, 3), rng.uniform(0.1, 0.3), 10 ** rng.uniform(-2.5, -1)][i % 4])
        ms = SHS({"frac_volume": f, "radius": 1e-4, "stickiness": tau})
        v = add(co, "shs.compute_t", f"computet {tau_tok(tau)} {f2t(f)}", lambda: [ms.compute_t()], desc={"f": f, "stickiness": tau})
        co.note("compute_t " + ("inf" if math.isinf(tau) else "finite") + (" -> value" if v else " -> error"))

    # 6. DMRT QCA / QCA-CP short range
    for i in range(ctx.n(80, 800)):
        nu, rl = gen_nu(rng), gen_rl(rng)
        f = gen_f(rng) if i % 4 else float(rng.uniform(0.05, 0.45))
        if i % 40 == 6:
            f = 0.0
        e0, eps, lab = gen_media(rng, kind=[0, 0, 2, 5, 4][int(rng.integers(0, 5))])
        tau = float([np.inf, 10 ** rng.uniform(-1, 3), rng.uniform(0.1, 0.3), 10 ** rng.uniform(-2.5, -1)][int(rng.integers(0, 4))])
        r = rl * C_SPEED / nu
        lay = mk_layer("sticky_hard_spheres", f, e0, eps, radius=r, stickiness=tau)
        s = sensor(nu)
        which = "qca" if i % 2 == 0 else "qcacp"
        if which == "qcacp" and f == 0.0:
            continue       # the root selection `Eeff0.real < 1` is decided by rounding when Eeff0 = e0 = 1 exactly
        name = "dmrt_qca_shortrange" if which == "qca" else "dmrt_qcacp_shortrange"
        v = add(co, "dmrt." + which, f"{which} {f2t(nu)} {f2t(f)} {f2t(r)} {tau_tok(tau)} {ct(e0)} {ct(eps)}",
                lambda: (lambda m: parts(m._effective_permittivity) + [m.ks, m.ka])(em(name)(s, lay)), rel=1e-8,
                desc={"nu": nu, "f": f, "radius": r, "stickiness": tau, "e0": complex(e0), "eps": complex(eps)})
        co.note(f"dmrt.{which} media: {lab}" + ("" if v else " (error)"))

    # 7. SCE closed forms with the implementation's A2, and the phase-inverted twin of the symmetric theories
    for i in range(ctx.n(72, 720)):
        nu = gen_nu(rng)
        f = [gen_f(rng), float(rng.uniform(0.05, 0.95)), float(rng.uniform(0.5, 0.999))][i % 3]
        size = float(10 ** rng.uniform(-4, -2)) * C_SPEED / nu
        e0, eps, lab = gen_media(rng, kind=[0, 0, 2, 4, 5][int(rng.integers(0, 5))])
        s = sensor(nu)
        sym = i % 2 == 0
        local = (i // 2) % 2 == 0
        if sym:
            ms = MICRO_INV[int(rng.integers(0, len(MICRO_INV)))]
            if local and ms in ("sticky_hard_spheres", "unified_sticky_hard_spheres"):
                ms = "exponential"        # no real-space form: the local A2 cannot be computed
            if i % 24 == 0:
                f = [0.0, 1.0][(i // 24) % 2]
                ms = "exponential"
            name = "symsce_torquato21_shortrange" if local else "symsce_torquato21"
            lay = mk_layer(ms, f, e0, eps, **micro_params(ms, rng, size))
            box = {}

            def run():
                m = em(name)(s, lay)
                box["A"] = [complex(np.squeeze(a)) for a in m.A2A2inv]
                return [float(np.squeeze(m._ke)), float(np.squeeze(m.ks))]
            try:
                m0 = em(name)(s, lay)
                A2, A2inv = [complex(np.squeeze(a)) for a in m0.A2A2inv]
            except Exception as e:  # noqa
                co.note(f"symsce {ms}: constructor raised {type(e).__name__}")
                continue
            args = f"{f2t(nu)} {f2t(f)} {ct(e0)} {ct(eps)} {ct(A2)} {ct(A2inv)}"
            ke0 = float(np.squeeze(m0._ke))
            desc = {"emmodel": name, "micro": ms, "nu": nu, "f": f, "e0": complex(e0), "eps": complex(eps), "A2": A2, "A2inv": A2inv}
            vals = [ke0, float(np.squeeze(m0.ks))]
            co.add("symsce.keks", "symsce 0 " + args, C.fs(vals), Tol(1e-12), desc=desc, post=relpost(vals, 1e-7))
            # the twin: the model maps the arguments, the implementation builds the inverted layer and recomputes everything
            tw = em(name)(s, lay.inverted_medium())
            vt = [float(np.squeeze(tw._ke)), float(np.squeeze(tw.ks))]
            co.add("symsce.inverted-twin", "symsce 1 " + args, C.fs(vt), Tol(1e-12), desc=dict(desc, twin=True), post=relpost(vt, 1e-7))
            co.note(f"symsce {'local' if local else 'non-local'} {ms}" + (" f=0" if f == 0 else " f=1" if f == 1 else ""))
        else:
            ms = ["independent_sphere", "exponential", "sticky_hard_spheres"][int(rng.integers(0, 2 if local else 3))]
            name = "sce_torquato21_shortrange" if local else "sce_torquato21"
            f = min(f, 0.6)
            lay = mk_layer(ms, f, e0, eps, **micro_params(ms, rng, size))
            try:
                m0 = em(name)(s, lay)
            except Exception as e:  # noqa
                co.note(f"sce {ms}: constructor raised {type(e).__name__}")
                continue
            A2 = complex(np.squeeze(m0.A2))
            vals = [float(np.squeeze(m0._ke)), float(np.squeeze(m0.ks))]
            co.add("sce.keks", f"sce {f2t(nu)} {f2t(f)} {ct(e0)} {ct(eps)} {ct(A2)}", C.fs(vals), Tol(1e-12),
                   desc={"emmodel": name, "micro": ms, "nu": nu, "f": f, "A2": A2}, post=relpost(vals, 1e-7))
            co.note(f"sce {'local' if local else 'non-local'} {ms}")

    # 8. Layer.inverted_medium: what it does to the arguments of the closed forms, for every microstructure model
    for i in range(ctx.n(24, 240)):
        ms = MICRO_INV[i % len(MICRO_INV)]
        f = float(rng.uniform(0, 1))
        e0, eps, lab = gen_media(rng)
        lay = mk_layer(ms, f, e0, eps, **micro_params(ms, rng, 1e-4))
        add(co, "layer.inverted_medium", f"invert {f2t(f)} {ct(e0)} {ct(eps)}",
            lambda: (lambda t: [t.frac_volume] + parts(t.permittivity(0, 10e9)) + parts(t.permittivity(1, 10e9)))(lay.inverted_medium()),
            desc={"micro": ms, "f": f})
        co.note("inverted_medium " + ms)

    # 9. A2: numerical quadrature of the implementation vs the analytic value (1e-3: the code integrates numerically)
    EXP, SPH = get_microstructure_model("exponential"), get_microstructure_model("independent_sphere")
    for i in range(ctx.n(40, 400)):
        f = float(rng.uniform(0.001, 0.999))
        size = float(10 ** rng.uniform(-5, -3))
        Q = float(10 ** rng.uniform(-3, math.log10(3.0))) / size
        if i % 2 == 0:
            ms = EXP({"frac_volume": f, "corr_length": size})

            def run():
                a = complex(np.squeeze(sce_common.compute_A2_local(Q, ms)))
                b = complex(np.squeeze(sce_common.compute_A2_nonlocal(Q, ms)))
                return [a.real, a.imag, b.imag]
            add(co, "sce.A2.exponential", f"a2exp {f2t(Q)} {f2t(f)} {f2t(size)}", run, rel=1e-3, desc={"Q": Q, "f": f, "corr_length": size})
        else:
            ms = SPH({"frac_volume": f, "radius": size})
            add(co, "sce.A2.sphere", f"a2sph {f2t(Q)} {f2t(f)} {f2t(size)}",
                lambda: parts(np.squeeze(sce_common.compute_A2_local(Q, ms))), rel=1e-3, desc={"Q": Q, "f": f, "radius": size})
        co.note("A2 " + ("exponential" if i % 2 == 0 else "sphere"))
    return co


# ---------------------------------------------------------------------------------------------
# the property itself on the implementation

RAYLEIGH_LIKE = ["iba", "iba_original", "iba_maxwell_garnett", "sce_torquato21", "symsce_torquato21",
                 # the same theories built by their factories on the other shipped two-phase mixing formula
                 "derived_IBA:maxwell_garnett_for_spheres", "derived_SCETK21:polder_van_santen", "derived_SymSCETK21:maxwell_garnett_for_spheres"]
SYMMETRIC = ["symsce_torquato21", "symsce_torquato21_shortrange"]


def ks_of(name, s, lay):
    return float(np.squeeze(em(name)(s, lay).ks))


def check_rayleigh_limit(inp):
    """independent spheres: every named theory within 10 % of Rayleigh"""
    nu, rl, f, T = inp["nu"], inp["rl"], inp["f"], inp["T"]
    r = rl * C_SPEED / nu
    eps = ice_eps(nu, T)
    s, lay = sensor(nu), mk_layer("independent_sphere", f, 1.0, eps, radius=r)
    ray = float(em("rayleigh")(s, lay).ks)
    out = []
    for name in RAYLEIGH_LIKE:
        ks = ks_of(name, s, lay)
        if not abs(ks / ray - 1) <= 0.10:
            out.append((f"rayleigh-limit:{name}", f"{name}: ks={ks:.6e} vs Rayleigh {ray:.6e} (ratio {ks / ray:.4f}) at nu={nu:.4e}, radius/lambda={rl:.3e}, "
                        f"f={f:.4e}, T={T:.1f}", ks / ray, "within 10 % of 1"))
    # the same limit when the spectrum of the spheres is obtained numerically from their real-space autocorrelation function
    # (documented microstructure option ft_numerical=True)
    if inp.get("ft_numerical"):
        layn = mk_layer("independent_sphere", f, 1.0, eps, radius=r, ft_numerical=True)
        ks = ks_of("iba", s, layn)
        if not abs(ks / ray - 1) <= 0.10:
            out.append(("rayleigh-limit:iba:ft_numerical", f"iba with independent_sphere(ft_numerical=True): ks={ks:.6e} vs Rayleigh {ray:.6e} (ratio "
                        f"{ks / ray:.4f}) at nu={nu:.4e}, radius/lambda={rl:.3e}, f={f:.4e}", ks / ray, "within 10 % of 1"))
    return out


def check_scaling(inp):
    """frequency^4 x size^3 with frequency-independent permittivities"""
    nu, rl, f, c, d = inp["nu"], inp["rl"], inp["f"], inp["c"], inp["d"]
    eps = complex(inp["eps"][0], inp["eps"][1])
    r = rl * C_SPEED / nu
    out = []
    for name, tol in [("rayleigh", 1e-6)] + [(n, 0.10) for n in RAYLEIGH_LIKE]:
        base = ks_of(name, sensor(nu), mk_layer("independent_sphere", f, 1.0, eps, radius=r))
        kf = ks_of(name, sensor(c * nu), mk_layer("independent_sphere", f, 1.0, eps, radius=r))
        kr = ks_of(name, sensor(nu), mk_layer("independent_sphere", f, 1.0, eps, radius=d * r))
        for what, got, want in [("frequency^4", kf / base, c ** 4), ("size^3", kr / base, d ** 3)]:
            if not abs(got / want - 1) <= tol:
                out.append((f"scaling:{name}:{what}", f"{name}: ks ratio {got:.8g} for a factor {c if what[0] == 'f' else d:.4f} ({what} predicts {want:.8g}) at "
                            f"nu={nu:.4e}, radius/lambda={rl:.3e}, f={f:.3e}", got / want, f"1 within {tol}"))
    return out


def check_shs(inp):
    """sticky hard spheres: IBA vs DMRT-QCA short range within 5 %; both -> Rayleigh as f -> 0 (0.5 % at f = 1e-4)"""
    nu, rl, f, T, tau = inp["nu"], inp["rl"], inp["f"], inp["T"], inp["tau"]
    tau = float("inf") if tau is None else tau
    r = rl * C_SPEED / nu
    eps = ice_eps(nu, T)
    e0 = 1.0
    host = inp.get("host", "air")
    if host == "ice":           # air bubbles in ice: the host is not the vacuum (radius/lambda < 0.01 in the host as well)
        e0, eps = eps, 1.0
        r = r / 1.8
    s = sensor(nu)
    lay = mk_layer("sticky_hard_spheres", f, e0, eps, radius=r, stickiness=tau)
    iba, qca = ks_of("iba", s, lay), ks_of("dmrt_qca_shortrange", s, lay)
    out = []
    if not abs(iba / qca - 1) <= 0.05:
        out.append((f"shs:iba-vs-qca:{host}", f"ks IBA {iba:.6e} vs DMRT-QCA short range {qca:.6e} (ratio {iba / qca:.4f}) at nu={nu:.4e}, radius/lambda={rl:.3e}, "
                    f"f={f:.4e}, stickiness={tau}, host {host}", iba / qca, "within 5 % of 1"))
    if host == "ice":
        return out
    for f0 in (1e-4, 1e-6):
      lay0 = mk_layer("sticky_hard_spheres", f0, 1.0, eps, radius=r, stickiness=tau)
      ray = float(em("rayleigh")(s, lay0).ks)
      for name in ("iba", "dmrt_qca_shortrange", "dmrt_qcacp_shortrange"):
        if name == "dmrt_qcacp_shortrange" and f0 == 1e-4:
            continue
        k = ks_of(name, s, lay0)
        if not abs(k / ray - 1) <= 0.005:
            out.append((f"shs:dilute-limit:{name}", f"{name} at f={f0}: ks={k:.6e} vs Rayleigh {ray:.6e} (ratio {k / ray:.5f}), nu={nu:.4e}, radius/lambda={rl:.3e}, "
                        f"stickiness={tau}", k / ray, "within 0.5 % of 1"))
    return out


def check_eeff(inp):
    """eps_eff -> e0 at f = 0, -> eps at f = 1 (exactly), and approaches them linearly in f"""
    nu, T = inp["nu"], inp["T"]
    eps = ice_eps(nu, T)
    e0 = 1.0
    s = sensor(nu)
    out = []
    for name in ["iba", "iba_original", "iba_maxwell_garnett", "sce_torquato21_shortrange", "symsce_torquato21_shortrange", "sce_rechtsman08"]:
        for f, want in [(0.0, complex(e0)), (1.0, eps), (1e-2, complex(e0)), (1e-4, complex(e0)), (1 - 1e-2, eps), (1 - 1e-4, eps)]:
            try:
                got = complex(em(name)(s, mk_layer("exponential", f, e0, eps, corr_length=1e-4)).effective_permittivity())
            except Exception as e:  # noqa     a loud refusal is not a wrong value - except at the end points themselves, which the statement covers
                from smrt.core.error import SMRTError
                if f in (0.0, 1.0) and isinstance(e, SMRTError):
                    out.append((f"eeff-limit:{name}:refused", f"{name}: the medium with fractional volume exactly {f} is refused ({str(e)[:80]}) instead of "
                                f"returning the {'background' if f == 0.0 else 'scatterer'} permittivity {want} (nu={nu:.4e}, T={T:.1f})", "SMRTError", want))
                continue
            bound = 1e-9 * abs(want) if f in (0.0, 1.0) else 2 * min(f, 1 - f) * abs(eps - e0)
            if not abs(got - want) <= bound:
                out.append((f"eeff-limit:{name}", f"{name}: eps_eff({f}) = {got}, limit {want}, allowed distance {bound:.3e} (nu={nu:.4e}, T={T:.1f})", got, want))
    # the dense-medium option of IBA (the medium is inverted above f = 0.5): same limits, and the same effective permittivity as without
    # the option (Polder-van Santen is symmetric in the two phases)
    for name in ["iba", "iba_original"]:
        for f, want in [(1.0, eps), (1 - 1e-2, eps), (1 - 1e-4, eps), (0.7, None), (0.3, None)]:
            try:
                lay = mk_layer("exponential", f, e0, eps, corr_length=1e-4)
                got = complex(em(name)(s, lay, dense_snow_correction="auto").effective_permittivity())
                ref = complex(em(name)(s, lay).effective_permittivity())
            except Exception:  # noqa
                continue
            if want is not None:
                bound = 1e-9 * abs(want) if f == 1.0 else 2 * (1 - f) * abs(eps - e0)
                if not abs(got - want) <= bound:
                    out.append((f"eeff-limit:{name}:dense-auto", f"{name}(dense_snow_correction='auto'): eps_eff({f}) = {got}, limit {want}, allowed "
                                f"distance {bound:.3e} (nu={nu:.4e}, T={T:.1f})", got, want))
            if not abs(got - ref) <= 1e-9 * abs(ref):
                out.append((f"eeff-limit:{name}:dense-auto", f"{name}: eps_eff({f}) = {got} with dense_snow_correction='auto' but {ref} without "
                            f"(nu={nu:.4e}, T={T:.1f})", got, ref))
    for name in ["dmrt_qca_shortrange", "dmrt_qcacp_shortrange"]:
        for f in (1e-2, 1e-4):
            got = complex(em(name)(s, mk_layer("sticky_hard_spheres", f, e0, eps, radius=1e-4 * C_SPEED / nu, stickiness=0.2)).effective_permittivity())
            if not abs(got - e0) <= 2 * f * abs(eps - e0):
                out.append((f"eeff-limit:{name}", f"{name}: eps_eff({f}) = {got}, limit {e0}", got, e0))
    return out


def check_twin(inp):
    """a symmetric theory gives the same ke, ks, eps_eff for a layer and its phase-inverted twin"""
    rng = np.random.default_rng(inp["pseed"])
    ms, nu, f, T, sz = inp["micro"], inp["nu"], inp["f"], inp["T"], inp["size"]
    eps = ice_eps(nu, T)
    lay = mk_layer(ms, f, 1.0, eps, **micro_params(ms, rng, sz * C_SPEED / nu))
    s = sensor(nu)
    out = []
    for name0, opts in [(n, {}) for n in SYMMETRIC] + [(n, {"scaled": False}) for n in SYMMETRIC]:
        name = name0 + ("" if not opts else "(scaled=False)")
        if name0.endswith("shortrange") and not hasattr(lay.microstructure, "autocorrelation_function"):
            continue
        try:
            a = em(name0)(s, lay, **opts)
        except Exception:  # noqa   the theory refuses this microstructure (no real-space form / no inv_slope_at_origin): not a wrong value
            continue
        try:
            b = em(name0)(s, lay.inverted_medium(), **opts)
        except Exception as e:  # noqa
            out.append((f"inversion-twin:{name}:{ms}", f"{name} accepts {ms} (f={f:.4f}) but raises {type(e).__name__} on its inverted twin: {e}",
                        type(e).__name__, "same as the original layer"))
            continue
        ke_a, ke_b = float(np.squeeze(a.ks + a.ka)), float(np.squeeze(b.ks + b.ka))
        ks_a, ks_b = float(np.squeeze(a.ks)), float(np.squeeze(b.ks))
        ea, eb = complex(a.effective_permittivity()), complex(b.effective_permittivity())
        bad = []
        if not abs(ke_a - ke_b) <= 1e-9 * abs(ke_a):
            bad.append(f"ke {ke_a!r} vs {ke_b!r}")
        if not abs(ks_a - ks_b) <= 1e-9 * abs(ke_a):
            bad.append(f"ks {ks_a!r} vs {ks_b!r}")
        if not abs(ea - eb) <= 1e-9 * abs(ea):
            bad.append(f"eps_eff {ea} vs {eb}")
        if bad:
            out.append((f"inversion-twin:{name}:{ms}", f"{name} on {ms} (f={f:.4f}, nu={nu:.4e}): " + "; ".join(bad), bad, "equal at 1e-9"))
    return out


def check_twin_auto(inp):
    """the dense-snow correction (dense_snow_correction="auto": media above one half are computed on their inverted twin), asked through the
    model factory after an uncorrected model of the same theory: the corrected model leaves a dilute medium as it is and gives its twin the
    same scattering coefficient and effective permittivity"""
    from smrt.core.model import make_emmodel
    from smrt import make_snow_layer
    from smrt.core.globalconstants import DENSITY_OF_ICE
    nu, f, rl = inp["nu"], inp["f"], inp["rl"]
    s = sensor(nu)
    out = []
    for theory, msname in (("iba", "independent_sphere"), ("iba", "sticky_hard_spheres"), ("dmrt_qca_shortrange", "sticky_hard_spheres")):
        lay = make_snow_layer(1.0, msname, density=f * DENSITY_OF_ICE, temperature=inp["T"], radius=rl * C_SPEED / nu)
        twin = lay.inverted_medium()
        uncorrected = make_emmodel(theory, dense_snow_correction=None)
        corrected = make_emmodel(theory, dense_snow_correction="auto")
        ref = make_emmodel(theory)(s, lay)
        a, b, u = corrected(s, lay), corrected(s, twin), uncorrected(s, lay)
        for nm, x, y in (("corrected(dilute) vs plain", a, ref), ("uncorrected(dilute) vs plain", u, ref), ("corrected(twin) vs corrected(dilute)", b, a)):
            ks_x, ks_y = float(np.squeeze(x.ks)), float(np.squeeze(y.ks))
            ex, ey = complex(x.effective_permittivity()), complex(y.effective_permittivity())
            if not (abs(ks_x - ks_y) <= 1e-6 * abs(ks_y) and abs(ex - ey) <= 1e-6 * abs(ey)):
                out.append((f"dense-auto-twin:{theory}:{msname}", f"{theory} on {msname} (f={f:.4f}): {nm}: ks {ks_x!r} vs {ks_y!r}, eps_eff {ex} vs {ey}",
                            [ks_x, ks_y], "equal at 1e-6"))
                break
    return out


CHECKS = {"twin-auto": check_twin_auto, "rayleigh": check_rayleigh_limit, "scaling": check_scaling, "shs": check_shs, "eeff": check_eeff, "twin": check_twin}


def has_acf(ms):
    return ms not in ("sticky_hard_spheres", "unified_sticky_hard_spheres")


def oracle(ctx, hints, effort):
    C.import_smrt()
    rng = ctx.np
    findings, evals = {}, 0

    def record(kind, inp):
        nonlocal evals
        evals += 1
        inp = dict(inp, kind=kind)
        for key, what, obs, req in CHECKS[kind](inp):
            if key not in findings:
                findings[key] = Finding(key, what, inp, obs, req)

    n = (300 if ctx.thorough else 40) if effort == "routine" else 600
    for i in range(n):
        nu, rl, f = gen_nu(rng), gen_rl(rng), gen_f(rng)
        if i % 4 == 0:
            rl = 0.00999
        if i % 4 == 1:
            f = 0.04999
        if i % 8 == 2:
            nu = [1e9, 40e9][(i // 8) % 2]
        record("rayleigh", {"nu": nu, "rl": rl, "f": f, "T": float(rng.uniform(200, 273)), "ft_numerical": i % 10 == 3})
    for i in range(n // 4):
        nu, rl, f = float(10 ** rng.uniform(9, math.log10(20e9))), float(10 ** rng.uniform(-4, math.log10(0.005))), gen_f(rng)
        record("scaling", {"nu": nu, "rl": rl, "f": f, "c": float(rng.uniform(1, 2)), "d": float(rng.uniform(1, 2)),
                           "eps": [float(rng.uniform(3.1, 3.2)), float(10 ** rng.uniform(-4, -2))]})
    for i in range(n):
        nu, rl, f = gen_nu(rng), gen_rl(rng), gen_f(rng)
        if i % 4 == 0:
            rl = 0.00999
        if i % 4 == 1:
            f = 0.04999
        tau = [None, float(10 ** rng.uniform(-1, 3)), float(rng.uniform(0.1, 0.3))][i % 3]
        record("shs", {"nu": nu, "rl": rl, "f": f, "T": float(rng.uniform(200, 273)), "tau": tau, "host": "ice" if i % 5 == 4 else "air"})
    for i in range(max(2, n // 20)):
        record("twin-auto", {"nu": gen_nu(rng), "rl": gen_rl(rng), "f": float(rng.uniform(0.002, 0.04)) if i % 2 == 0 else float(rng.uniform(0.05, 0.45)),
                             "T": float(rng.uniform(200, 273))})
    for i in range(max(3, n // 10)):
        record("eeff", {"nu": gen_nu(rng), "T": float(rng.uniform(200, 273))})
    for nu in (1.4e9, 10e9, 19e9, 37e9):
        for T in (250.0, 260.0, 270.0):
            record("eeff", {"nu": nu, "T": T})
    for i in range(n):
        ms = MICRO_INV[i % len(MICRO_INV)]
        record("twin", {"micro": ms, "nu": gen_nu(rng), "f": float(rng.uniform(0.01, 0.99)), "T": float(rng.uniform(200, 273)),
                        "size": float(10 ** rng.uniform(-4, -2)), "pseed": int(rng.integers(0, 2 ** 31))})
    return list(findings.values()), evals


def replay(inp, rp=None):
    C.import_smrt()
    items = CHECKS[inp["kind"]](inp)
    if items:
        key, what, obs, req = items[0]
        return Finding(key, what, inp, obs, req)
    return None
