"""JSON-able scene descriptions for the DORT-group harnesses: random generation and construction of the real objects."""
import numpy as np

SPECULAR_SUBSTRATES = ["flat", "soil_wegmuller", "soil_qnh", "rough_choudhury79", "reflector"]


def build(scene, atmosphere_inside=False):
    """scene dict -> (snowpack, atmosphere or None); with atmosphere_inside the atmosphere is handed to make_snowpack"""
    from smrt import make_snowpack, make_soil
    from smrt.inputs.make_medium import make_atmosphere
    kw = dict(scene.get("micro", {}))
    ice = scene.get("ice_permittivity")
    if ice is not None:
        kw["ice_permittivity_model"] = complex(ice[0], ice[1]) if ice[1] != 0 else float(ice[0])
    sub = None
    s = scene.get("substrate")
    if s is not None:
        eps = complex(*s["eps"])
        if s["kind"] == "reflector":
            sub = make_reflector(s)
        elif s["kind"] == "reflector_backscatter":
            from smrt.substrate.reflector_backscatter import make_reflector as mkb
            sub = mkb(temperature=s["T"], specular_reflection=refl_resolve(s["params"]["specular_reflection"]))
        elif s["kind"] == "flat":
            sub = make_soil("flat", eps, s["T"])
        else:
            sub = make_soil(s["kind"], eps, s["T"], **s.get("params", {}))
    interface = scene.get("interface")
    atm = None
    a = scene.get("atmosphere")
    if a is not None:
        atm = make_atmosphere("simple_isotropic_atmosphere", tb_down=a["tb_down"], tb_up=a["tb_up"], transmittance=a["trans"])
    if atmosphere_inside and atm is not None:
        kw["atmosphere"] = atm
    if scene.get("surface") is not None:
        kw["surface"] = scene["surface"]
    per_layer = dict(thickness=scene["thickness"], density=scene["density"], temperature=scene["temperature"])
    if scene.get("series_labels"):
        # the per-layer arguments as pandas Series whose integer labels are not 0..n-1 in order (a pit table recorded bottom-up and sorted
        # surface first): values are taken by position
        import pandas as pd
        n = len(scene["thickness"])
        idx = (list(scene["series_labels"]) if isinstance(scene["series_labels"], (list, tuple)) else
               list(range(n - 1, -1, -1)) if scene["series_labels"] == "reversed" else [10 * (i + 1) for i in range(n)])
        per_layer = {k: pd.Series(v, index=idx) for k, v in per_layer.items()}
        kw = {k: (pd.Series(v, index=idx) if isinstance(v, list) and len(v) == n else v) for k, v in kw.items()}
    sp = make_snowpack(thickness=per_layer["thickness"], microstructure_model=scene.get("microstructure", "exponential"),
                       density=per_layer["density"], temperature=per_layer["temperature"], substrate=sub,
                       interface=interface, **kw)
    return sp, atm


def medium(scene):
    """the whole medium (atmosphere + snowpack + substrate) assembled in one of the equivalent orders the API offers, chosen by
    scene["assembly"]: 0 atm + make_snowpack(substrate=), 1 (atm + snowpack) + substrate, 2 make_snowpack(substrate=, atmosphere=),
    3 ((atm + top layer) + other layers) + substrate"""
    how = int(scene.get("assembly", 0))
    sp, atm = build(scene)
    sub = sp.substrate
    if how == 0 or (atm is None and sub is None):
        return (atm + sp) if atm is not None else sp
    if how == 2:
        return build(scene, atmosphere_inside=True)[0]
    bare = build(dict(scene, substrate=None))[0]
    if how == 3 and len(scene["thickness"]) >= 2:
        def part(sl):
            d = dict(scene, substrate=None)
            for k in ("thickness", "density", "temperature"):
                d[k] = scene[k][sl]
            d["micro"] = {k: (v[sl] if isinstance(v, list) else v) for k, v in scene.get("micro", {}).items()}
            return build(d)[0]
        top, rest = part(slice(0, 1)), part(slice(1, None))
        bare = ((atm + top) if atm is not None else top) + rest
    elif atm is not None:
        bare = atm + bare
    return (bare + sub) if sub is not None else bare


def refl_resolve(a):
    """JSON-able specular_reflection: a number, {"$fn": [a, b]} = the function theta -> a + b (theta / 90 deg)^2 of the angle in radians,
    or a {"V": ..., "H": ...} dictionary of those"""
    if isinstance(a, dict) and "$fn" in a:
        c0, c1 = a["$fn"]
        return lambda theta: c0 + c1 * (np.asarray(theta) / (np.pi / 2)) ** 2
    if isinstance(a, dict):
        return {k: refl_resolve(v) for k, v in a.items()}
    return a


def make_reflector(s):
    from smrt.substrate.reflector import make_reflector as mk
    return mk(temperature=s["T"], specular_reflection=refl_resolve(s["params"]["specular_reflection"]))


def random_scene(rng, nlayer=None, lossless=False, isothermal=None, substrate="random", atmosphere=False,
                 microstructure="exponential", max_layers=5, thick=(0.05, 2.0), frequency=None, active=False):
    frequency = float(rng.choice([1.4e9, 6.9e9, 10.65e9, 18.7e9, 36.5e9, 89e9])) if frequency is None else float(frequency)
    nl = int(rng.integers(1, max_layers + 1)) if nlayer is None else nlayer
    dens = [float(x) for x in rng.uniform(120, 600, nl).round(1)]
    T = [float(isothermal)] * nl if isothermal is not None else [float(x) for x in rng.uniform(200, 272, nl).round(2)]
    sc = dict(thickness=[float(x) for x in np.exp(rng.uniform(np.log(thick[0]), np.log(thick[1]), nl)).round(4)],
              density=dens, temperature=T, microstructure=microstructure, frequency=frequency)
    if microstructure == "exponential":
        sc["micro"] = dict(corr_length=[float(x) for x in rng.uniform(3e-5, 4e-4, nl).round(7)])
    elif microstructure == "sticky_hard_spheres":
        sc["micro"] = dict(radius=[float(x) for x in rng.uniform(5e-5, 4e-4, nl).round(7)], stickiness=float(rng.uniform(0.2, 1.0)))
    elif microstructure == "homogeneous":
        sc["micro"] = {}
    if lossless:
        sc["ice_permittivity"] = [3.18, 0.0]
    if substrate == "random" and active:
        substrate = [None, "flat", "soil_wegmuller"][int(rng.integers(0, 3))]      # the reflector refuses 3 polarisations
    if substrate == "random":
        substrate = str(rng.choice(SPECULAR_SUBSTRATES + [None], p=[0.25, 0.15, 0.15, 0.15, 0.1, 0.2])) if True else None
        if substrate == "None":
            substrate = None
    if substrate is not None:
        Ts = float(isothermal) if isothermal is not None else float(rng.uniform(250, 280))
        eps = [round(float(rng.uniform(2, 30)), 3), 0.0 if lossless else round(float(rng.uniform(0.05, 5)), 3)]
        s = dict(kind=substrate, T=Ts, eps=eps)
        if substrate == "soil_wegmuller":
            s["params"] = dict(roughness_rms=round(float(rng.uniform(0.001, 0.03)), 4))
        elif substrate == "soil_qnh":
            Nq = round(float(rng.uniform(0, 2)), 3)
            # Q = 0 is the documented default (no polarisation mixing): one scene in three
            s["params"] = dict(Q=0.0 if rng.random() < 0.33 else round(float(rng.uniform(0, 0.5)), 3), N=Nq, H=round(float(rng.uniform(0.05, 1)), 3), Nv=Nq, Nh=Nq)
        elif substrate == "rough_choudhury79":
            # the class refuses k*sigma > 0.1 (k in the layer above, index < 1.8)
            s["params"] = dict(roughness_rms=float(np.exp(rng.uniform(np.log(0.02), np.log(0.95)))) * 0.1 / (2 * np.pi * frequency / 2.9979e8 * 1.8))
        elif substrate == "reflector":
            q = rng.random()     # 0 (black body) and 1 (mirror) are legitimate, documented values
            s["params"] = dict(specular_reflection=0.0 if q < 0.2 else 1.0 if q < 0.3 else round(float(rng.uniform(0, 1)), 3))
        sc["substrate"] = s
    if atmosphere:
        q = rng.random()       # the end points are legitimate: a loss-free atmosphere (1) and an opaque one (0)
        t = 1.0 if q < 0.15 else 0.0 if q < 0.22 else round(float(rng.uniform(0.6, 1.0)), 3)
        Ta = float(isothermal) if isothermal is not None else round(float(rng.uniform(0, 300)), 1)
        sc["atmosphere"] = dict(tb_down=Ta if isothermal is not None else round(float(rng.uniform(0, 300)), 1),
                                tb_up=(1 - t) * Ta if isothermal is not None else round(float(rng.uniform(0, 50)), 2),
                                trans=t if isothermal is None else 1.0)
        if isothermal is not None:
            sc["atmosphere"]["tb_up"] = 0.0
    return sc
