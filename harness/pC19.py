"""C19 — results, sensors and plugin names resolve consistently: table generator, correspondence harness, property oracle."""
import ast, importlib, inspect, itertools, json, math, os, sys, tempfile, shutil
from pathlib import Path
import numpy as np
import common as C
from common import Corr, Tol, Finding, f2t

PROP = "C19"
DRIVER = "C19"
LEAN_TARGETS = ["SmrtVerif.Props.C19", "SmrtVerif.Driver.C19"]
TRUSTED = ["table extractor generate_tables() in harness/pC19.py (python ast + calling the real sensor constructors)",
           "correspondence harness harness/pC19.py and driver SmrtVerif/Driver/C19.lean",
           "xarray / pandas (sel, squeeze, concat, to_dataframe, netCDF3 I/O through scipy) as the finite-map contract: a DataArray is a map "
           "coordinate tuple -> value, coordinates compared after conversion to float64",
           "python import system, inspect.getmembers (sorted by name), class creation by type()",
           "real arithmetic in the theorems vs IEEE doubles in the code (rounding not modelled)"]
ASSUMPTIONS = ["results concatenated together have identical dimensions and coordinates (xarray's outer join with NaN filling is outside the model)",
               "angles passed to sigma()/sigma_dB() are scalars or absent (the list-of-angles branch is not modelled)",
               "plugin modules that cannot be imported offline (pyrtlib) are resolved from their source text only"]
RULE = ("every predefined sensor constructor of sensor_list / altimeter_list (no-argument call, every single channel, every frequency shorthand, "
        "the 18/36 aliases, adjacent channel pairs, custom frequency lists) x every channel, each through a stub result with seeded random "
        "intensities and 0..3 extra dimensions, some through DORT; generic passive/active sensors with 1..4 frequencies / angles / polarisation "
        "subsets; every module file of the six plugin directories; distinct = distinct (slice, input line); values are random so every case is non-trivial")

GEN = C.LEAN / "SmrtVerif" / "Gen"
PLUGIN_DIRS = ["emmodel", "rtsolver", "interface", "substrate", "microstructure_model", "atmosphere"]
SUPPORT_MODULES = ["core/interface.py", "core/atmosphere.py"]


# =============================================================================================
# tables regenerated from /repo's working tree

def canon(v):
    """canonical text of a coordinate value: numbers as repr(float), strings unchanged"""
    if isinstance(v, (str, np.str_)):
        return str(v)
    return repr(float(v))


def lstr(s):
    return json.dumps(str(s), ensure_ascii=False)


def sensor_dims(s):
    """the values of a Sensor on each of its dimensions (None dimensions are absent)"""
    dims = [("frequency", [canon(v) for v in np.atleast_1d(s.frequency)])]
    if s.theta_inc_deg is not None:
        dims.append(("theta_inc", [canon(v) for v in s.theta_inc_deg]))
        if s.polarization_inc is not None:
            dims.append(("polarization_inc", [canon(v) for v in np.atleast_1d(s.polarization_inc)]))
    dims.append(("theta", [canon(v) for v in s.theta_deg]))
    if s.polarization is not None:
        dims.append(("polarization", [canon(v) for v in np.atleast_1d(s.polarization)]))
    return dims


def sensor_record(label, s):
    """(label, mode, dims, channels) of a Sensor or SensorList; for a SensorList over the axis `channel` the channel is a
    dimension of its own and each channel additionally fixes it (what concat_results has to produce, see Res.concatMaps)"""
    from smrt.core.sensor import SensorList
    if isinstance(s, SensorList):
        subs = s.sensor_list
        axis = s.axis
        vals = [canon(v) for v in (s.channel_list if axis == "channel" else [getattr(x, axis) for x in subs])]
        per = [dict(sensor_dims(x)) for x in subs]
        dims = [(axis, vals)]
        for d in per[0]:
            if d != axis and all(p.get(d) == per[0][d] for p in per):
                dims.append((d, per[0][d]))
        chans = []
        for x, v in zip(subs, vals):
            for ch, m in x.channel_map.items():
                chans.append((ch, [(k, canon(val)) for k, val in m.items()] + [(axis, v)]))
        return (label, subs[0].mode, dims, chans)
    chans = [(ch, [(k, canon(val)) for k, val in m.items()]) for ch, m in s.channel_map.items()]
    return (label, s.mode, sensor_dims(s), chans)


def sensor_calls():
    """every predefined constructor of sensor_list / altimeter_list with the argument sets the property quantifies over:
    [(family, label, callable)] — read from the modules as they are now (new constructors without required arguments are picked up)"""
    from smrt.inputs import sensor_list as sl, altimeter_list as al
    out = []
    helpers = {"common_conical_pmw", "filter_channel_map", "extract_configuration", "passive", "active", "cristal_amrcr"}
    for mod, mname in ((sl, "sensor_list"), (al, "altimeter_list")):
        for name, f in inspect.getmembers(mod, inspect.isfunction):
            if f.__module__ != mod.__name__ or name in helpers or name.startswith("_"):
                continue
            sig = inspect.signature(f)
            required = [p for p in sig.parameters.values() if p.default is inspect._empty]
            calls = []
            if name == "smap":
                calls = [("mode='P'", dict(mode="P")), ("mode='A'", dict(mode="A"))]
            elif name == "asiras_lam":
                calls = [("altitude=1000.0", dict(altitude=1000.0))]
            elif not required:
                calls = [("", {})]
            else:
                continue
            base = None
            for lab, kw in calls:
                s = f(**kw)
                out.append((name, f"{mname}.{name}({lab})", (lambda f=f, kw=kw: f(**kw))))
                base = s
            if "channel" in sig.parameters and base is not None:
                names = list(base.channel_map)
                cands = [[n] for n in names]
                if name in ("amsre", "amsr2", "cimr"):
                    freqs = sorted({n[:-1] for n in names})
                    cands += [[fq] for fq in freqs]
                    cands += [[a + p] for a in ("18", "36") for p in ("H", "V", "")]
                    cands += [[a, b] for a, b in zip(names, names[1:])] + [["18", "37V"], ["36V", "18H"], names]
                elif len(names) > 1:
                    cands += [names]
                for ch in cands:
                    arg = ch[0] if len(ch) == 1 else list(ch)
                    out.append((name, f"{mname}.{name}(channel={arg!r})", (lambda f=f, arg=arg: f(channel=arg))))
            if "theta" in sig.parameters and name in ("quikscat", "ascat", "sentinel1", "smos"):
                th = {"quikscat": [[46], [54]], "ascat": [[30.0], [25, 45]], "sentinel1": [[30], [20, 40]], "smos": [[55], [40, 55]]}[name]
                for t in th:
                    out.append((name, f"{mname}.{name}(theta={t!r})", (lambda f=f, t=t: f(theta=t))))
    return out


CUSTOM_FREQS = [[10e9], [10e9, 20e9], [1.4e9, 36.5e9], [89e9], [6.925e9, 150e9]]


def custom_entries():
    """channels of the conical radiometers built with a custom frequency list: (constructor label, channel name, frequency in Hz, polarisation)"""
    from smrt.inputs import sensor_list as sl
    out = []
    for fname in ("amsre", "amsr2", "cimr"):
        for fr in CUSTOM_FREQS:
            s = getattr(sl, fname)(frequency=list(fr))
            for ch, m in s.channel_map.items():
                out.append((f"sensor_list.{fname}(frequency={fr!r})", ch, float(m["frequency"]), str(m["polarization"])))
    return out


def lean_fix(fx):
    return "[" + ", ".join(f"({lstr(k)}, {lstr(v)})" for k, v in fx) + "]"


def lean_sens(rec):
    label, mode, dims, chans = rec
    d = "[" + ", ".join(f"({lstr(k)}, [{', '.join(lstr(v) for v in vs)}])" for k, vs in dims) + "]"
    c = "[" + ",\n      ".join(f"⟨{lstr(n)}, {lean_fix(fx)}⟩" for n, fx in chans) + "]"
    return f"  ⟨{lstr(label)}, {lstr(mode)}, {d},\n     {c}⟩"


def class_table(path, dirname, modname):
    """public and private classes defined at the top level of a module file, as do_import_class would attribute them to the module:
    (name, qualified bases, members, substrate_from_interface argument)"""
    tree = ast.parse(Path(path).read_text())
    pkg_parts = ["smrt", dirname]                      # package of the module, to resolve relative imports
    imported = {}                                      # local name -> qualified "dir.module.Class" (inside smrt) or None

    def absmod(level, module):
        if level == 0:
            parts = (module or "").split(".")
        else:
            base = pkg_parts[:len(pkg_parts) - (level - 1)]
            parts = base + ((module or "").split(".") if module else [])
        return parts

    def walk_imports(body):
        for n in body:
            if isinstance(n, ast.ImportFrom):
                parts = absmod(n.level, n.module)
                for a in n.names:
                    if parts and parts[0] == "smrt":
                        imported[a.asname or a.name] = ".".join(parts[1:] + [a.name])
            elif isinstance(n, (ast.If, ast.Try)):
                for sub in ([n.body, n.orelse] + ([h.body for h in n.handlers] + [n.finalbody] if isinstance(n, ast.Try) else [])):
                    walk_imports(sub)
    walk_imports(tree.body)

    local = set()
    classes = []

    def qual_base(b):
        txt = ast.unparse(b)
        if txt in local:
            return f"{dirname}.{modname}.{txt}"
        return imported.get(txt, txt)

    def members_of(cd):
        ms = []
        for m in cd.body:
            if isinstance(m, (ast.FunctionDef, ast.AsyncFunctionDef)):
                ms.append(m.name)
                for sub in ast.walk(m):
                    if isinstance(sub, (ast.Assign, ast.AugAssign, ast.AnnAssign)):
                        tg = sub.targets if isinstance(sub, ast.Assign) else [sub.target]
                        for t in tg:
                            for e in ast.walk(t):
                                if isinstance(e, ast.Attribute) and isinstance(e.value, ast.Name) and e.value.id == "self":
                                    ms.append(e.attr)
            elif isinstance(m, ast.Assign):
                for t in m.targets:
                    if isinstance(t, ast.Name):
                        ms.append(t.id)
        seen, out = set(), []
        for x in ms:
            if x not in seen:
                seen.add(x); out.append(x)
        return out

    def visit(body):
        for n in body:
            if isinstance(n, ast.ClassDef):
                sfi = None
                for dec in n.decorator_list:
                    if isinstance(dec, ast.Call) and ast.unparse(dec.func).split(".")[-1] == "substrate_from_interface" and dec.args:
                        sfi = qual_base(dec.args[0])
                classes.append((n.name, [qual_base(b) for b in n.bases], members_of(n), sfi))
                local.add(n.name)
            elif isinstance(n, (ast.If, ast.Try)):
                for sub in ([n.body, n.orelse] + ([h.body for h in n.handlers] + [n.finalbody] if isinstance(n, ast.Try) else [])):
                    visit(sub)
    visit(tree.body)
    return classes


def plugin_table():
    """[(dir, module, classes)] for every module file of the six plugin directories, then the support modules of smrt/core"""
    root = C.REPO / "smrt"
    mods = []
    for d in PLUGIN_DIRS:
        for fn in sorted(os.listdir(root / d)):
            if fn.endswith(".py") and fn != "__init__.py":
                mods.append((d, fn[:-3], class_table(root / d / fn, d, fn[:-3])))
    support = []
    for rel in SUPPORT_MODULES:
        d, fn = rel.split("/")
        support.append((d, fn[:-3], class_table(root / rel, d, fn[:-3])))
    return mods, support


def lean_mod(m):
    d, name, classes = m
    cs = ",\n     ".join("⟨%s, [%s], [%s], %s⟩" % (lstr(n), ", ".join(lstr(b) for b in bases), ", ".join(lstr(x) for x in ms),
                                                  "none" if sfi is None else f"some {lstr(sfi)}") for n, bases, ms, sfi in classes)
    return f"  ⟨{lstr(d)}, {lstr(name)}, [{cs}]⟩"


def py_pick(classes):
    pub = sorted(n for n, *_ in classes if not n.startswith("_"))
    return pub[0] if pub else None


def generate_tables():
    C.import_smrt()
    GEN.mkdir(exist_ok=True)
    fams = {}
    failed = []
    for fam, label, call in sensor_calls():
        try:
            fams.setdefault(fam, []).append(sensor_record(label, call()))
        except Exception as e:  # a documented call that raises is recorded (and makes the table theorem false)
            failed.append((label, type(e).__name__))
            fams.setdefault(fam, []).append((label + f" RAISES {type(e).__name__}", "?", [], [("<raises>", [("<raises>", "")])]))
    out = ["/- GENERATED by harness/pC19.py generate_tables() from /repo's working tree — do not edit -/",
           "import SmrtVerif.Model.ResultMap", "namespace Smrt.Gen.C19", "open Smrt.RM", ""]
    for fam, recs in fams.items():
        out.append(f"def sensors_{fam} : List Sens := [\n" + ",\n".join(lean_sens(r) for r in recs) + "]\n")
    out.append("def families : List (String × List Sens) := [" + ", ".join(f"({lstr(f)}, sensors_{f})" for f in fams) + "]\n")
    out.append("def allSensors : List Sens := families.flatMap (·.2)\n")
    cust = custom_entries()
    out.append("/-- (channel name, frequency in Hz, polarisation) of the channels created with a custom frequency list -/")
    rows = []
    for lab, ch, f, p in cust:
        hz = int(f) if float(f).is_integer() else int(round(f))
        rows.append(f"  ({lstr(ch)}, {hz}, {lstr(p)})  -- {lab}")
    out.append("def customChannels : List (String × Nat × String) := [\n" + "\n".join(
        (r.split("  --")[0] + ("," if i + 1 < len(rows) else "") + "  --" + r.split("  --")[1]) for i, r in enumerate(rows)) + "\n]\n")
    out.append("end Smrt.Gen.C19")
    (GEN / "C19Sensors.lean").write_text("\n".join(out) + "\n")

    mods, support = plugin_table()
    out = ["/- GENERATED by harness/pC19.py generate_tables() from /repo's working tree — do not edit -/",
           "import SmrtVerif.Model.ResultMap", "namespace Smrt.Gen.C19", "open Smrt.RM", ""]
    for d in PLUGIN_DIRS:
        out.append(f"def mods_{d} : List Mod := [\n" + ",\n".join(lean_mod(m) for m in mods if m[0] == d) + "]\n")
    out.append("def support : List Mod := [\n" + ",\n".join(lean_mod(m) for m in support) + "]\n")
    out.append("def plugins : Table := " + " ++ ".join(f"mods_{d}" for d in PLUGIN_DIRS) + " ++ support\n")
    out.append("end Smrt.Gen.C19")
    (GEN / "C19Plugins.lean").write_text("\n".join(out) + "\n")
    nsens = sum(len(v) for v in fams.values())
    return {"obligations": nsens + len(cust) + len(mods),
            "tables": {"sensor_records": nsens, "sensor_families": len(fams), "channels": sum(len(r[3]) for v in fams.values() for r in v),
                       "custom_frequency_channels": len(cust), "plugin_modules": len(mods),
                       "plugin_classes": sum(len(m[2]) for m in mods), "constructor_calls_that_raise": failed}}


# =============================================================================================
# serialisation (the same canonical forms as SmrtVerif/Driver/C19.lean)

def ctok(v):
    """coordinate token: strings unchanged, numbers as the exact token of their float64 value"""
    if isinstance(v, (str, np.str_, bytes)):
        s = v.decode() if isinstance(v, bytes) else str(v)
        assert s and " " not in s
        return s
    return f2t(float(v) + 0.0)


def ser_res(da):
    """input form of a DataArray: nd dims… ncells {key… value}"""
    dims = list(da.dims)
    coords = [[ctok(c) for c in da[d].values] for d in dims]
    vals = np.asarray(da.values, dtype=float)
    cells = []
    for idx in np.ndindex(*vals.shape):
        cells.append(" ".join(coords[k][i] for k, i in enumerate(idx)) + (" " if dims else "") + f2t(vals[idx]))
    return f"{len(dims)} " + "".join(d + " " for d in dims) + f"{len(cells)} " + " ".join(cells)


def ser_fix(fx):
    return f"{len(fx)}" + "".join(f" {k} {ctok(v)}" for k, v in fx)


def ser_cm(cm):
    return f"{len(cm)}" + "".join(f" {name} {ser_fix(list(m.items()))}" for name, m in cm.items())


def key_text(names, vals):
    ps = sorted(f"{n}={ctok(v)}" for n, v in zip(names, vals))
    return ";".join(ps) if ps else "-"


def out_res(x):
    """canonical output of a selection: float or DataArray -> n=K {key value} sorted by key"""
    import xarray as xr
    if not isinstance(x, xr.DataArray):
        return f"n=1 - {f2t(float(x))}"
    dims = list(x.dims)
    coords = [x[d].values for d in dims]
    vals = np.asarray(x.values, dtype=float)
    cells = []
    for idx in np.ndindex(*vals.shape):
        cells.append((key_text(dims, [coords[k][i] for k, i in enumerate(idx)]), f2t(vals[idx])))
    cells.sort(key=lambda c: c[0])
    return f"n={len(cells)} " + " ".join(k + " " + v for k, v in cells)


def out_cm(cm):
    return " ".join(sorted(name + ":" + (";".join(sorted(f"{k}={ctok(v)}" for k, v in m.items())) or "-") for name, m in cm.items()))


def out_frame(df, keep=None):
    """canonical form of a data frame; `keep`: the value columns (xarray additionally emits one column per non-index
    coordinate, e.g. `theta` after the vectorised theta = theta_inc selection: those are not values of the result)"""
    if keep is not None:
        df = df.loc[:, [c for c in df.columns if c in keep]]
    names = list(df.index.names)
    rows = []
    for idx, row in zip(df.index, df.values):
        idx = idx if isinstance(idx, tuple) else (idx,)
        key = "-" if names == [None] else key_text(names, idx)
        rows.append((key, " ".join(f2t(v) for v in row)))
    rows.sort(key=lambda r: r[0])
    return "cols " + " ".join(str(c) for c in df.columns) + f" rows={len(rows)} " + " ".join(k + " " + v for k, v in rows)


def impl(fn):
    try:
        return fn()
    except Exception as e:  # noqa
        return C.err_kind(e)


# =============================================================================================
# stub results

EXTRA_DIMS = [("snowpack", [0, 1]), ("time", [10.5, 11.5, 12.5]), ("site", ["a", "b"]), ("snowpack", [0, 1, 2])]


def stub_data(rng, shape, active):
    if active:
        v = 10 ** rng.uniform(-6, -1, size=shape)
        flat = v.reshape(-1)
        for k in range(flat.size):       # hit the -200 dB floor and the sign handling now and then
            r = rng.random()
            if r < 0.03:
                flat[k] = 0.0
            elif r < 0.05:
                flat[k] = 1e-25
            elif r < 0.06:
                flat[k] = -1e-7
        return v
    return rng.uniform(50, 270, size=shape)


def stub_result(sensor, rng, extra=(), layout="dort"):
    """a result with the dimensions the solvers give a sensor (DORT: passive theta x polarization [V,H], active
    theta_inc x polarization_inc x polarization [V,H,U]; altimetry: t_gate x theta_inc x theta), a leading frequency
    dimension when the sensor has several (what Model.run concatenates), and `extra` leading dimensions"""
    from smrt.core.result import make_result
    coords = list(extra)
    freqs = np.atleast_1d(sensor.frequency)
    if len(freqs) > 1:
        coords.append(("frequency", [float(f) for f in freqs]))
    if sensor.mode == "P":
        coords += [("theta", list(sensor.theta_deg)), ("polarization", ["V", "H"])]
    elif layout == "altimetry":
        coords += [("t_gate", [0.0, 3.125e-9, 6.25e-9]), ("theta_inc", list(sensor.theta_inc_deg)), ("theta", list(sensor.theta_inc_deg))]
    else:
        coords += [("theta_inc", list(sensor.theta_inc_deg)), ("polarization_inc", ["V", "H", "U"]), ("polarization", ["V", "H", "U"])]
    shape = [len(c[1]) for c in coords]
    return make_result(sensor, stub_data(rng, shape, sensor.mode == "A"), coords)


class Source:
    """a result as the model sees it (pieces + how they were combined) and as the implementation built it"""

    def __init__(self, result, text, fixes, mode):
        self.result, self.text, self.fixes, self.mode = result, text, fixes, mode   # fixes: intended {channel: {dim: value}}


def make_source(sensor, rng, extra=(), layout="dort"):
    from smrt.core.sensor import SensorList
    from smrt.core.result import concat_results
    label, mode, dims, chans = sensor_record("", sensor)
    if isinstance(sensor, SensorList):
        pieces = [stub_result(s, rng, extra, layout) for s in sensor.sensor_list]
        axis, vals = next(iter(sensor.configurations()))
        text = f"cat {axis} {len(pieces)} " + " ".join(f"{ctok(v)} {ser_res(p.data)} {ser_cm(p.channel_map)}" for v, p in zip(vals, pieces))
        res = impl(lambda: concat_results(pieces, (axis, vals)))
        fixes = {}
        for s, v in zip(sensor.sensor_list, vals):
            for ch, m in s.channel_map.items():
                fixes[ch] = dict(m, **{axis: v})
        return Source(res, text, fixes, mode)
    r = stub_result(sensor, rng, extra, layout)
    return Source(r, f"one {ser_res(r.data)} {ser_cm(r.channel_map)}", {ch: dict(m) for ch, m in sensor.channel_map.items()}, mode)


def call_kind(res, kind, channel=None, **kw):
    if kind == "tb":
        return res.Tb(channel=channel, **kw)
    if kind == "sigma":
        return res.sigma(channel=channel, **kw)
    return res.sigma_dB(channel=channel, **kw)


def frame_kind(res, kind, channel_axis, **kw):
    if kind == "tb":
        return res.to_dataframe(channel_axis=channel_axis, **kw)
    if kind == "sigma":
        return res.sigma_as_dataframe(channel_axis=channel_axis, **kw)
    return res.to_dataframe(channel_axis=channel_axis, **kw)


TOLSEL = Tol(1e-12, 1e-300)           # selections move values, conversions multiply by a constant / take one log


def add_source_cases(co, src, slice_, rng, label, exports=True):
    """every channel of a source: by name, by explicit coordinates; the exports"""
    res = src.result
    isres = not isinstance(res, str)
    kinds = ["tb"] if src.mode == "P" else ["sigma", "sigmadb"]
    for ch, fx in src.fixes.items():
        for kind in kinds:
            co.add(slice_ + ".channel", f"sel {kind} {ch} 0 {src.text}",
                   impl(lambda: out_res(call_kind(res, kind, channel=ch))) if isres else res, TOLSEL, desc={"sensor": label, "channel": ch, "kind": kind})
            co.add(slice_ + ".explicit", f"explicit {kind} {ch} {src.text}",
                   impl(lambda: out_res(call_kind(res, kind, **{k: v for k, v in fx.items() if k in res.data.dims}))) if isres else res,
                   TOLSEL, desc={"sensor": label, "channel": ch, "kind": kind, "explicit": True})
    if not exports or not isres:
        return
    kind = kinds[-1]
    if src.fixes:
        co.add(slice_ + ".frame", f"frame {kind} 0 {src.text}", impl(lambda: out_frame(frame_kind(res, kind, "column"), keep=list(res.channel_map))), TOLSEL,
               desc={"sensor": label, "export": "to_dataframe(channel_axis='column')"})
        co.add(slice_ + ".series", f"series {kind} 0 {src.text}",
               impl(lambda: " ".join(f"{k} {f2t(v)}" for k, v in res.to_series().items() if k in res.channel_map)), TOLSEL, desc={"sensor": label, "export": "to_series"})
    co.add(slice_ + ".frame", f"frameall {kind} 0 {src.text}",
           impl(lambda: out_frame(frame_kind(res, kind, None), keep=["Tb", "sigma"]).replace("cols " + ("Tb" if kind == "tb" else "sigma"), "cols v", 1)), TOLSEL,
           desc={"sensor": label, "export": "to_dataframe(channel_axis=None)"})
    co.add(slice_ + ".dump", f"dump {src.text}", impl(lambda: out_res(res.data) + " | " + out_cm(res.channel_map)), C.EXACT, desc={"sensor": label, "dump": True})


def generic_sensor(rng):
    from smrt.core import sensor as cs
    nf = int(rng.integers(1, 5)); nt = int(rng.integers(1, 5))
    freqs = sorted(float(f) for f in rng.choice([1.4e9, 6.9e9, 10.65e9, 13.4e9, 18.7e9, 36.5e9, 89e9, 150e9], nf, replace=False))
    thetas = [float(t) for t in rng.choice([0, 10, 20, 30, 35.5, 40, 50, 55, 60], nt, replace=False)]
    f = freqs if nf > 1 else freqs[0]
    t = thetas if nt > 1 else thetas[0]
    if rng.random() < 0.5:
        pol = [["V", "H"], ["V"], ["H"], None][int(rng.integers(0, 4))]
        cm = None
        if rng.random() < 0.6:
            cm = {}
            with_f = nf > 1 or rng.random() < 0.5          # every channel of a sensor fixes the same dimensions
            with_t = nt > 1 and rng.random() < 0.7
            for i, fr in enumerate(freqs):
                for p in (pol or ["V", "H"]):
                    m = dict(polarization=p)
                    if with_f:
                        m["frequency"] = fr
                    if with_t:
                        m["theta"] = thetas[int(rng.integers(0, nt))]
                    cm[f"c{i}{p}"] = m
        return cs.passive(f, t, pol, channel_map=cm)
    cm = cs.channel_map_for_radar(freqs, order=str(rng.choice(["fp", "pf"]))) if rng.random() < 0.6 else None
    return cs.active(f, t, channel_map=cm)


def dort_model():
    from smrt import make_model
    return make_model("iba", "dort", rtsolver_options=dict(n_max_stream=16))


def small_snowpack(k=0):
    from smrt import make_snowpack
    return make_snowpack([1], "exponential", density=300 + 20 * k, corr_length=1e-4, temperature=260)


_TMP = [None]


def tmpdir():
    if _TMP[0] is None:
        _TMP[0] = Path(tempfile.mkdtemp(prefix="verif-C19-"))
    return _TMP[0]


def cleanup():
    """remove the scratch directory (bin/check leaves through os._exit, so atexit handlers would never run)"""
    if _TMP[0] is not None:
        if str(_TMP[0]) in sys.path:
            sys.path.remove(str(_TMP[0]))
        shutil.rmtree(_TMP[0], ignore_errors=True)
        _TMP[0] = None


def save_open(res, name="r.nc"):
    from smrt.core.result import open_result
    p = tmpdir() / name
    if p.exists():
        p.unlink()
    res.save(str(p))
    r2 = open_result(str(p))
    out = r2.mode + " " + out_res(r2.data.load())
    try:
        r2.data.close()
    except Exception:
        pass
    return out


# ---------------------------------------------------------------------------------------------
# plugin packages created on the fly

_PKG_COUNTER = [0]
CLASS_POOL = ["Alpha", "Beta", "Zeta", "_Hidden", "alpha", "IBA", "B2", "_B", "Mixin"]


def make_user_packages(spec):
    """spec: [ {modname 'dir.module': [class names]} ] in registration order (last = most recent). Returns the package names."""
    root = tmpdir()
    if str(root) not in sys.path:
        sys.path.insert(0, str(root))
    names = []
    for mods in spec:
        _PKG_COUNTER[0] += 1
        pkg = f"vc19pkg{os.getpid()}_{_PKG_COUNTER[0]}"
        (root / pkg).mkdir()
        (root / pkg / "__init__.py").write_text("")
        for modname, classes in mods.items():
            d, m = modname.split(".")
            (root / pkg / d).mkdir(exist_ok=True)
            (root / pkg / d / "__init__.py").write_text("")
            (root / pkg / d / (m + ".py")).write_text("import math\nfrom collections import OrderedDict\n" + "".join(f"class {c}:\n    pass\n\n" for c in classes))
        names.append(pkg)
    importlib.invalidate_caches()
    return names


def run_import(dirname, module, spec):
    """register the packages of spec (in order), resolve, clean up; canonical output"""
    from smrt.core import plugin
    from smrt.core.error import SMRTError
    names = make_user_packages(spec)
    saved = list(plugin.user_plugin_package)
    plugin.import_class.cache_clear()
    try:
        for n in names:
            plugin.register_package(n)
        try:
            cls = plugin.import_class(dirname, module)
        except SMRTError as e:
            return "ERR SMRTError:" + ("noclass" if "find a class" in str(e) else "relative" if "Relative" in str(e) else "nomodule")
        except Exception as e:  # noqa
            return "ERR foreign:" + type(e).__name__
        order = list(plugin.user_plugin_package)
        top = cls.__module__.split(".")[0]
        idx = order.index(top) if top in order else len(order)
        return f"cls {idx} {cls.__name__}"
    finally:
        plugin.user_plugin_package[:] = saved
        plugin.import_class.cache_clear()


def plugin_need(d):
    """what the framework calls on a plugin class of directory d (ks / ka are instance attributes: checked through the source text)"""
    def emm(c):
        src = ""
        for k in c.__mro__:
            try:
                src += inspect.getsource(k)
            except Exception:
                pass
        return (hasattr(c, "ke") and hasattr(c, "effective_permittivity") and (hasattr(c, "phase") or hasattr(c, "ft_even_phase"))
                and "self.ks" in src and "self.ka" in src)
    return {"rtsolver": lambda c: hasattr(c, "solve"), "emmodel": emm,
            "interface": lambda c: hasattr(c, "specular_reflection_matrix"), "substrate": lambda c: hasattr(c, "specular_reflection_matrix"),
            "atmosphere": lambda c: hasattr(c, "run"),
            "microstructure_model": lambda c: any(b.__name__ == "Autocorrelation" for b in c.__mro__[1:])}[d]


def impl_implements(d, mname):
    """is the module a model module (some public class defined there implements the interface), and does the picked class implement it?"""
    from smrt.core import plugin
    mod = importlib.import_module(f"smrt.{d}.{mname}")
    need = plugin_need(d)
    own = [c for n, c in inspect.getmembers(mod, inspect.isclass) if c.__module__ == mod.__name__ and not n.startswith("_")]
    plugin.import_class.cache_clear()
    try:
        picked = need(plugin.import_class(d, mname))
    except Exception:
        picked = False
    return f"model={'yes' if any(need(c) for c in own) else 'no'} picked={'yes' if picked else 'no'}"


def importable(dirname, module):
    try:
        importlib.import_module(f"smrt.{dirname}.{module}")
        return True
    except Exception:
        return False


# =============================================================================================
# correspondence

def correspond(ctx):
    try:
        return _correspond(ctx)
    finally:
        cleanup()


def _correspond(ctx):
    C.import_smrt()
    from smrt.core import sensor as cs, result as R
    from smrt.core.globalconstants import C_SPEED
    from smrt.utils import dB, invdB
    co = Corr(PROP, DRIVER)
    rng = ctx.np

    # --- every predefined sensor through a stub result
    calls = sensor_calls()
    for i, (fam, label, call) in enumerate(calls):
        s = call()
        rec = sensor_record(label, s)
        co.add("Gen.Sensors", f"sensor {i}",
               rec[1] + " " + " ".join(d + "=" + ",".join(vs) for d, vs in rec[2]) + " | " + " ".join(sorted(
                   n + ":" + (";".join(sorted(f"{k}={v}" for k, v in fx)) or "-") for n, fx in rec[3])), C.EXACT, desc={"sensor": label})
        nextra = int(rng.integers(0, 4)) if len(rec[3]) * max(1, len(rec[2])) < 40 else int(rng.integers(0, 2))
        extra = [EXTRA_DIMS[j] for j in sorted(rng.choice(3, nextra, replace=False))]
        layout = "altimetry" if fam in ("envisat_ra2", "sentinel3_sral", "saral_altika", "cryosat2_lrm", "cryosat2_sin", "asiras_lam") and rng.random() < 0.7 else "dort"
        src = make_source(s, rng, extra, layout)
        add_source_cases(co, src, "result.predefined", rng, label, exports=(ctx.thorough or i % 3 == 0 or len(rec[3]) <= 4))
        co.note(f"predefined sensor, mode {rec[1]}, {len(rec[3])} channels, {nextra} extra dims, layout {layout}")

    # --- generic sensors, keyword selections
    for _ in range(ctx.n(60, 600)):
        s = generic_sensor(rng)
        nextra = int(rng.integers(0, 4))
        extra = [EXTRA_DIMS[j] for j in sorted(rng.choice(3, nextra, replace=False))]
        src = make_source(s, rng, extra)
        add_source_cases(co, src, "result.generic", rng, "generic", exports=rng.random() < 0.5)
        res = src.result
        kinds = ["tb"] if s.mode == "P" else ["sigma", "sigmadb"]
        for _k in range(3):
            kw = {}
            for d in res.data.dims:
                r = rng.random()
                if r < 0.35:
                    kw[d] = res.data[d].values[int(rng.integers(0, res.data.sizes[d]))]
                elif r < 0.38:
                    kw[d] = 12345.0 if res.data[d].dtype.kind == "f" else "Q"       # not a coordinate -> KeyError
            if rng.random() < 0.05:
                kw["nodim"] = 1.0
            if s.mode == "A" and rng.random() < 0.3:
                th = res.data["theta_inc"].values
                kw["theta"] = th[int(rng.integers(0, len(th)))]
            kws = {k: (v.item() if hasattr(v, "item") else v) for k, v in kw.items()}
            ch = None
            if res.channel_map and rng.random() < 0.4:
                ch = list(res.channel_map)[int(rng.integers(0, len(res.channel_map)))] if rng.random() < 0.9 else "nochannel"
            kind = kinds[int(rng.integers(0, len(kinds)))]
            co.add("result.keywords", f"sel {kind} {ch or '-'} {ser_fix(list(kws.items()))} {src.text}",
                   impl(lambda: out_res(call_kind(res, kind, channel=ch, **kws))), TOLSEL, desc={"kw": {k: str(v) for k, v in kws.items()}, "channel": ch, "kind": kind})
            co.note("keyword selection, %d fixed of %d dims%s" % (len(kws), len(res.data.dims), ", with channel" if ch else ""))
        # a *list* of incidence angles (active results): each value is 4 pi cos(theta) x the intensity at its own angle
        if s.mode == "A":
            th = [v.item() if hasattr(v, "item") else v for v in res.data["theta_inc"].values]
            k = int(rng.integers(1, len(th) + 1))
            pick = [th[int(j)] for j in rng.permutation(len(th))[:k]]
            kws = {}
            for d in res.data.dims:
                if d not in ("theta", "theta_inc") and rng.random() < 0.3:
                    v = res.data[d].values[int(rng.integers(0, res.data.sizes[d]))]
                    kws[d] = v.item() if hasattr(v, "item") else v
            kind = kinds[int(rng.integers(0, len(kinds)))]
            co.add("result.theta-list", f"sellist {kind} {len(pick)} " + " ".join(ctok(t) for t in pick) + f" {ser_fix(list(kws.items()))} {src.text}",
                   impl(lambda: out_res(call_kind(res, kind, theta=list(pick), **kws))), TOLSEL,
                   desc={"theta": [str(t) for t in pick], "kw": {k_: str(v) for k_, v in kws.items()}, "kind": kind})
            co.note("list of %d incidence angles of %d" % (len(pick), len(th)))
        co.note(f"generic sensor mode {s.mode}, {nextra} extra dims")

    # --- concatenation (same sensor / different sensors), then selection by channel and along the new dimension
    from smrt.inputs import sensor_list as sl
    for _ in range(ctx.n(25, 250)):
        n = int(rng.integers(2, 5))
        name, vals = [("time", [float(v) for v in rng.choice(50, n, replace=False)]), ("site", list("abcd")[:n]), ("snowpack", list(range(n)))][int(rng.integers(0, 3))]
        if rng.random() < 0.5:
            s = [sl.amsre(), sl.smos(theta=[40, 55]), sl.quikscat(), sl.smap("A"), generic_sensor(rng)][int(rng.integers(0, 5))]
            pieces = [stub_result(s, rng) for _ in range(n)]
            fixes = {ch: dict(m) for ch, m in s.channel_map.items()}
        else:
            chans = [str(c) for c in rng.choice(["06V", "10H", "19V", "23V", "37V", "37H", "89H"], n, replace=False)]
            sens = [sl.amsre(c) for c in chans]
            pieces = [stub_result(x, rng) for x in sens]
            fixes = {c: dict(x.channel_map[c], **{name: v}) for c, x, v in zip(chans, sens, vals)}
        text = f"cat {name} {n} " + " ".join(f"{ctok(v)} {ser_res(p.data)} {ser_cm(p.channel_map)}" for v, p in zip(vals, pieces))
        res = impl(lambda: R.concat_results(pieces, (name, vals)))
        mode = pieces[0].mode
        src = Source(res, text, fixes, mode)
        add_source_cases(co, src, "result.concat", rng, "concat", exports=True)
        if not isinstance(res, str):
            kind = "tb" if mode == "P" else "sigma"
            for v in vals:
                co.add("result.concat.sel", f"sel {kind} - {ser_fix([(name, v)])} {text}", impl(lambda: out_res(call_kind(res, kind, **{name: v}))), TOLSEL,
                       desc={"concat": name, "select": str(v)})
        co.note(f"concat of {n} along {name}, " + ("same channel map" if len({json.dumps(out_cm(p.channel_map)) for p in pieces}) == 1 else "different channel maps"))

    # --- real DORT results
    m = dort_model()
    sp = small_snowpack()
    real = [("amsre()", sl.amsre()), ("quikscat()", sl.quikscat()), ("smos()", sl.smos()), ("sentinel1()", sl.sentinel1()), ("smap('A')", sl.smap("A")),
            ("ascat(theta=[25,45])", sl.ascat(theta=[25, 45])), ("cimr('19')", sl.cimr("19"))]
    if ctx.thorough:
        real += [("amsr2()", sl.amsr2()), ("cimr()", sl.cimr()), ("ascat()", sl.ascat()), ("smap('P')", sl.smap("P"))]
    for label, s in real:
        multi = rng.random() < 0.5
        res = m.run(s, [small_snowpack(k) for k in range(2)], snowpack_dimension=("time", [1.5, 2.5])) if multi else m.run(s, sp)
        src = Source(res, f"one {ser_res(res.data)} {ser_cm(res.channel_map)}", {ch: dict(mm) for ch, mm in s.channel_map.items()}, s.mode)
        add_source_cases(co, src, "result.dort", rng, label, exports=True)
        co.add("result.saveload", f"saveload {res.mode} {ser_res(res.data)}", impl(lambda: save_open(res)), C.EXACT, desc={"saveload": label})
        co.note("DORT result " + ("with a snowpack dimension" if multi else "single snowpack"))

    # --- save / open on stubs (0..3 extra dimensions), and mode guessing for files without the attribute
    import xarray as xr
    for k in range(ctx.n(20, 200)):
        s = generic_sensor(rng) if rng.random() < 0.6 else [sl.amsre(), sl.quikscat(), sl.smos(), sl.sentinel1()][int(rng.integers(0, 4))]
        nextra = int(rng.integers(0, 4))
        extra = [EXTRA_DIMS[j] for j in sorted(rng.choice(3, nextra, replace=False))]
        res = stub_result(s, rng, extra)
        co.add("result.saveload", f"saveload {res.mode} {ser_res(res.data)}", impl(lambda: save_open(res, f"s{k}.nc")), C.EXACT,
               desc={"saveload": "stub", "mode": res.mode, "dims": list(res.data.dims)})
        if k % 4 == 0:
            def noattr():
                da = res.data.copy(); da.attrs = {}
                p = tmpdir() / f"g{k}.nc"; da.to_netcdf(str(p))
                r2 = R.open_result(str(p))
                return r2.mode + " " + out_res(r2.data.load())
            co.add("result.saveload", f"loadguess {ser_res(res.data)}", impl(noattr), C.EXACT, desc={"loadguess": res.mode})
        co.note(f"save/open mode {res.mode}, {len(res.data.dims)} dims")

    # --- numeric conversions
    for _ in range(ctx.n(40, 400)):
        x = float(10 ** rng.uniform(-26, 2)) if rng.random() < 0.9 else float(rng.choice([0.0, -1e-3, 1e-20, 1.0]))
        co.add("dB", f"db {f2t(x)}", f2t(float(dB(x))), Tol(1e-12), desc={"dB": x})
        y = float(rng.uniform(-220, 30))
        co.add("dB", f"invdb {f2t(y)}", f2t(float(invdB(y))), Tol(1e-12), desc={"invdB": y})
        th = float(rng.uniform(0, 89)); I = float(10 ** rng.uniform(-6, 0))
        a = R.ActiveResult(np.array([[[I]]]), coords=[("theta_inc", [th]), ("polarization_inc", ["V"]), ("polarization", ["V"])])
        co.add("sigma", f"sigmalin {f2t(th)} {f2t(I)}", f2t(float(a.sigmaVV())), Tol(1e-12), desc={"theta": th, "I": I})
    for _ in range(ctx.n(30, 300)):
        f = float(10 ** rng.uniform(8.5, 11.5))
        s = cs.Sensor(frequency=f, theta_deg=40.0)
        co.add("sensor.wavelength", f"wavelength {f2t(C_SPEED)} {f2t(f)}", f"{f2t(s.wavelength)} {f2t(s.frequency * s.wavelength)}", Tol(1e-15), desc={"f": f})
        wl = float(10 ** rng.uniform(-3, 0))
        s = cs.Sensor(wavelength=wl, theta_deg=40.0)
        co.add("sensor.wavelength", f"frequency {f2t(C_SPEED)} {f2t(wl)}", f2t(s.frequency), Tol(1e-15), desc={"wavelength": wl})
    for _ in range(ctx.n(30, 300)):
        n = int(rng.integers(1, 6))
        th = [float(t) for t in rng.choice([0, 10, 20, 30, 40, 40.0, 55, 55.0, 60], n)]
        active = rng.random() < 0.5
        def mk():
            s = cs.active(13e9, th) if active else cs.passive(37e9, th)
            return "ok"
        co.add("sensor.angles", f"angles {n} " + " ".join(ctok(t) for t in th), impl(mk), C.EXACT, desc={"theta": th, "active": active},
               nontrivial=True)
        co.note("angles " + ("with duplicates" if len(set(th)) < n else "distinct"))
    co.add("sensor.mode", "mode -", cs.passive(37e9, 55).mode, C.EXACT)
    co.add("sensor.mode", "mode " + ctok(40.0), cs.active(13e9, 40).mode, C.EXACT)

    # --- plugins: every module file that imports offline; user packages
    mods, _support = plugin_table()
    for d, mname, classes in mods:
        if classes and not importable(d, mname):
            co.note(f"plugin module not importable offline (source only): {d}.{mname}")
            continue
        if not classes and not importable(d, mname):
            co.note(f"plugin module without classes not importable offline: {d}.{mname}")
            continue
        co.add("Gen.Plugins", f"pick {d} {mname}", impl(lambda: run_import(d, mname, []).replace("cls 0 ", "cls ")), C.EXACT, desc={"module": f"{d}.{mname}"})
    for d, mname, classes in mods:
        if classes and importable(d, mname):
            co.add("Gen.Plugins", f"implements {d} {mname}", impl(lambda: impl_implements(d, mname)), C.EXACT, desc={"implements": f"{d}.{mname}"})
    for lab, ch, f, p in custom_entries():
        co.add("sensor.custom_name", f"customok {ch} {int(round(f))} {p}", "ok", C.EXACT, desc={"custom": lab, "channel": ch})
    co.add("Gen.Plugins", "pick emmodel no_such_module", impl(lambda: run_import("emmodel", "no_such_module", [])), C.EXACT)
    co.add("Gen.Plugins", "pick emmodel ..iba", impl(lambda: run_import("emmodel", "..iba", [])), C.EXACT)
    co.add("Gen.Plugins", "pick emmodel .iba", impl(lambda: run_import("emmodel", ".iba", [])), C.EXACT)
    targets = [("emmodel", "iba"), ("emmodel", "mymodel"), ("interface", "flat"), ("substrate", "mysoil"), ("rtsolver", "dort"), ("emmodel", "common")]
    for _ in range(ctx.n(40, 300)):
        d, mname = targets[int(rng.integers(0, len(targets)))]
        nu = int(rng.integers(0, 4))
        spec = []
        for _u in range(nu):
            mods_u = {}
            for (dd, mm) in targets:
                if rng.random() < 0.4:
                    nc = int(rng.integers(0, 4))
                    mods_u[f"{dd}.{mm}"] = [str(c) for c in rng.choice(CLASS_POOL, nc, replace=False)]
            spec.append(mods_u)
        search = spec[::-1]            # most recently registered first
        line = f"importu {d} {mname} {nu} " + " ".join(
            f"{len(mu)} " + " ".join(f"{k} {len(v)} " + " ".join(v) for k, v in mu.items()) for mu in search)
        co.add("plugin.user", " ".join(line.split()), impl(lambda: run_import(d, mname, spec)), C.EXACT, desc={"module": f"{d}.{mname}", "user": spec})
        co.note(f"user packages {nu}")
    return co


# =============================================================================================
# the property itself, evaluated on the implementation (independent of the Lean model)

def same_map(a, b, rel=1e-12):
    """two selections are the same finite map (floats or DataArrays compared as coordinate -> value)"""
    ta, tb = out_res(a).split(), out_res(b).split()
    return C.compare_lines(" ".join(ta), " ".join(tb), Tol(rel, 1e-300)) is None


def multi_dims(sensor_dims_):
    return [d for d, vs in sensor_dims_ if len(vs) > 1]


def check_channels(label, s, rng, layout="dort", extra=()):
    """channel selection = explicit selection; single value when the channel fixes every multi-valued dimension; exports hold the same values"""
    import xarray as xr
    src = make_source(s, rng, extra, layout)
    res = src.result
    if isinstance(res, str):
        return ("build", f"{label}: building the result raises {res}", "a result")
    rec = sensor_record(label, s)
    kinds = ["tb"] if src.mode == "P" else ["sigma", "sigmadb"]
    dims = list(res.data.dims)
    for ch, fx in src.fixes.items():
        fxd = {k: v for k, v in fx.items() if k in dims}
        for kind in kinds:
            try:
                by_name = call_kind(res, kind, channel=ch)
            except Exception as e:  # noqa
                return ("channel-raises", f"{label}: {kind}(channel={ch!r}) raises {type(e).__name__}: {str(e)[:80]}", "the value(s) of the channel")
            # explicit coordinates, directly on the array (independent of Result.sel_data)
            x = res.data.sel(drop=True, **{k: v for k, v in fxd.items() if not (src.mode == "A" and k in ("theta", "theta_inc"))})
            if src.mode == "A":
                th = fxd.get("theta_inc", fxd.get("theta"))
                ths = [th] if th is not None else list(res.data["theta_inc"].values)
                parts = []
                for t in ths:
                    sel = {"theta_inc": t}
                    if "theta" in dims:
                        sel["theta"] = t
                    y = x.sel(drop=True, **sel) * (4 * math.pi * math.cos(math.radians(float(t))))
                    if kind == "sigmadb":
                        y = 10 * np.log10(np.maximum(y, 1e-20))
                    parts.append(y)
                import pandas as pd
                x = parts[0] if th is not None else xr.concat(parts, pd.Index(ths, name="theta_inc"))
            x = x.squeeze()
            expected = float(x) if x.size == 1 else x
            if not same_map(by_name, expected, 1e-9):
                return ("channel-neq-explicit", f"{label}: {kind}(channel={ch!r}) = {out_res(by_name)[:120]} differs from the selection by "
                        f"{ {k: str(v) for k, v in fxd.items()} } = {out_res(expected)[:120]}", out_res(expected)[:200])
            fixes_all = all(d in fx for d in multi_dims(rec[2]))
            sensor_dim_names = [d for d, _ in rec[2]]
            only_sensor_dims = all(d in sensor_dim_names for d in dims if res.data.sizes[d] > 1)   # e.g. not an altimeter in a polarimetric stub
            if fixes_all and only_sensor_dims and not isinstance(by_name, float):
                return ("channel-not-single", f"{label}: channel {ch!r} fixes every multi-valued dimension of the sensor but {kind}(channel=…) "
                        f"has {by_name.size} values over {list(by_name.dims)}", "a single value")
        # exports
        try:
            if src.mode == "P":
                df = res.to_dataframe(channel_axis="column"); ref = res.Tb(channel=ch)
            else:
                df = res.to_dataframe(channel_axis="column"); ref = res.sigma_dB(channel=ch)
            col = df[ch]
            if hasattr(col, "columns"):
                col = col.iloc[:, 0]
            a = np.sort(np.asarray(col.values, dtype=float).ravel()); b = np.sort(np.atleast_1d(np.asarray(ref, dtype=float)).ravel())
            if a.shape != b.shape or not np.allclose(a, b, rtol=1e-9, atol=0, equal_nan=True):
                return ("dataframe-values", f"{label}: to_dataframe()[{ch!r}] holds {a[:4]} but the channel's values are {b[:4]}", str(b[:8]))
            if isinstance(ref, float):
                sv = float(res.to_series()[ch])
                if not math.isclose(sv, ref, rel_tol=1e-9):
                    return ("series-values", f"{label}: to_series()[{ch!r}] = {sv} but the channel's value is {ref}", ref)
        except Exception as e:  # noqa
            return ("export-raises", f"{label}: to_dataframe/to_series raises {type(e).__name__}: {str(e)[:80]}", "the channel values")
    return None


def check_channel_sequence(label, s, rng):
    """a channel selection combined with another selector, then the same channel alone: the second call, the exports and the sensor's own
    channel definitions must be what they were before (selection is a read-only operation)"""
    import copy
    from smrt.core.sensor import SensorList
    if isinstance(s, SensorList):
        return None
    extra = (("snowpack", [0, 1, 2]),)
    res = stub_result(s, rng, extra)
    kind = "tb" if s.mode == "P" else "sigma"
    cm0 = copy.deepcopy(dict(s.channel_map))
    for ch in list(s.channel_map)[:3]:
        try:
            first = call_kind(res, kind, channel=ch)
            n0 = len(res.to_dataframe())
            call_kind(res, kind, channel=ch, snowpack=1)
            again = call_kind(res, kind, channel=ch)
            n1 = len(res.to_dataframe())
        except Exception as e:  # noqa
            return ("channel-sequence", f"{label}: channel {ch!r} then channel + snowpack=1 then channel again raises {type(e).__name__}: {str(e)[:80]}",
                    "three selections")
        if not same_map(first, again, 1e-12):
            return ("channel-sequence", f"{label}: {kind}(channel={ch!r}) = {out_res(first)[:100]}, but after {kind}(channel={ch!r}, snowpack=1) the same "
                    f"call gives {out_res(again)[:100]}", out_res(first)[:200])
        if n0 != n1:
            return ("channel-sequence", f"{label}: to_dataframe() has {n0} rows before and {n1} rows after {kind}(channel={ch!r}, snowpack=1)", n0)
        if dict(s.channel_map) != cm0:
            return ("channel-sequence", f"{label}: the sensor's channel_map changed after {kind}(channel={ch!r}, snowpack=1): {dict(s.channel_map).get(ch)} "
                    f"(was {cm0.get(ch)})", str(cm0.get(ch)))
    return None


def check_saveload(res):
    from smrt.core.result import open_result
    p = tmpdir() / "oracle.nc"
    if p.exists():
        p.unlink()
    res.save(str(p))
    try:
        r2 = open_result(str(p))
    except Exception as e:  # noqa
        return ("open_result:raises", f"a result saved with Result.save cannot be read back: open_result raises {type(e).__name__}: {str(e)[:100]}",
                "the saved result")
    d2 = r2.data.load()
    if r2.mode != res.mode or type(r2).__name__ != type(res).__name__.replace("AltimetryResult", "ActiveResult"):
        return ("open_result:mode", f"saved mode {res.mode} ({type(res).__name__}), reloaded mode {r2.mode} ({type(r2).__name__})", res.mode)
    if out_res(d2) != out_res(res.data) or list(d2.dims) != list(res.data.dims):
        return ("open_result:values", "values or coordinates changed by save -> open_result", out_res(res.data)[:200])
    return None


def check_concat(pieces, fixes, name, vals):
    from smrt.core.result import concat_results
    try:
        cat = concat_results(pieces, (name, vals))
    except Exception as e:  # noqa
        return ("concat:raises", f"concat_results raises {type(e).__name__}", "the concatenated result")
    kind = "tb" if pieces[0].mode == "P" else "sigma"
    for v, p in zip(vals, pieces):
        if not same_map(cat.data.sel(drop=True, **{name: v}), p.data):
            return ("concat:values", f"concat_results changed the values of the piece {name}={v}", out_res(p.data)[:200])
    for (ch, v, p) in fixes:
        got = call_kind(cat, kind, channel=ch)
        want = call_kind(p, kind, channel=ch)
        if not same_map(got, want, 1e-12):
            return ("concat_results:dim_name", f"after concat_results along {name!r} of results with different channel maps, channel {ch!r} (piece {name}={v}) selects "
                    f"{out_res(got)[:100]} instead of {out_res(want)[:60]}; merged channel_map[{ch!r}] = {cat.channel_map.get(ch)}", out_res(want)[:100])
    return None


def check_concat_differing(rng, angle_sets, active):
    """results whose other coordinates have the same length but different values (other angles per site): every value is still found at
    its own coordinates after the concatenation"""
    from smrt.core.result import concat_results
    from smrt.core import sensor as cs
    sens = [(cs.active(13e9, list(a)) if active else cs.passive(37e9, list(a))) for a in angle_sets]
    pieces = [stub_result(x, rng) for x in sens]
    vals = list(range(len(pieces)))
    try:
        cat = concat_results(pieces, ("time", vals))
    except Exception as e:  # noqa
        return ("concat:raises", f"concat_results of results with angles {angle_sets} raises {type(e).__name__}: {str(e)[:80]}", "the concatenated result")
    for v, p in zip(vals, pieces):
        try:
            sub = cat.data.sel(drop=True, time=v).sel(**{d: p.data.coords[d].values for d in p.data.dims})
        except Exception as e:  # noqa
            return ("concat:coordinates", f"after concat_results of results with angles {angle_sets}, the coordinates of piece time={v} are gone "
                    f"({type(e).__name__}: {str(e)[:80]})", "every coordinate kept")
        if not same_map(sub, p.data):
            return ("concat:coordinates", f"after concat_results of results with angles {angle_sets}, the values of piece time={v} are not at its own "
                    f"coordinates", out_res(p.data)[:200])
    return None


def check_sigma_theta_list(rng, angles, pick):
    """sigma / sigma_dB selected with a *list* of incidence angles (polarisations left free): each value is 4 pi cos(theta) times the
    stored intensity at that angle, and dB is 10 log10 of it"""
    from smrt.core import sensor as cs
    s = cs.active(13e9, list(angles))
    res = stub_result(s, rng)
    try:
        got = res.sigma(theta=list(pick))
        got_db = res.sigma_dB(theta=list(pick))
    except Exception as e:  # noqa
        return ("sigma:theta-list", f"sigma(theta={list(pick)}) on an active result with incidence angles {list(angles)} raises {type(e).__name__}: "
                f"{str(e)[:80]}", "4 pi cos(theta) x intensity at every selected angle")
    for t in pick:
        want = res.data.sel(theta_inc=t, drop=True)
        if "theta" in want.dims:
            want = want.sel(theta=t, drop=True)
        want = want * (4 * math.pi * math.cos(math.radians(float(t))))
        g = got.sel(theta_inc=t, drop=True) if "theta_inc" in getattr(got, "dims", ()) else got
        if not same_map(g.squeeze(), want.squeeze(), 1e-12):
            return ("sigma:theta-list", f"sigma(theta={list(pick)}) on an active result with incidence angles {list(angles)}: the values at {t} deg are "
                    f"not 4 pi cos(theta) x the stored intensity", out_res(want)[:160])
        gd = got_db.sel(theta_inc=t, drop=True) if "theta_inc" in getattr(got_db, "dims", ()) else got_db
        wd = 10 * np.log10(np.maximum(want, 1e-20))
        if not same_map(gd.squeeze(), wd.squeeze(), 1e-9):
            return ("sigma:theta-list", f"sigma_dB(theta={list(pick)}): the values at {t} deg are not 10 log10 of the linear ones", out_res(wd)[:160])
    return None


def check_sigma_theta_scalar(rng, angles):
    """sigma / sigma_dB at ONE incidence angle of an active result holding several (nadir included), given as theta= or theta_inc=: a
    single value per polarisation pair, 4 pi cos(theta) times the stored intensity at that angle"""
    from smrt.core import sensor as cs
    s = cs.active(13e9, list(angles))
    res = stub_result(s, rng)
    for t in angles:
        for how in ("theta", "theta_inc"):
            for fn in ("sigma", "sigma_dB"):
                try:
                    got = getattr(res, fn)(polarization_inc="V", polarization="V", **{how: t})
                except Exception as e:  # noqa
                    return ("sigma:theta-scalar", f"{fn}({how}={t!r}) on an active result with incidence angles {list(angles)} raises {type(e).__name__}: "
                            f"{str(e)[:80]}", "one value")
                want = res.data.sel(theta_inc=t, drop=True)
                if "theta" in want.dims:
                    want = want.sel(theta=t, drop=True)
                want = float(want.sel(polarization_inc="V", polarization="V").values) * (4 * math.pi * math.cos(math.radians(float(t))))
                if fn == "sigma_dB":
                    want = 10 * math.log10(max(want, 1e-20))      # the documented floor of the dB conversion
                g = np.asarray(got, dtype=float).ravel()
                if g.size != 1 or not abs(g[0] - want) <= 1e-9 * max(1.0, abs(want)):
                    return ("sigma:theta-scalar", f"{fn}({how}={t!r}, VV) on an active result with incidence angles {list(angles)} = {g.tolist()}",
                            f"the single value {want!r}")
    return None


def check_subsensor_wavelength(freqs):
    """every sensor obeys frequency x wavelength = c - also the single-frequency sensors a multi-frequency one is split into for the
    individual simulations (Sensor.iterate)"""
    from smrt.core import sensor as cs
    from smrt.core.globalconstants import C_SPEED
    s = cs.passive(list(freqs), 40.)
    for sub in s.iterate("frequency"):
        f, lam = np.asarray(sub.frequency, dtype=float), np.asarray(sub.wavelength, dtype=float)
        if f.shape != lam.shape or not np.allclose(f * lam, C_SPEED, rtol=1e-12, atol=0):
            return ("sensor:subsensor-wavelength", f"passive({list(freqs)}, 40).iterate('frequency'): the sub-sensor at {float(f):g} Hz has wavelength "
                    f"{lam.tolist()} (wavenumber {np.asarray(sub.wavenumber).tolist()})", f"{C_SPEED / float(f)}")
    return None


def check_sensorlist_order(channels):
    """a multi-channel altimeter built with an explicit channel list in any order: the labels of `configurations()` and the sensors of
    `iterate()` pair up (what Model.run relies on to label the results)"""
    from smrt.inputs import altimeter_list as al
    s = al.envisat_ra2(list(channels))
    axis, vals = next(iter(s.configurations()))
    subs = list(s.iterate(axis))
    ref = {ch: al.envisat_ra2(ch).frequency for ch in channels}
    for label, sub in zip(vals, subs):
        if float(sub.frequency) != float(ref[label]):
            return ("sensorlist:order", f"envisat_ra2({list(channels)}): configurations() labels {list(vals)} but iterate() yields frequencies "
                    f"{[float(x.frequency) for x in subs]}: label {label!r} is paired with {float(sub.frequency):g} Hz", f"{float(ref[label]):g} Hz")
    return None


def check_custom(fname, freqs):
    from smrt.inputs import sensor_list as sl
    s = getattr(sl, fname)(frequency=list(freqs))
    if len({int(f / 1e9) for f in freqs}) == len(set(freqs)) and len({float(m["frequency"]) for m in s.channel_map.values()}) != len(set(freqs)):
        return ("common_conical_pmw:custom-frequency-name", f"sensor_list.{fname}(frequency={list(freqs)}) keeps only the frequencies "
                f"{sorted({float(m['frequency']) for m in s.channel_map.values()})}", "every frequency of the list")
    for ch, m in s.channel_map.items():
        g = m["frequency"] / 1e9
        ok = ch[-1] == m["polarization"] and ch[:-1] in ("%02i" % g, "%02i" % round(g), "%g" % g)
        if not ok:
            return ("common_conical_pmw:custom-frequency-name",
                    f"sensor_list.{fname}(frequency={list(freqs)}) names the {g:g} GHz {m['polarization']} channel {ch!r}", "%02i%s" % (g, m["polarization"]))
    return None


# the model class each module name of the shipped package stands for (what make_model("iba", "dort"), make_soil("soil_wegmuller", ...),
# make_snowpack(..., "sticky_hard_spheres") ... have always built); modules added later are not listed and only checked generically
SHIPPED_CLASSES = {
    "emmodel": {
        "dmrt_qca_shortrange": "DMRT_QCA_ShortRange", "dmrt_qcacp_shortrange": "DMRT_QCACP_ShortRange",
        "iba": "IBA", "iba_maxwell_garnett": "IBA_MaxwellGarnett", "iba_original": "IBA_original",
        "nonscattering": "NonScattering", "prescribed_kskaeps": "Prescribed_KsKaEps", "rayleigh": "Rayleigh",
        "sce_common": "SCEBase", "sce_rechtsman08": "SCER08", "sce_torquato21": "SCETK21",
        "sce_torquato21_shortrange": "SCETK21_ShortRange", "sft_rayleigh": "SFT_Rayleigh",
        "symsce_torquato21": "SymSCETK21", "symsce_torquato21_shortrange": "SymSCETK21_ShortRange",
    },
    "rtsolver": {
        "dort": "DORT", "dort_nonormalization": "DORT", "nadir_lrm_altimetry": "NadirLRMAltimetry",
        "waveform_model": "Brown1977",
    },
    "interface": {
        "coherent_flat": "CoherentFlat", "flat": "Flat", "geometrical_optics": "GeometricalOptics",
        "geometrical_optics_backscatter": "GeometricalOpticsBackscatter", "iem_fung92": "IEM_Fung92",
        "iem_fung92_brogioni10": "IEM_Fung92_Briogoni10", "radar_calibration_sphere": "RadarCalibrationSphere",
        "transparent": "Transparent",
    },
    "substrate": {
        "flat": "Flat", "geometrical_optics": "GeometricalOptics",
        "geometrical_optics_backscatter": "GeometricalOpticsBackscatter", "iem_fung92": "IEM_Fung92",
        "iem_fung92_brogioni10": "IEM_Fung92_Briogoni10", "radar_calibration_sphere": "RadarCalibrationSphere",
        "reflector": "Reflector", "reflector_backscatter": "ReflectorBackscatter",
        "rough_choudhury79": "ChoudhuryReflectivity", "soil_qnh": "SoilQNH", "soil_wegmuller": "SoilWegmuller",
        "transparent": "Transparent",
    },
    "microstructure_model": {
        "autocorrelation": "Autocorrelation", "exponential": "Exponential",
        "gaussian_random_field": "GaussianRandomField", "homogeneous": "Homogeneous",
        "independent_sphere": "IndependentSphere", "sampled_autocorrelation": "SampledAutocorrelation",
        "sticky_hard_spheres": "StickyHardSpheres", "teubner_strey": "TeubnerStrey",
        "unified_autocorrelation": "UnifiedAutocorrelation", "unified_scaled_exponential": "UnifiedScaledExponential",
        "unified_sticky_hard_spheres": "UnifiedStickyHardSpheres", "unified_teubner_strey": "UnifiedTeubnerStrey",
    },
    "atmosphere": {
        "simple_atmosphere": "SimpleAtmosphere", "simple_isotropic_atmosphere": "SimpleIsotropicAtmosphere",
    },
}


def check_plugin(d, mname):
    from smrt.core import plugin
    plugin.import_class.cache_clear()
    try:
        cls = plugin.import_class(d, mname)
    except Exception as e:  # noqa
        return None            # helper modules without class: a loud refusal
    mod = importlib.import_module(f"smrt.{d}.{mname}")
    need = plugin_need(d)
    own = [c for n, c in inspect.getmembers(mod, inspect.isclass) if c.__module__ == mod.__name__ and not n.startswith("_")]
    if any(need(c) for c in own) and not need(cls):
        return ("plugin:" + d, f"import_class({d!r}, {mname!r}) returns {cls.__name__}, which does not implement the {d} interface, although "
                f"{[c.__name__ for c in own if need(c)]} defined in the module do", [c.__name__ for c in own if need(c)])
    want = SHIPPED_CLASSES.get(d, {}).get(mname)
    if want is not None and cls.__name__ != want and any(c.__name__ == want for c in own):
        return ("plugin:own-class", f"import_class({d!r}, {mname!r}) returns {cls.__name__} although the module defines {want}, the class this name stands for", want)
    if cls.__module__ != mod.__name__:
        return ("plugin:foreign-class", f"import_class({d!r}, {mname!r}) returns {cls.__module__}.{cls.__name__}", "a class of the module")
    return None


def check_specializer():
    """class_specializer: a subclass that passes the bound options to __init__ and keeps __module__ and the plugin resolution"""
    from smrt.core.lib import class_specializer
    from smrt.core.plugin import import_class
    base = import_class("atmosphere", "simple_isotropic_atmosphere")
    sp = class_specializer("atmosphere", "simple_isotropic_atmosphere", tb_down=7.5)
    if not (issubclass(sp, base) and sp.__module__ == base.__module__):
        return ("specializer", f"class_specializer returns {sp} (module {sp.__module__})", "a subclass of the module's class with the same __module__")
    inst = sp(tb_up=1.5)
    if not (inst.constant_tbdown == 7.5 and inst.constant_tbup == 1.5):
        return ("specializer", f"specialised class ignores its options: tb_down={inst.constant_tbdown}, tb_up={inst.constant_tbup}", "tb_down=7.5, tb_up=1.5")
    if class_specializer("atmosphere", "simple_isotropic_atmosphere") is not base:
        return ("specializer", "class_specializer without options does not return the class itself", "the class")
    return None


def check_user_precedence():
    r = run_import("emmodel", "iba", [{"emmodel.iba": ["Older"]}, {"emmodel.iba": ["Newer"], "emmodel.extra": ["E"]}])
    if r != "cls 0 Newer":
        return ("plugin:user-precedence", f"with two registered packages providing emmodel.iba, import_class returns {r}", "the class of the most recently registered package")
    r = run_import("emmodel", "rayleigh", [{"emmodel.iba": ["Mine"]}])
    if r != "cls 1 Rayleigh":
        return ("plugin:user-precedence", f"a registered package without emmodel.rayleigh changes its resolution: {r}", "smrt's Rayleigh")
    # a user package that only provides emmodel/ (the usual case): every shipped name of the other scopes still resolves to smrt's class
    for scope, mod, cls in (("rtsolver", "dort", "DORT"), ("interface", "flat", "Flat"), ("substrate", "flat", "Flat"),
                            ("microstructure_model", "exponential", "Exponential"), ("atmosphere", "simple_isotropic_atmosphere", "SimpleIsotropicAtmosphere")):
        r = run_import(scope, mod, [{"emmodel.iba": ["Mine"]}])
        if r != f"cls 1 {cls}":
            return ("plugin:user-precedence", f"with a registered package that only has emmodel/, import_class('{scope}', '{mod}') gives {r}", f"smrt's {cls}")
    return None


def oracle(ctx, hints, effort):
    try:
        return _oracle(ctx, hints, effort)
    finally:
        cleanup()


def _oracle(ctx, hints, effort):
    C.import_smrt()
    from smrt.inputs import sensor_list as sl
    from smrt.core import sensor as cs
    from smrt.core.sensor import SensorList
    from smrt.core.error import SMRTError
    from smrt.core.globalconstants import C_SPEED
    rng = ctx.np
    findings, evals = {}, 0

    def record(r, inp):
        if callable(r):
            try:
                r = r()
            except Exception:      # an unexpected exception inside one check is a loud refusal, not a wrong value; keep searching
                r = None
        if r is not None and r[0] not in findings:
            findings[r[0]] = Finding(r[0], r[1], inp, r[1], r[2])

    # a list of sensors through the real solver (public API): channel selection must give each sensor's own value
    evals += 1
    record(lambda: replay_run_list(), {"kind": "run_list"})
    # predefined sensors (all in the search, a third otherwise plus every multi-sensor list)
    calls = sensor_calls()
    for i, (fam, label, call) in enumerate(calls):
        s = call()
        if effort == "routine" and not isinstance(s, SensorList) and i % 3 != ctx.seed % 3:
            continue
        evals += 1
        try:
            r = check_channels(label, s, rng)
        except Exception:
            r = None
        if r is not None and isinstance(s, SensorList) and r[0] in ("channel-neq-explicit", "channel-not-single"):
            r = ("concat_results:dim_name",) + tuple(r[1:])
        record(r, {"kind": "channels", "index": i, "label": label})
    for _ in range(20 if effort == "routine" else 200):
        evals += 1
        s = generic_sensor(rng)
        record(lambda: check_channels("generic", s, rng), {"kind": "none"})
    # concatenation
    for _ in range(6 if effort == "routine" else 60):
        evals += 1
        chans = [str(c) for c in rng.choice(["06V", "10H", "19V", "37V", "89H"], 2, replace=False)]
        sens = [sl.amsre(c) for c in chans]
        pieces = [stub_result(x, rng) for x in sens]
        record(lambda: check_concat(pieces, [(c, v, p) for c, v, p in zip(chans, [0, 1], pieces)], "time", [0, 1]), {"kind": "concat", "channels": chans})
        s = sl.quikscat()
        pieces = [stub_result(s, rng) for _ in range(3)]
        record(lambda: check_concat(pieces, [], "site", ["a", "b", "c"]), {"kind": "none"})
    # selections are read-only: a channel with another selector, then the channel alone
    for j, s in enumerate([sl.amsre(["19", "37"]), sl.sentinel1([20, 30, 40]) if hasattr(sl, "sentinel1") else sl.quikscat(), sl.smos(), sl.quikscat()]
                          [: (2 if effort == "routine" else 4)]):
        evals += 1
        record(lambda: check_channel_sequence(getattr(s, "name", "sensor"), s, rng), {"kind": "channel_sequence", "index": j})
    for sets, act in (([[35.], [45.]], True), ([[20., 30.], [30., 40.], [40., 50.]], True), ([[25., 40.], [40., 55.]], False)):
        evals += 1
        record(lambda: check_concat_differing(rng, sets, act), {"kind": "concat_differing", "sets": sets, "active": act})
    for angles, pick in (([20., 30., 40.], [20., 30., 40.]), ([20., 30., 40.], [20., 40.]), ([15., 25., 35., 45.], [45., 15.])):
        evals += 1
        record(lambda: check_sigma_theta_list(rng, angles, pick), {"kind": "sigma_theta_list", "angles": angles, "pick": pick})
    for angles in ([0., 35.], [25., 0., 40.], [20., 30.]):
        evals += 1
        record(lambda: check_sigma_theta_scalar(rng, angles), {"kind": "sigma_theta_scalar", "angles": angles})
    for fr in ([10.65e9, 36.5e9], [5e9, 19e9, 37e9]):
        evals += 1
        record(lambda: check_subsensor_wavelength(fr), {"kind": "subsensor_wavelength", "freqs": fr})
    for chans in (["S", "Ku"], ["Ku", "S"]):
        evals += 1
        record(lambda: check_sensorlist_order(chans), {"kind": "sensorlist_order", "channels": chans})
    # save / open
    for s in [sl.amsre("37V"), sl.quikscat(), sl.smos()][: (1 if effort == "routine" else 3)]:
        evals += 1
        record(lambda: check_saveload(stub_result(s, rng)), {"kind": "saveload", "sensor": s.name})
    # ... with string-labelled extra dimensions (named snowpacks, a string snowpack_dimension)
    for labels in (["shallow", "deep", "depth_hoar"], ["dry", "dry_coarse"]):
        evals += 1
        s = sl.amsre("37V")
        record(lambda: check_saveload(stub_result(s, rng, (("snowpack", labels),))), {"kind": "saveload", "sensor": s.name, "labels": labels})
    # custom frequency names
    for fname in ("amsre", "amsr2", "cimr"):
        # (the shipped channel names themselves mix truncation - 06 for 6.925 GHz - and rounding - 19 for 18.7 GHz: both are "the GHz value")
        for fr in ([[10e9], [6.925e9, 7.3e9, 10.65e9]] if effort == "routine" else [[6.925e9, 7.3e9, 10.65e9]] + CUSTOM_FREQS):
            evals += 1
            record(lambda: check_custom(fname, fr), {"kind": "custom", "ctor": fname, "frequency": fr})
    # sensors
    for f in [1.4e9, 36.5e9, float(10 ** rng.uniform(8.5, 11.5))]:
        evals += 1
        s = cs.Sensor(frequency=f, theta_deg=10.0)
        if not math.isclose(s.frequency * s.wavelength, C_SPEED, rel_tol=1e-12):
            record(("sensor:wavelength", f"frequency x wavelength = {s.frequency * s.wavelength} for f = {f}", C_SPEED), {"kind": "none"})
        s = cs.Sensor(wavelength=C_SPEED / f, theta_deg=10.0)
        if not math.isclose(s.frequency * s.wavelength, C_SPEED, rel_tol=1e-12):
            record(("sensor:wavelength", f"frequency x wavelength = {s.frequency * s.wavelength} for wavelength = {C_SPEED / f}", C_SPEED), {"kind": "none"})
    for th, act in [([40, 40], False), ([10, 20, 10.0], True)]:
        evals += 1
        try:
            (cs.active(13e9, th) if act else cs.passive(37e9, th))
            record(("sensor:duplicate-angles", f"{'active' if act else 'passive'} sensor accepted theta = {th}", "SMRTError"), {"kind": "none"})
        except SMRTError:
            pass
    # plugins
    mods, _ = plugin_table()
    for d, mname, classes in mods:
        if classes and importable(d, mname):
            evals += 1
            record(lambda: check_plugin(d, mname), {"kind": "plugin", "dir": d, "module": mname})
    evals += 2
    record(check_user_precedence, {"kind": "user_precedence"})
    record(check_specializer, {"kind": "specializer"})
    return list(findings.values()), evals


def replay_run_list(m=None, sp=None):
    from smrt.inputs import sensor_list as sl
    from smrt.core.sensor import SensorList
    m = m or dort_model(); sp = sp or small_snowpack()
    a, b = sl.amsre("37V"), sl.amsre("19V")
    res = m.run(SensorList([a, b]), sp)
    for s, ch in ((a, "37V"), (b, "19V")):
        want = m.run(s, sp).Tb(channel=ch)
        got = res.Tb(channel=ch)
        if not isinstance(got, float) or not math.isclose(got, want, rel_tol=1e-9):
            return ("concat_results:dim_name", f"Model.run(SensorList([amsre('37V'), amsre('19V')]), snowpack).Tb(channel={ch!r}) = "
                    f"{got if isinstance(got, float) else list(np.asarray(got).ravel())} instead of the single value {want}; "
                    f"channel_map[{ch!r}] = {res.channel_map[ch]}", want)
    return None


def replay(inp, rp=None):
    try:
        return _replay(inp, rp)
    finally:
        cleanup()


def _replay(inp, rp=None):
    C.import_smrt()
    from smrt.inputs import sensor_list as sl
    rng = np.random.default_rng(0)
    k = inp.get("kind")
    r = None
    if k == "channels":
        fam, label, call = sensor_calls()[inp["index"]]
        r = check_channels(label, call(), rng)
    elif k == "run_list":
        r = replay_run_list()
    elif k == "concat":
        sens = [sl.amsre(c) for c in inp["channels"]]
        pieces = [stub_result(x, rng) for x in sens]
        r = check_concat(pieces, [(c, v, p) for c, v, p in zip(inp["channels"], [0, 1], pieces)], "time", [0, 1])
    elif k == "saveload":
        extra = (("snowpack", inp["labels"]),) if inp.get("labels") else ()
        r = check_saveload(stub_result(sl.amsre("37V"), rng, extra))
    elif k == "channel_sequence":
        s = [sl.amsre(["19", "37"]), sl.sentinel1([20, 30, 40]) if hasattr(sl, "sentinel1") else sl.quikscat(), sl.smos(), sl.quikscat()][inp["index"]]
        r = check_channel_sequence(getattr(s, "name", "sensor"), s, rng)
    elif k == "concat_differing":
        r = check_concat_differing(rng, inp["sets"], inp["active"])
    elif k == "sigma_theta_list":
        r = check_sigma_theta_list(rng, inp["angles"], inp["pick"])
    elif k == "sigma_theta_scalar":
        r = check_sigma_theta_scalar(rng, inp["angles"])
    elif k == "subsensor_wavelength":
        r = check_subsensor_wavelength(inp["freqs"])
    elif k == "sensorlist_order":
        r = check_sensorlist_order(inp["channels"])
    elif k == "custom":
        r = check_custom(inp["ctor"], inp["frequency"])
    elif k == "plugin":
        r = check_plugin(inp["dir"], inp["module"])
    elif k == "user_precedence":
        r = check_user_precedence()
    elif k == "specializer":
        r = check_specializer()
    return Finding(r[0], r[1], inp, r[1], r[2]) if r else None
