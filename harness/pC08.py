"""C08 — numerical options change cost, not physics; failures are reported, not hidden."""
import json, math
import numpy as np
import common as C
from common import Corr, Tol, Finding, f2t, fs
import dortlib, scenes
import pC01

PROP = "C08"
DRIVER = "C08"
LEAN_TARGETS = ["SmrtVerif.Props.C08", "SmrtVerif.Driver.C08"]
TRUSTED = pC01.TRUSTED + ["fault injection wraps EigenValueSolver.solve from the harness (no source hook)",
                          "np.allclose(x, 0, atol=a) is `all |x| <= a` (NaN/inf fail it)"]
ASSUMPTIONS = ["the analytic bounds (pruning 5*contrast*exp(-tau) with scattering, stream doubling 200 K/n) and the agreement of the three "
               "diagonalisation methods are evaluated by the oracle on real runs only (no theorem, DESIGN §6)",
               "'scene temperature contrast' is read as the spread of the source temperatures together with 0 K (the pruned half-space), see DESIGN §4 C08"]
RULE = ("every fault site (layer, azimuth mode, total/coherent pass) of stacks of 1..3 layers, passive and active (m_max 0..2), both error_handling "
        "values; validate_eigen on synthetic eigen-decompositions around its thresholds (incl. NaN/inf); pruning depth and the pruned boundary "
        "system; the 30 % normalisation guard; distinct = distinct driver line")
TOL = Tol(1e-9, 1e-10, scale="line")


# ---------------------------------------------------------------------------------------------
# fault injection

class Faulty:
    """context manager: EigenValueSolver.solve raises SMRTError at (layer, m, coherent_only); or, with lapack=(fn, k), the k-th call
    of scipy.linalg.<fn> (eig | schur) made by the run raises LinAlgError - `hit` then holds the (layer, m, coherent_only) being solved"""
    def __init__(self, site, lapack=None):
        self.site, self.lapack, self.hit, self.calls = site, lapack, None, {"eig": 0, "schur": 0}

    def __enter__(self):
        from smrt.rtsolver import dort as D
        from smrt.core.error import SMRTError
        import scipy.linalg
        self.D, self.sl = D, scipy.linalg
        self.orig_init, self.orig_solve = D.EigenValueSolver.__init__, D.EigenValueSolver.solve
        self.orig_fn = {"eig": scipy.linalg.eig, "schur": scipy.linalg.schur}
        counter = {"n": 0}
        site, me = self.site, self
        orig_init, orig_solve = self.orig_init, self.orig_solve
        current = {"site": None}

        def init(this, *a, **k):
            this._verif_layer = counter["n"]; counter["n"] += 1
            orig_init(this, *a, **k)

        def solve(this, m, compute_coherent_only, debug_A=False):
            current["site"] = (this._verif_layer, m, bool(compute_coherent_only))
            out = orig_solve(this, m, compute_coherent_only, debug_A)
            if site is not None and (this._verif_layer, m, bool(compute_coherent_only)) == tuple(site):
                # fail where the real solver fails: at the end (validate_eigen), after the normalisation state has been set
                raise SMRTError("injected eigen-solver failure")
            return out

        def wrap(name):
            orig = self.orig_fn[name]
            def f(*a, **k):
                n = me.calls[name]; me.calls[name] += 1
                if me.lapack is not None and me.lapack[0] == name and me.lapack[1] == n:
                    me.hit = current["site"]
                    raise scipy.linalg.LinAlgError("injected LAPACK failure")
                return orig(*a, **k)
            return f
        D.EigenValueSolver.__init__, D.EigenValueSolver.solve = init, solve
        scipy.linalg.eig, scipy.linalg.schur = wrap("eig"), wrap("schur")
        return self

    def __exit__(self, *a):
        self.D.EigenValueSolver.__init__, self.D.EigenValueSolver.solve = self.orig_init, self.orig_solve
        self.sl.eig, self.sl.schur = self.orig_fn["eig"], self.orig_fn["schur"]


def run_scene(sc, active, handling, mmax, site, method="eig", extra=None, lapack=None, info=None):
    from smrt import make_model, sensor_list
    from smrt.core.error import SMRTError
    sp, atm = scenes.build(sc)
    opts = dict(n_max_stream=sc["nmax"], m_max=mmax, error_handling=handling, diagonalization_method=method)
    opts.update(sc.get("solver_extra") or {})
    opts.update(extra or {})
    m = make_model(sc["emmodel"], "dort", rtsolver_options=opts)
    sensor = sensor_list.active(sc["frequency"], [25., 40.]) if active else sensor_list.passive(sc["frequency"], [25., 40.])
    with Faulty(site, lapack) as f:
        try:
            return m.run(sensor, sp)
        except SMRTError:
            return "raised"
        except Exception as e:  # noqa
            return "foreign:" + type(e).__name__
        finally:
            if info is not None:
                info["hit"], info["calls"] = f.hit, dict(f.calls)


def classify(res, active):
    v = np.asarray(res.data.values)
    def cls(a):
        n = np.isnan(a)
        return "1" if n.all() else ("0" if not n.any() else "mixed")
    if not active:
        c = cls(v)
        return f"values {c} {c} {c} {c}"
    return "values %s %s %s %s" % (cls(v[:, 0:2, 0:2]), cls(v[:, 0:2, 2]), cls(v[:, 2, 0:2]), cls(v[:, 2, 2]))


def fault_cases(rng, n):
    out = []
    for _ in range(n):
        active = bool(rng.random() < 0.6)
        sc = scenes.random_scene(rng, lossless=False, microstructure="exponential", max_layers=3, atmosphere=False, active=active)
        sc["emmodel"], sc["nmax"] = "iba", 8
        mmax = int(rng.choice([0, 1, 2, 2, 3, 4])) if active else 0
        # the solver options of the property's quantifier that do not change the flow: they ride along with the scene
        sc["solver_extra"] = {"phase_normalization": bool(rng.random() < 0.6)}
        out.append((sc, active, mmax))
    return out


def as_given(tau):
    """the pruning threshold as a user writes it: whole numbers as Python ints (prune_deep_snowpack=8), the others as floats"""
    tau = float(tau)
    return int(tau) if tau.is_integer() else tau


def pick_sites(rng, sites, limit=14):
    """every fault site when there are few; otherwise the first and last plus a random subset that keeps high azimuth modes"""
    if len(sites) <= limit:
        return sites
    keep = {0, len(sites) - 1} | {int(k) for k in rng.choice(len(sites), limit - 2, replace=False)}
    return [sites[k] for k in sorted(keep)]


def correspond(ctx):
    from smrt.rtsolver import dort as D
    from smrt.core.error import SMRTError
    co = Corr(PROP, DRIVER)
    rng = ctx.np
    # (a) every fault site
    for sc, active, mmax in fault_cases(rng, ctx.n(5, 30)):
        L = len(sc["thickness"])
        normal = run_scene(sc, active, "exception", mmax, None)
        if isinstance(normal, str):
            continue
        sites = [None] + [(l, m, coh) for l in range(L) for m in range(mmax + 1) for coh in ([False, True] if active else [False])]
        if not active:
            sites.append((0, 1, False))        # a mode the passive solver never computes
        sites = [None] + pick_sites(rng, sites[1:])
        for site in sites:
            for handling in ("nan", "exception"):
                res = run_scene(sc, active, handling, mmax, site)
                if isinstance(res, str):
                    impl = res
                else:
                    same = (res.data.shape == normal.data.shape and
                            all(list(res.data.coords[d].values) == list(normal.data.coords[d].values) for d in normal.data.dims))
                    impl = classify(res, active) if same else "shape-or-coords-differ"
                l, m, coh = site if site is not None else (99, 0, False)
                co.add("dort.faults", f"flow {int(active)} {mmax} {L} {handling} {l} {m} {int(coh)}", impl, C.EXACT,
                       desc={"scene": sc, "active": active, "m_max": mmax, "site": site, "handling": handling})
                co.note(("active" if active else "passive") + " " + handling + (" no-fault" if site is None else ""))
    # (a') the same flow when the failure is a LAPACK non-convergence (LinAlgError) inside either stage of any diagonalisation method
    for sc, active, mmax in fault_cases(rng, ctx.n(3, 12)):
        L = len(sc["thickness"])
        for method in ("eig", "shur", "shur_forcedtriu"):
            info = {}
            normal = run_scene(sc, active, "exception", mmax, None, method, info=info)
            if isinstance(normal, str):
                continue
            for fn in ("eig", "schur"):
                ks = list(range(info["calls"][fn]))
                if len(ks) > 6:
                    ks = sorted({0, len(ks) - 1} | {int(k) for k in rng.choice(ks, 4, replace=False)})
                for k in ks:
                    for handling in ("nan", "exception"):
                        inf2 = {}
                        res = run_scene(sc, active, handling, mmax, None, method, lapack=(fn, k), info=inf2)
                        if inf2["hit"] is None:
                            continue
                        if isinstance(res, str):
                            impl = res
                        else:
                            same = (res.data.shape == normal.data.shape and
                                    all(list(res.data.coords[d].values) == list(normal.data.coords[d].values) for d in normal.data.dims))
                            impl = classify(res, active) if same else "shape-or-coords-differ"
                        l, m, coh = inf2["hit"]
                        co.add("dort.lapack-faults", f"flow {int(active)} {mmax} {L} {handling} {l} {m} {int(coh)}", impl, C.EXACT,
                               desc={"scene": sc, "active": active, "m_max": mmax, "method": method, "lapack": [fn, k], "site": [l, m, coh],
                                     "handling": handling})
                        co.note(f"lapack fault in {method}/{fn}")
    # (b) validate_eigen decision logic
    ev = D.EigenValueSolver(None, 0.1, None, np.array([0.9, 0.5, 0.2]), np.array([0.3, 0.3, 0.4]), 0, True, "eig")
    for _ in range(ctx.n(150, 1500)):
        n = int(rng.integers(2, 7))
        beta = rng.uniform(-5, 5, n).astype(complex)
        E = rng.uniform(-1, 1, (n, n)).astype(complex)
        kind = int(rng.integers(0, 7))
        mx = float(beta.real.max())
        if kind == 1:
            beta[int(rng.integers(0, n))] += 1j * mx * 1e-7 * float(rng.choice([0.5, 0.99, 1.01, 2.0, -1.5]))
        elif kind == 2:
            E[int(rng.integers(0, n)), int(rng.integers(0, n))] += 1j * 1e-6 * float(rng.choice([0.5, 0.99, 1.01, 3.0, -2.0]))
        elif kind == 3:
            beta[int(rng.integers(0, n))] = complex(float("nan"), 0.0) if rng.random() < 0.5 else complex(1.0, float("nan"))
        elif kind == 4:
            E[0, 0] = complex(0.0, float("nan")) if rng.random() < 0.5 else complex(0.0, float("inf"))
        elif kind == 5:
            beta = -np.abs(beta)        # max(beta.real) < 0: a negative tolerance
            beta[0] += 1j * 1e-12
        mx = float(np.max(beta.real))
        try:
            import io, contextlib
            with contextlib.redirect_stdout(io.StringIO()):
                ev.validate_eigen(beta.copy(), E.copy(), 0)
            impl = "accept"
        except SMRTError:
            impl = "reject"
        except Exception as e:  # noqa
            impl = "foreign:" + type(e).__name__
        co.add("dort.validate", f"validate {f2t(mx)} {n} {fs(np.abs(beta.imag))} {fs(np.abs(E.imag))}", impl, C.EXACT,
               desc={"kind": kind})
        co.note(f"validate kind {kind} -> {impl}")
    # (c) pruning: depth kept and the pruned boundary system; (d) the 30 % guard
    from smrt import sensor_list
    made = 0
    while made < ctx.n(10, 60):
        em, ms = pC01.EMMODELS[int(rng.integers(0, 2))]
        if made % 2 == 0:
            sc = scenes.random_scene(rng, lossless=False, microstructure=ms, max_layers=5, atmosphere=False, thick=(0.2, 20.0))
            tau = as_given(rng.choice([0.5, 1, 2, 4, 6, 10]))
        else:
            # many thin, strongly scattering layers (albedo ~ 0.9): the slowest eigenvalue is well below the extinction, and the layer at
            # which the cumulated depth crosses tau is sensitive to which of the two is accumulated
            em, ms = "iba", "exponential"
            sc = scenes.random_scene(rng, nlayer=int(rng.integers(7, 11)), lossless=False, microstructure=ms, atmosphere=False, thick=(0.2, 0.8),
                                     frequency=float(rng.choice([37e9, 89e9])))
            k = len(sc["thickness"])
            sc["micro"]["corr_length"] = [round(float(v), 7) for v in rng.uniform(2.0e-4, 4.0e-4, k)]
            sc["density"] = [round(float(v), 1) for v in rng.uniform(200, 350, k)]
            tau = as_given(rng.choice([2, 4, 6, 8]))
        sc["emmodel"], sc["nmax"] = em, int(rng.integers(8, 11))
        sp, atm = scenes.build(sc)
        try:
            s = dortlib.prepare_solver(sp, em, sensor_list.passive(sc["frequency"], 40.), n_max_stream=sc["nmax"], prune_deep_snowpack=tau)
            c = dortlib.extract_case(s, 0)
        except AssertionError:
            continue
        made += 1
        od = [float(np.min(np.abs(l["beta"])) * l["d"]) for l in c.layers]
        co.add("dort.prune.depth", f"kept {f2t(float(tau))} {fs(od)}", str(c.L), C.EXACT, desc={"scene": sc, "tau": tau})
        co.note("pruned" if c.pruned else "not pruned")
        amp = float(np.abs(c.x).max()) * max(float(np.abs(l["Eu"]).max()) for l in c.layers)
        parts = "Abe" if amp < 1e5 else "Ab"
        co.add("dort.prune.system", dortlib.case_line(c).replace("dort Abe ", f"dort {parts} ", 1), dortlib.case_impl_line(c, parts), TOL,
               desc={"scene": sc, "tau": tau})
    for _ in range(ctx.n(12, 80)):
        # grains from small to far too large: the normalisation factor crosses 0.7 / 1.3
        sc = scenes.random_scene(rng, nlayer=1, lossless=False, microstructure="exponential", atmosphere=False, frequency=float(rng.choice([37e9, 89e9])))
        sc["micro"]["corr_length"] = [float(np.exp(rng.uniform(np.log(5e-5), np.log(3e-3))))]
        sc["emmodel"], sc["nmax"] = "iba", 8
        sp, atm = scenes.build(sc)
        try:
            s = dortlib.prepare_solver(sp, "iba", sensor_list.passive(sc["frequency"], 40.), n_max_stream=8)
            streams = D.compute_stream(8, s.effective_permittivity, None)
        except AssertionError:
            continue
        e = D.EigenValueSolver(s.emmodels[0].ke, s.emmodels[0].ks, s.emmodels[0].ft_even_phase, streams.mu[0], streams.weight[0], 0, True, "eig")
        mu = np.concatenate((e.mu, -e.mu))
        P = e.ft_even_phase.compress(mode=0, auto_reduce_npol=True)
        ke = np.asarray(e.ke(mu, npol=2).compress().diagonal(), dtype=float)
        line = f"buildA 2 {len(e.mu)} 1 1 {fs(e.mu)} {fs(e.weight)} {fs(P)} {fs(ke)} {f2t(float(e.ks))}"
        try:
            import io, contextlib
            with contextlib.redirect_stdout(io.StringIO()):
                e.solve(0, False, debug_A=True)
            impl = "in"
        except SMRTError:
            impl = "out"
        co.add("dort.threshold", line, impl, C.EXACT, desc=sc, post=lambda mo: mo.split()[0])
        co.note("normalisation guard: " + impl)
    return co


# ---------------------------------------------------------------------------------------------

def check_faults(sc, active, mmax):
    L = len(sc["thickness"])
    normal = run_scene(sc, active, "exception", mmax, None)
    if isinstance(normal, str):
        return None
    allsites = [(l, m, coh) for l in range(L) for m in range(mmax + 1) for coh in ([False, True] if active else [False])]
    for (l, m, coh) in pick_sites(np.random.default_rng(L * 100 + mmax), allsites):
        if True:
            if True:
                r = run_scene(sc, active, "exception", mmax, (l, m, coh))
                if r != "raised":
                    return ("fault:exception", (l, m, coh), "raised SMRTError", r if isinstance(r, str) else "returned a result")
                r = run_scene(sc, active, "nan", mmax, (l, m, coh))
                if isinstance(r, str):
                    return ("fault:nan-raises", (l, m, coh), "a NaN-filled result", r)
                v = np.asarray(r.data.values)
                if v.shape != np.asarray(normal.data.values).shape:
                    return ("fault:nan-shape", (l, m, coh), "normal shape", str(v.shape))
                if not np.isnan(v).all():
                    fin = v[np.isfinite(v)]
                    return ("fault:nan-finite" + (":mode0-U" if (active and m == 0) else ""), (l, m, coh), "every entry NaN",
                            f"{fin.size} finite entries, e.g. {fin[:3].tolist()}")
    return None


def check_one_fault(d):
    """one fault (an injected SMRTError at a site, or a LinAlgError in the k-th LAPACK call): 'exception' must raise SMRTError, 'nan' must
    give the normal shape filled with NaN.  returns None or (key, what, required, observed)"""
    sc, active, mmax, handling = d["scene"], d["active"], d["m_max"], d["handling"]
    method = d.get("method", "eig")
    lap = tuple(d["lapack"]) if d.get("lapack") else None
    site = None if lap else tuple(d["site"])
    normal = run_scene(sc, active, "exception", mmax, None, method)
    if isinstance(normal, str):
        return None
    info = {}
    r = run_scene(sc, active, handling, mmax, site, method, lapack=lap, info=info)
    if lap and info.get("hit") is None:
        return None
    where = f"{method}/{lap[0]} call {lap[1]} (layer, mode, coherent)={info.get('hit')}" if lap else f"(layer, mode, coherent)={site}"
    tag = (":lapack:" + method + "/" + lap[0]) if lap else ""
    if handling == "exception":
        if r != "raised":
            return ("fault:exception" + tag, f"solver failure at {where} with error_handling='exception'", "raises SMRTError",
                    r if isinstance(r, str) else "returned a result")
        return None
    if isinstance(r, str):
        return ("fault:nan-raises" + tag, f"solver failure at {where} with error_handling='nan'", "a NaN-filled result", r)
    v = np.asarray(r.data.values)
    if v.shape != np.asarray(normal.data.values).shape:
        return ("fault:nan-shape" + tag, f"solver failure at {where}", "normal shape", str(v.shape))
    if not np.isnan(v).all():
        fin = v[np.isfinite(v)]
        m = (info.get("hit") or site)[1]
        return ("fault:nan-finite" + (":mode0-U" if (active and m == 0) else "") + tag, f"solver failure at {where}", "every entry NaN",
                f"{fin.size} finite entries, e.g. {fin[:3].tolist()}")
    return None


def check_methods(sc, active):
    a = run_scene(sc, active, "exception", 2, None, "eig")
    b = run_scene(sc, active, "exception", 2, None, "shur")
    if isinstance(a, str) or isinstance(b, str):
        return None
    if active:
        da = np.asarray([a.sigmaVV_dB(), a.sigmaHH_dB()]).ravel(); db = np.asarray([b.sigmaVV_dB(), b.sigmaHH_dB()]).ravel()
        dev = float(np.abs(da - db).max())
        return ("methods:active", dev, "<= 1e-6 dB") if not dev <= 1e-6 else None
    c = run_scene(sc, active, "exception", 2, None, "shur_forcedtriu")
    va, vb = np.asarray(a.data.values), np.asarray(b.data.values)
    dev = float(np.abs(va - vb).max())
    if not isinstance(c, str):
        dev = max(dev, float(np.abs(va - np.asarray(c.data.values)).max()))
    return ("methods:passive", dev, "<= 1e-9 K") if not dev <= 1e-9 else None


def check_prune(sc, tau):
    a = run_scene(sc, False, "exception", 0, None)
    b = run_scene(sc, False, "exception", 0, None, extra=dict(prune_deep_snowpack=tau))
    if isinstance(a, str) or isinstance(b, str):
        return None
    Ts = list(sc["temperature"]) + ([sc["substrate"]["T"]] if sc.get("substrate") else []) + [0.0]
    contrast = max(Ts) - min(Ts)
    dev = float(np.abs(np.asarray(a.data.values) - np.asarray(b.data.values)).max())
    lim = 5 * contrast * math.exp(-tau)
    return ("prune", dev, f"<= {lim:.4g} K (5 x contrast x exp(-{tau}))") if dev > lim + 1e-9 else None


def check_streams(sc):
    prev = None
    for n in (16, 32, 64):
        d = json.loads(json.dumps(sc)); d["nmax"] = n
        r = run_scene(d, False, "exception", 0, None)
        if isinstance(r, str):
            return None
        v = np.asarray(r.data.values)
        if prev is not None:
            dev = float(np.abs(v - prev[1]).max())
            if dev >= 200.0 / prev[0]:
                return ("streams", dev, f"< {200.0 / prev[0]} K when doubling {prev[0]} streams")
        prev = (n, v)
    return None


def oracle(ctx, hints, effort):
    rng = ctx.np
    findings, evals = {}, 0
    def add(key, what, inp, obs, req):
        findings.setdefault(key, Finding(key, what, inp, obs, req))
    # disagreeing fault cases of the correspondence: decide the property itself on them
    for h in hints[:200]:
        d = h.get("desc")
        if h.get("slice") in ("dort.faults", "dort.lapack-faults") and isinstance(d, dict) and d.get("site") is not None:
            evals += 1
            r = check_one_fault(d)
            if r:
                add(r[0], r[1], dict(d, kind="one-fault"), r[3], r[2])
    for h in hints[:60]:
        d = h.get("desc")
        if h.get("slice") == "dort.prune.depth" and isinstance(d, dict) and "scene" in d:
            for tau in sorted({float(d["tau"]), 6.0, 8.0}):
                deep = json.loads(json.dumps(d["scene"]))
                for mult in (1, 3, 10):
                    evals += 1
                    dd = dict(deep, thickness=[t * mult for t in deep["thickness"]])
                    try:
                        r = check_prune(dd, tau)
                    except Exception:  # noqa
                        r = None
                    if r:
                        add(r[0], "pruning changes Tb more than the bound", {"kind": "prune", "scene": dd, "tau": tau}, r[1], r[2])
    # LAPACK-level failures in every method (one scene in the routine tier)
    for sc, active, mmax in fault_cases(rng, 1 if effort == "routine" else 6):
        for method in ("eig", "shur", "shur_forcedtriu"):
            info = {}
            if isinstance(run_scene(sc, active, "exception", mmax, None, method, info=info), str):
                continue
            for fn in ("eig", "schur"):
                n = info["calls"][fn]
                for k in sorted({0, n - 1, n // 2}) if n else []:
                    for handling in ("nan", "exception"):
                        evals += 1
                        d = {"scene": sc, "active": active, "m_max": mmax, "method": method, "lapack": [fn, k], "handling": handling, "site": "lapack"}
                        r = check_one_fault(d)
                        if r:
                            add(r[0], r[1], dict(d, kind="one-fault"), r[3], r[2])
    for sc, active, mmax in fault_cases(rng, 2 if effort == "routine" else 12):
        evals += 1
        r = check_faults(sc, active, mmax)
        if r:
            add(r[0], f"eigen-solver failure at (layer, mode, coherent)={r[1]}: expected {r[2]}, got {r[3]}",
                {"kind": "faults", "scene": sc, "active": active, "m_max": mmax}, r[3], r[2])
    # a pack far deeper than any threshold, pruned at integer thresholds above the recommended 6 (given as Python ints, as users write them)
    # (fine grains: the field decays by absorption, so what lies between optical depth 6 and 15 still contributes a few hundredths of a kelvin)
    for tau_ in (15, 12):
        deep_ = dict(thickness=[10.0, 20.0, 30.0, 40.0], density=[250.0, 300.0, 350.0, 400.0], temperature=[250.0, 225.0, 260.0, 235.0],
                     microstructure="exponential", frequency=37e9, micro=dict(corr_length=[3e-5] * 4),
                     substrate=dict(kind="flat", T=270.0, eps=[6.0, 0.5]), emmodel="iba", nmax=16)
        try:
            evals += 2
            r = check_prune(deep_, tau_)
        except AssertionError:
            r = None
        if r:
            add(r[0], "pruning changes Tb more than the bound", {"kind": "prune", "scene": deep_, "tau": tau_}, r[1], r[2])
    # light and dense layers alternating, so that whichever layer the threshold is reached in, the layer below it has another number of
    # streams (the pruned system ends with the bottom boundary of the last layer kept, sized by that layer's own streams)
    for tau_ in (6, 9, 12):
        alt_ = dict(thickness=[3.0] * 8, density=[200.0, 450.0] * 4, temperature=[250.0, 225.0, 260.0, 235.0] * 2,
                    microstructure="exponential", frequency=37e9, micro=dict(corr_length=[5e-5] * 8),
                    substrate=dict(kind="flat", T=270.0, eps=[6.0, 0.5]), emmodel="iba", nmax=16)
        try:
            evals += 2
            r = check_prune(alt_, tau_)
        except AssertionError:
            r = None
        except Exception as e:  # noqa
            from smrt.core.error import SMRTError
            if isinstance(e, SMRTError):
                r = None
            else:
                r = ("prune", f"{type(e).__name__}: {str(e)[:120]}", "the pruned system is solved as the full one is")
        if r:
            add(r[0], "pruning changes Tb more than the bound", {"kind": "prune", "scene": alt_, "tau": tau_}, r[1], r[2])
    for it in range(-2, 3 if effort == "routine" else 30):
        active = it % 3 == 2
        sc = scenes.random_scene(rng, lossless=False, microstructure="exponential", max_layers=4, atmosphere=False, active=active, thick=(0.05, 5.0))
        sc["emmodel"], sc["nmax"] = "iba", int(rng.choice([16, 32]))
        if it < 0:
            # weak scattering at L band on an ordinary deep pack: the couplings between streams are tiny (1e-11 .. 1e-3 1/m) but not zero
            active = False
            sc = scenes.random_scene(rng, nlayer=4 + it, lossless=False, microstructure="sticky_hard_spheres", atmosphere=False, substrate="flat",
                                     frequency=1.4e9, thick=(0.2, 3.0))
            sc["emmodel"], sc["nmax"] = "iba", [16, 32][it]
        try:
            evals += 1
            r = check_methods(sc, active)
            if r:
                add(r[0], "diagonalisation methods disagree", {"kind": "methods", "scene": sc, "active": active}, r[1], r[2])
            if not active:
                tau = as_given(rng.choice([6, 8, 10, 15]))
                deep = json.loads(json.dumps(sc)); deep["thickness"] = [t * 10 for t in deep["thickness"]]
                evals += 1
                r = check_prune(deep, tau)
                if r:
                    add(r[0], "pruning changes Tb more than the bound", {"kind": "prune", "scene": deep, "tau": tau}, r[1], r[2])
                evals += 1
                r = check_streams(sc)
                if r:
                    add(r[0], "stream refinement does not converge linearly", {"kind": "streams", "scene": sc}, r[1], r[2])
        except AssertionError:
            continue
    return list(findings.values()), evals


def replay(inp, rp=None):
    k = inp["kind"]
    if k == "faults":
        r = check_faults(inp["scene"], inp["active"], inp["m_max"])
        return Finding("?", str(r), inp, r[3], r[2]) if r else None
    if k == "one-fault":
        r = check_one_fault(inp)
        return Finding("?", r[1], inp, r[3], r[2]) if r else None
    if k == "methods":
        r = check_methods(inp["scene"], inp["active"])
    elif k == "prune":
        r = check_prune(inp["scene"], inp["tau"])
    else:
        r = check_streams(inp["scene"])
    return Finding("?", r[0], inp, r[1], r[2]) if r else None
