"""C03 — brightness temperature is a convex combination of the source temperatures."""
import json
import numpy as np
import common as C
from common import Corr, Tol, Finding, f2t, fs
import dortlib, scenes
import pC01

PROP = "C03"
DRIVER = "Dort"
LEAN_TARGETS = ["SmrtVerif.Props.C03", "SmrtVerif.Driver.Dort"]
TRUSTED = pC01.TRUSTED + ["np.interp (clamped linear interpolation) for the angle-dependent atmosphere"]
ASSUMPTIONS = ["material permittivities are temperature-independent in the scenes (the property's premise): constant ice and substrate permittivity",
               "non-negativity of the weights in scattering media is evaluated by the oracle on real runs only (no theorem, DESIGN §6)"]
RULE = ("random stacks of 1..5 layers with random temperature profiles in [0,300] K (including 0 K layers), every specular substrate or none, "
        "isotropic and angle-dependent prescribed atmospheres; slices: right-hand side + emerging intensity of the assembled system, "
        "atmosphere arrays and composition; distinct = distinct driver line")
TOL = Tol(1e-9, 1e-10, scale="line")


def const_scene(rng, em, ms, atmosphere=True):
    sc = scenes.random_scene(rng, lossless=False, microstructure=ms, atmosphere=atmosphere, max_layers=5)
    sc["ice_permittivity"] = [3.18, round(float(rng.uniform(2e-4, 5e-3)), 6)]     # constant, lossy
    sc["temperature"] = [float(t) for t in rng.uniform(0, 300, len(sc["thickness"])).round(2)]
    if rng.random() < 0.2:
        sc["temperature"][int(rng.integers(0, len(sc["temperature"])))] = 0.0       # exercises the `temperature > 0` guard
    if sc.get("substrate"):
        sc["substrate"]["T"] = round(float(rng.uniform(0.5, 300)), 2)
    sc["emmodel"], sc["nmax"] = em, int(rng.integers(8, 13))
    return sc


def simple_atm(rng):
    n = int(rng.integers(2, 7))
    theta = sorted({0.0, 89.9} | {round(float(t), 2) for t in rng.uniform(1, 89, n)})
    k = len(theta)
    return dict(theta=theta, tb_down=[round(float(v), 2) for v in rng.uniform(2, 80, k)],
                tb_up=[round(float(v), 2) for v in rng.uniform(1, 60, k)], trans=[round(float(v), 3) for v in rng.uniform(0.6, 1.0, k)])


def correspond(ctx):
    from smrt import sensor_list
    from smrt.inputs.make_medium import make_atmosphere
    co = Corr(PROP, DRIVER)
    rng = ctx.np
    made = 0
    while made < ctx.n(30, 200):
        em, ms = pC01.EMMODELS[int(rng.integers(0, len(pC01.EMMODELS)))]
        sc = const_scene(rng, em, ms, atmosphere=bool(rng.random() < 0.5))
        try:
            c, s = pC01.extract(sc)
        except (AssertionError, Warning):      # a scene refused by a validity guard is not an input of the property
            continue
        made += 1
        amp = float(np.abs(c.x).max()) * max(float(np.abs(l["Eu"]).max()) for l in c.layers)
        parts = "be" if amp < 1e5 else "b"
        co.note(f"layers={len(c.layers)}"); co.note("with atmosphere" if sc.get("atmosphere") else "no atmosphere")
        co.note("has 0 K layer" if 0.0 in sc["temperature"] else "all layers warm")
        co.add("dort.rhs+emerging", dortlib.case_line(c).replace("dort Abe ", f"dort {parts} ", 1), dortlib.case_impl_line(c, parts), TOL, desc=sc)
    # angle-dependent atmosphere: arrays handed to the solver, and the composition with a surface intensity
    for _ in range(ctx.n(60, 600)):
        a = simple_atm(rng)
        atm = make_atmosphere("simple_atmosphere", theta=a["theta"], tb_down=a["tb_down"], tb_up=a["tb_up"], transmittance=a["trans"])
        npol = int(rng.choice([2, 3]))
        k = int(rng.integers(3, 12))
        # the same atmosphere object serves several stream sets of the same size in turn (a time series of snowpacks)
        for rep in range(2):
            ct = np.sort(rng.uniform(0.0, 1.0, k))[::-1].copy()
            res = atm.run(37e9, ct, npol)
            I = rng.uniform(100, 270, k * npol)
            out = res.tb_up + res.transmittance * I
            n = len(atm.costheta)
            line = f"atm_simple {npol} {n} {k} {fs(atm.costheta)} {fs(atm.tbdown)} {fs(atm.tbup)} {fs(atm.trans)} {fs(ct)} {fs(I)}"
            co.add("atmosphere.simple", line, fs(res.tb_down) + " | " + fs(out), Tol(1e-12), desc=dict(a, use=rep))
    # isotropic atmosphere through the real solver: final Tb = tb_up + trans * (surface intensity with tb_down incident)
    for _ in range(ctx.n(8, 60)):
        sc = const_scene(rng, "iba", "exponential", atmosphere=True)
        try:
            c, s = pC01.extract(sc)
        except (AssertionError, Warning):      # a scene refused by a validity guard is not an input of the property
            continue
        a = sc["atmosphere"]
        outmu, tb = s.dort(m_max=0)
        want = a["tb_up"] + a["trans"] * c.emerging[:, 0]
        ok = np.allclose(tb, want, rtol=1e-12, atol=1e-9) and np.allclose(c.idown[:, 0], a["tb_down"])
        co.add("atmosphere.isotropic", "atm_simple 2 2 1 " + fs([0.0, 1.0]) + " " + fs([a["tb_down"]] * 2) + " " + fs([a["tb_up"]] * 2)
               + " " + fs([a["trans"]] * 2) + " " + fs([0.5]) + " " + fs(c.emerging[0:2, 0]),
               fs(c.idown[0:2, 0]) + " | " + fs(tb[0:2]), Tol(1e-12), desc=sc)
        if not ok:
            co.disagreements.append({"slice": "atmosphere.isotropic", "why": "dort() output differs from tb_up + trans*emerging", "desc": sc,
                                     "line": "", "impl": str(tb[:4]), "model": str(want[:4])})
    return co


# ---------------------------------------------------------------------------------------------

def run_tb(sc, thetas=(0., 30., 53.)):
    tb, res = pC01.run_tb(sc, list(thetas))
    return tb


def check_linear(sc, seed):
    """returns None or (kind, observed, required)"""
    rng = np.random.default_rng(seed)
    nl = len(sc["thickness"])
    def with_sources(Tl, Ts, Tsky):
        d = json.loads(json.dumps(sc))
        d["temperature"] = [float(t) for t in Tl]
        if d.get("substrate"):
            d["substrate"]["T"] = float(Ts)
        d["atmosphere"] = dict(tb_down=float(Tsky), tb_up=0.0, trans=1.0)
        return d
    T1, T2 = rng.uniform(0, 300, nl), rng.uniform(0, 300, nl)
    s1, s2, k1, k2 = rng.uniform(1, 300), rng.uniform(1, 300), rng.uniform(0, 300), rng.uniform(0, 300)
    a, b = 0.3, 0.7
    tb1, tb2 = run_tb(with_sources(T1, s1, k1)), run_tb(with_sources(T2, s2, k2))
    tb3 = run_tb(with_sources(a * T1 + b * T2, a * s1 + b * s2, a * k1 + b * k2))
    dev = float(np.abs(tb3 - (a * tb1 + b * tb2)).max())
    if dev > 1e-7:
        return ("linearity", dev, "<= 1e-7 K")
    # weights: response to a unit temperature in one source at a time
    weights = []
    srcs = [("layer", i) for i in range(nl)] + ([("substrate", 0)] if sc.get("substrate") else []) + [("sky", 0)]
    tot = 0
    for kind, i in srcs:
        Tl, Ts, Tk = np.zeros(nl), 1e-300, 0.0     # substrate temperature must stay > 0 only to be "present"; 1e-300 K contributes nothing
        if kind == "layer":
            Tl[i] = 1.0
        elif kind == "substrate":
            Ts = 1.0
        else:
            Tk = 1.0
        w = run_tb(with_sources(Tl, Ts, Tk))
        weights.append(float(w.min()))
        tot = tot + w
    if min(weights) < -1e-9:
        return ("negative-weight", min(weights), ">= 0")
    lim = 1e-6 if pC01.exact_case(sc) else 3.0 / 250.0
    if sc.get("substrate") and float(np.abs(tot - 1).max()) > lim:
        return ("weights-sum", float(np.abs(tot - 1).max()), f"|sum - 1| <= {lim}")
    tbs = tb1
    lo = min(list(T1) + ([s1] if sc.get("substrate") else [0.0]) + [k1]); hi = max(list(T1) + [s1 if sc.get("substrate") else 0.0, k1])
    slack = 0.0 if pC01.exact_case(sc) else 3.0
    if tbs.min() < lo - slack - 1e-6 or tbs.max() > hi + slack + 1e-6:
        return ("min-max", [float(tbs.min()), float(tbs.max())], [float(lo), float(hi)])
    return None


def check_composition(sc, atm):
    """Tb with a non-scattering isotropic atmosphere (tb_down, tb_up, transmittance) = tb_up + transmittance x (Tb of the same scene under
    a loss-free sky radiating tb_down), including the end points transmittance = 1 and 0"""
    d1 = json.loads(json.dumps(sc)); d1["atmosphere"] = dict(tb_down=atm[0], tb_up=atm[1], trans=atm[2])
    d0 = json.loads(json.dumps(sc)); d0["atmosphere"] = dict(tb_down=atm[0], tb_up=0.0, trans=1.0)
    d1["assembly"] = d0["assembly"] = 0
    th = [20., 40., 55.]
    tb1, tb0 = run_tb(d1, th), run_tb(d0, th)
    dev = float(np.abs(np.asarray(tb1) - (atm[1] + atm[2] * np.asarray(tb0))).max())
    if not dev <= 1e-7:
        return ("atmosphere-composition", dev, f"<= 1e-7 K with (tb_down, tb_up, transmittance) = {atm}")
    return None


def check_angles(sc):
    """the value at a viewing angle does not depend on its companions or their order: a 4-angle radiometer in a non-monotonic order
    against one run per angle (same sources)"""
    th = [30., 0., 53., 12.]
    tb = run_tb(sc, th)
    for j, t in enumerate(th):
        one = run_tb(sc, [t])
        dev = float(np.abs(np.asarray(tb)[j] - np.asarray(one)[0]).max())
        if not dev <= 1e-7:
            return ("angle-order", dev, f"<= 1e-7 K at {t} deg")
    return None


def check_atm_reuse(seed):
    """one angle-dependent atmosphere object used for a series of snowpacks whose air streams differ: each result must equal the one
    obtained with a fresh, identical atmosphere object, and tb_up + trans * (surface Tb with tb_down incident) at the stream angles"""
    from smrt import make_model, make_snowpack, sensor_list
    from smrt.inputs.make_medium import make_atmosphere
    rng = np.random.default_rng(seed)
    a = simple_atm(rng)
    mk = lambda: make_atmosphere("simple_atmosphere", theta=a["theta"], tb_down=a["tb_down"], tb_up=a["tb_up"], transmittance=a["trans"])
    # the shared object is given the same nodes in another order (descending, or shuffled): the same physical description
    order = list(range(len(a["theta"])))[::-1] if seed % 2 == 0 else [int(v) for v in rng.permutation(len(a["theta"]))]
    shared = make_atmosphere("simple_atmosphere", theta=[a["theta"][j] for j in order], tb_down=[a["tb_down"][j] for j in order],
                             tb_up=[a["tb_up"][j] for j in order], transmittance=[a["trans"][j] for j in order])
    m = make_model("iba", "dort", rtsolver_options=dict(n_max_stream=32))
    sensor = sensor_list.passive(float(rng.choice([18.7e9, 36.5e9])), [20., 35., 50., 65.])
    worst = 0.0
    for dens in np.linspace(rng.uniform(200, 300), rng.uniform(320, 420), 5):
        sp = lambda: make_snowpack([0.3, 2.0], "exponential", density=[float(dens), 350.], corr_length=[1e-4, 2e-4], temperature=[255., 265.],
                                   ice_permittivity_model=complex(3.18, 1e-3))
        got = np.asarray(m.run(sensor, shared + sp()).data.values)
        want = np.asarray(m.run(sensor, mk() + sp()).data.values)
        worst = max(worst, float(np.abs(got - want).max()))
    return ("atmosphere-reuse", worst, "<= 1e-9 K") if not worst <= 1e-9 else None


def oracle(ctx, hints, effort):
    rng = ctx.np
    findings, evals = {}, 0
    for j in range(1 if effort == "routine" else 6):
        evals += 10
        sd = int(rng.integers(0, 2**31))
        r = check_atm_reuse(sd)
        if r:
            findings.setdefault(r[0], Finding(r[0], "an angle-dependent atmosphere object (nodes given in another order, reused over a series of snowpacks) gives a different Tb than a fresh one with sorted nodes",
                                              {"kind": "atm-reuse", "seed": sd}, r[1], r[2]))
    for atm in [(20.0, 6.0, 1.0), (30.0, 250.0, 0.0), (round(float(rng.uniform(0, 80)), 2), round(float(rng.uniform(0, 60)), 2), round(float(rng.uniform(0.5, 1)), 3))]:
        sc = const_scene(rng, "iba", "exponential", atmosphere=False)
        sc["nmax"] = 16
        try:
            evals += 2
            r = check_composition(sc, atm)
        except (AssertionError, Warning):      # a scene refused by a validity guard is not an input of the property
            continue
        if r is not None:
            findings.setdefault(r[0], Finding(r[0], f"Tb under the atmosphere {atm} is not tb_up + transmittance x (Tb under a loss-free sky at tb_down)",
                                              {"kind": "composition", "scene": sc, "atm": list(atm)}, r[1], r[2]))
    # one thin absorbing layer (the exact case: weights sum to one within 1e-6) over every kind of boundary in turn, rough where roughness
    # exists, polarisation-dependent where the reflectivity is prescribed
    subs = [dict(kind="rough_choudhury79", eps=[20.0, 4.0], params=dict(roughness_rms=8e-5)),
            dict(kind="soil_wegmuller", eps=[12.0, 2.0], params=dict(roughness_rms=0.01)),
            dict(kind="soil_qnh", eps=[9.0, 1.5], params=dict(Q=0.1, N=1.0, H=0.4, Nv=1.0, Nh=0.5)),
            dict(kind="reflector_backscatter", eps=[3.0, 0.0], params=dict(specular_reflection={"H": 0.6, "V": 0.2})),
            dict(kind="reflector", eps=[3.0, 0.0], params=dict(specular_reflection={"H": 0.3, "V": 0.7}))]
    for j, sub in enumerate(subs if effort != "routine" else [subs[(int(rng.integers(0, 10**6)) + q) % len(subs)] for q in range(3)] + subs[:1] + subs[3:4]):
        sc = dict(thickness=[round(float(rng.uniform(0.15, 0.4)), 3)], density=[round(float(rng.uniform(200, 350)), 1)], temperature=[250.0],
                  microstructure="exponential", frequency=10.65e9, micro=dict(corr_length=[round(float(rng.uniform(5e-5, 2e-4)), 7)]),
                  ice_permittivity=[3.18, 2e-3], substrate=dict(sub, T=round(float(rng.uniform(200, 280)), 2)), emmodel="iba", nmax=16)
        sd_ = int(rng.integers(0, 2**31))
        try:
            evals += 6
            r = check_linear(sc, sd_)
        except (AssertionError, Warning):      # a scene refused by a validity guard is not an input of the property
            continue
        if r is not None:
            key = f"{r[0]}:{sub['kind']}"
            findings.setdefault(key, Finding(key, f"{r[0]} violated over a {sub['kind']} boundary", {"scene": sc, "seed": sd_}, r[1], r[2]))
    # adjacent layers of the same density (no reflection between them) at different temperatures, grain sizes differing or not
    for j in range(2 if effort == "routine" else 6):
        dens_ = round(float(rng.uniform(200, 400)), 1)
        cls_ = [round(float(v), 7) for v in rng.uniform(8e-5, 3e-4, 3)] if j % 2 == 0 else [1.5e-4] * 3
        sc = dict(thickness=[round(float(v), 3) for v in rng.uniform(0.1, 0.6, 3)], density=[dens_] * 3, temperature=[250.0, 260.0, 240.0],
                  microstructure="exponential", frequency=37e9, micro=dict(corr_length=cls_), ice_permittivity=[3.18, 2e-3],
                  substrate=dict(kind="soil_wegmuller", T=265.0, eps=[10.0, 1.0], params=dict(roughness_rms=0.01)), emmodel="iba", nmax=16)
        sd_ = int(rng.integers(0, 2**31))
        try:
            evals += 8
            r = check_linear(sc, sd_)
        except (AssertionError, Warning):
            continue
        if r is not None:
            key = f"{r[0]}:equal-density-layers"
            findings.setdefault(key, Finding(key, f"{r[0]} violated for three layers of equal density at different temperatures", {"scene": sc, "seed": sd_}, r[1], r[2]))
    n = 4 if effort == "routine" else 40
    for i in range(-1, n):
        em, ms = pC01.PAIRINGS[i % (3 if effort == "routine" else len(pC01.PAIRINGS))]
        sc = const_scene(rng, em, ms, atmosphere=False)
        sc["nmax"] = int(rng.choice([16, 32]))
        if i == -1:
            # a thin pack over a reflector whose prescribed reflectivity depends on the angle and on the polarisation (documented: functions
            # of theta in radians): Kirchhoff's law holds at every angle, so the weights still sum to one
            sc = const_scene(rng, "iba", "exponential", atmosphere=False)
            sc["thickness"] = [round(float(v), 3) for v in rng.uniform(0.1, 0.4, min(2, len(sc["thickness"])))]
            for k_ in ("density", "temperature"):
                sc[k_] = sc[k_][:len(sc["thickness"])]
            sc["micro"] = {k_: (v[:len(sc["thickness"])] if isinstance(v, list) else v) for k_, v in sc.get("micro", {}).items()}
            sc["frequency"], sc["nmax"] = 19e9, 16
            sc["substrate"] = dict(kind="reflector", T=round(float(rng.uniform(200, 280)), 2), eps=[3.0, 0.0],
                                   params=dict(specular_reflection={"V": {"$fn": [0.1, 0.3]}, "H": {"$fn": [0.25, 0.6]}}))
        seed = int(rng.integers(0, 2**31))
        try:
            r = check_linear(sc, seed)
        except (AssertionError, Warning):      # a scene refused by a validity guard is not an input of the property
            continue
        except Exception as e:  # noqa
            from smrt.core.error import SMRTError
            if isinstance(e, SMRTError):
                continue
            raise
        evals += 3 + len(sc["thickness"]) + 2
        if r is None and i % 2 == 0:
            try:
                evals += 5
                r = check_angles(sc)
            except AssertionError:
                r = None
        if r is not None:
            key = f"{r[0]}:{sc['emmodel']}"
            findings.setdefault(key, Finding(key, f"{r[0]} violated", {"scene": sc, "seed": seed}, r[1], r[2]))
    return list(findings.values()), evals


def replay(inp, rp=None):
    if inp.get("kind") == "composition":
        r = check_composition(inp["scene"], tuple(inp["atm"]))
        return Finding("?", r[0], inp, r[1], r[2]) if r else None
    if inp.get("kind") == "atm-reuse":
        r = check_atm_reuse(inp["seed"])
        return Finding("?", r[0], inp, r[1], r[2]) if r else None
    r = check_linear(inp["scene"], inp["seed"]) or check_angles(inp["scene"])
    return Finding("?", r[0], inp, r[1], r[2]) if r else None
