"""C16 — media stay well-formed under any sequence of construction and editing operations."""
import copy, itertools
import numpy as np
import pandas as pd
import common as C
from common import Corr, Tol, Finding, f2t

PROP = "C16"
DRIVER = "C16"
LEAN_TARGETS = ["SmrtVerif.Props.C16", "SmrtVerif.Driver.C16"]
TRUSTED = ["correspondence harness harness/pC16.py and driver SmrtVerif/Driver/C16.lean",
           "layers/interfaces/substrates/atmospheres are modelled as values identified by a tag; Layer.number and terrain_info are not modelled",
           "Python object model: copy.copy / copy.deepcopy / list semantics"]
ASSUMPTIONS = ["thicknesses and depths are integer-valued floats in the correspondence (exact arithmetic on both sides)",
               "layer indices passed to delete / delete_bottom / copy are non-negative"]
RULE = ("histories over the operation alphabet {make_snowpack, append, delete, delete_bottom, copy, deepcopy, +, +=} with every operand kind "
        "(snowpack, layer, substrate, atmosphere, 0, foreign object): exhaustive over a fixed alphabet up to a depth, plus seeded random longer "
        "histories; make_snowpack with list / ndarray / Series / scalar arguments; monotone and non-monotone z profiles; "
        "distinct = distinct history line; non-trivial = at least one operation succeeded")
TRANSPARENT_TAG = 999999


# ---------------------------------------------------------------------------------------------
# executing a history on the implementation

class Exec:
    def __init__(self, nprng=None):
        self.objs = []
        self.np = nprng
        self.frame_violations = []     # (op, object id) whose observable state changed though it was not the target
        self.shape_violations = []
        self.rule_violations = []      # (op, outcome) of invalid combinations that did not raise SMRTError

    def ident(self, o):
        for i, x in enumerate(self.objs):
            if x is o:
                return i
        self.objs.append(o)
        return len(self.objs) - 1

    @staticmethod
    def layer(t, tag):
        from smrt.inputs.make_medium import make_snow_layer
        return make_snow_layer(float(t), "homogeneous", density=300, tag=int(tag))

    @staticmethod
    def iface(k):
        from smrt.core.interface import make_interface
        return {"F": "flat", "T": "transparent", "N": None}[k]

    def operand(self, s):
        from smrt.substrate.flat import Flat as SubFlat
        from smrt.atmosphere.simple_isotropic_atmosphere import SimpleIsotropicAtmosphere
        if s == "z":
            return 0
        if s == "x":
            return "not a snowpack"
        if s[0] == "s":
            return self.objs[int(s[1:])]
        if s[0] == "l":
            t, g = s[1:].split(":")
            return self.layer(int(t), int(g))
        if s[0] == "u":
            sub = SubFlat(temperature=265., permittivity_model=complex(3, 0.1)); sub.tag = int(s[1:]); return sub
        if s[0] == "a":
            atm = SimpleIsotropicAtmosphere(tb_down=5.); atm.tag = int(s[1:]); return atm
        raise ValueError(s)

    def container(self, xs):
        """present a per-layer list in one of the container types the documentation allows"""
        r = int(self.np.integers(0, 6)) if self.np is not None else 0
        arr = [float(x) for x in xs]
        n = len(arr)
        if r == 3:      # a column of a frame sorted / filtered by the user: labels are not 0..n-1 (values are taken by position)
            return pd.Series(arr, index=list(range(n - 1, -1, -1)))
        if r == 4:
            return pd.Series(arr, index=[10 * (i + 1) for i in range(n)])
        if r == 5:
            return pd.Series(arr, index=["layer_%d" % i for i in range(n)])
        return [arr, np.array(arr), pd.Series(arr)][r]

    def do(self, op):
        from smrt.inputs.make_medium import make_snowpack
        from smrt.core.error import SMRTError
        t = op.split()
        before = [dump(o) for o in self.objs]
        target = None
        # invalid combinations of the statement, decided on the objects themselves: a second substrate, an atmosphere underneath
        must_raise = None
        if t[0] in ("add", "iadd") and t[1][0] == "s" and int(t[1][1:]) < len(self.objs):
            left = self.objs[int(t[1][1:])]
            if t[2][0] == "u" and getattr(left, "substrate", None) is not None:
                must_raise = "a second substrate"
            elif t[2][0] == "a":
                must_raise = "an atmosphere underneath"
        try:
            if t[0] == "mk":
                n = int(t[1]); ths = [int(x) for x in t[2:2 + n]]
                tag0, nprop, ifa, surf, sub, atm = t[2 + n:]
                tags = [int(tag0) + i for i in range(n)]
                dens = 300. if nprop == "-" else self.container([300.] * int(nprop))
                if ifa == "N":
                    interface = None
                elif ifa.startswith("L:"):
                    interface = [self.iface(k) for k in ifa[2:].split(",") if k]
                else:
                    interface = self.iface(ifa)
                r = make_snowpack(self.container(ths), "homogeneous", density=dens, interface=interface,
                                  surface=None if surf == "N" else self.iface(surf),
                                  substrate=None if sub == "-" else self.operand("u" + sub),
                                  atmosphere=None if atm == "-" else self.operand("a" + atm), tag=tags)
            elif t[0] == "ap":
                target = int(t[1]); sp = self.objs[target]
                from smrt.core.interface import make_interface
                k = self.iface(t[4])
                sp.append(self.layer(int(t[2]), int(t[3])), interface=None if k is None else make_interface(k))
                r = sp
            elif t[0] == "del":
                target = int(t[1]); sp = self.objs[target]; sp.delete(int(t[2])); r = sp
            elif t[0] == "delb":
                target = int(t[1]); sp = self.objs[target]; sp.delete_bottom(int(t[2])); r = sp
            elif t[0] == "cp":
                r = self.objs[int(t[1])].copy(cut_bottom=None if t[2] == "-" else int(t[2]))
            elif t[0] == "dcp":
                r = self.objs[int(t[1])].deepcopy()
            elif t[0] == "add":
                r = self.operand(t[1]) + self.operand(t[2])
            elif t[0] == "iadd":
                target = int(t[1][1:]); sp = self.objs[target]
                sp += self.operand(t[2]); r = sp
            else:
                raise ValueError(op)
            out = "ok:%d" % self.ident(r)
        except SMRTError:
            out = "ERR:SMRTError"
        except IndexError:
            out = "ERR:IndexError"
        except AssertionError:
            out = "ERR:AssertionError"
        except Exception as e:  # noqa
            out = "ERR:foreign:" + type(e).__name__
        if must_raise is not None and out != "ERR:SMRTError":
            self.rule_violations.append((op, out, must_raise))
        # frame: only the target of an in-place operation may change
        for i, b in enumerate(before):
            if i != target and dump(self.objs[i]) != b:
                self.frame_violations.append((op, i, b, dump(self.objs[i])))
        for i, o in enumerate(self.objs):
            if not wellformed(o):
                self.shape_violations.append((op, i, dump(o)))
        return out


def dump(sp):
    def lay(l):
        return "%d:%d" % (int(l.thickness), getattr(l, "tag", TRANSPARENT_TAG))
    def ifc(i):
        n = type(i).__name__
        return {"Flat": "F", "Transparent": "T"}.get(n, "?" + n) if hasattr(i, "specular_reflection_matrix") else "!" + n
    o = lambda x: "-" if x is None else str(getattr(x, "tag", "?"))
    try:
        zs = ",".join(str(int(round(float(v)))) for v in sp.z)         # the depth view, read after every operation (thicknesses are integers here)
    except Exception as e:  # noqa
        zs = "ERR:" + type(e).__name__
    return "[%s|%s|%s|%s|z=%s]" % (",".join(lay(l) for l in sp.layers), ",".join(ifc(i) for i in sp.interfaces), o(sp.substrate), o(sp.atmosphere), zs)


def wellformed(sp):
    ok = len(sp.layers) == len(sp.interfaces) and all(hasattr(i, "specular_reflection_matrix") for i in sp.interfaces) \
        and all(hasattr(l, "thickness") and hasattr(l, "microstructure") for l in sp.layers)
    if not ok:
        return False
    # the derived depth views agree with the layers the medium holds now (they are read after every operation, as a user plotting a
    # profile between two edits would): total thickness = sum prescribed, one interface depth more than layers
    th = np.array([float(l.thickness) for l in sp.layers])
    bottom = np.asarray(sp.bottom_layer_depths, dtype=float)
    z = np.asarray(sp.z, dtype=float)
    return (bottom.shape == th.shape and np.allclose(bottom, np.cumsum(th), rtol=1e-12, atol=0) and len(z) == len(th) + 1
            and abs(float(sp.thickness) - float(th.sum())) <= 1e-12 * max(1.0, float(th.sum())) and (len(th) == 0 or abs(z[-1] - th.sum()) <= 1e-9))


def run_history(ops, nprng=None):
    ex = Exec(nprng)
    outs = [ex.do(op) for op in ops]
    return " ".join(outs) + " || " + " ".join(dump(o) for o in ex.objs), ex


# ---------------------------------------------------------------------------------------------
# generators

def alphabet(nobj, tag):
    """the operation alphabet applicable when `nobj` snowpack objects exist (ids 0..nobj-1)"""
    ops = []
    for s in range(nobj):
        ops += [f"ap {s} 30 {tag} N", f"ap {s} 40 {tag} T", f"del {s} 0", f"del {s} 1", f"del {s} 5",
                f"delb {s} 0", f"delb {s} 1", f"delb {s} 7", f"cp {s} -", f"cp {s} 1", f"cp {s} 9", f"dcp {s}",
                f"add s{s} u{tag}", f"add s{s} l50:{tag}", f"add l60:{tag} s{s}", f"add a{tag} s{s}", f"add s{s} a{tag}",
                f"add s{s} z", f"add z s{s}", f"add s{s} x", f"add u{tag} s{s}",
                f"iadd s{s} u{tag}", f"iadd s{s} l70:{tag}", f"iadd s{s} z", f"iadd s{s} a{tag}"]
        for o in range(nobj):
            ops += [f"add s{s} s{o}", f"iadd s{s} s{o}"]
    return ops


STARTS = ["mk 2 10 20 100 - N N - -", "mk 1 15 200 - N N 7 -", "mk 3 5 0 8 300 - T F - 9", "mk 0 400 - N N - -"]


def nobj_after(ops):
    """number of heap objects after executing ops on the implementation (cheap: run it)"""
    _, ex = run_history(ops)
    return len(ex.objs)


def gen_exhaustive(depth, starts):
    """all histories `starts ++ w`, |w| <= depth over the alphabet (the alphabet grows with the heap)"""
    out = []
    def rec(prefix, d):
        out.append(prefix)
        if d == 0:
            return
        n = nobj_after(prefix)
        for k, op in enumerate(alphabet(n, 500 + 10 * len(prefix))):
            rec(prefix + [op], d - 1)
    rec(list(starts), depth)
    return out


def gen_random(rng, n_hist, lo, hi):
    out = []
    for _ in range(n_hist):
        ops = [random_make(rng, 100 * (i + 1)) for i in range(int(rng.integers(1, 4)))]
        L = int(rng.integers(lo, hi + 1))
        for k in range(L):
            n = nobj_after(ops) if k % 3 == 0 else n
            if n == 0:
                ops.append(random_make(rng, 1000 + 100 * k)); continue
            if rng.random() < 0.12:
                ops.append(random_make(rng, 1000 + 100 * k))
            else:
                al = alphabet(n, 2000 + 10 * k)
                ops.append(al[int(rng.integers(0, len(al)))])
        out.append(ops)
    return out


def random_make(rng, tag0):
    n = int(rng.integers(0, 5))
    ths = [int(rng.choice([0, 0, -3, 5, 10, 20, 35])) for _ in range(n)]
    nprop = "-" if rng.random() < 0.6 else str(int(rng.choice([n, n, n + 1, max(n - 1, 0)])))
    r = rng.random()
    if r < 0.4:
        ifa = "N"
    elif r < 0.6:
        ifa = str(rng.choice(["F", "T"]))
    else:
        m = int(rng.choice([n, n, n, n + 1, max(n - 1, 0)]))
        ifa = "L:" + ",".join(str(rng.choice(["F", "T", "N"])) for _ in range(m))
    surf = str(rng.choice(["N", "N", "F", "T"]))
    sub = "-" if rng.random() < 0.6 else str(tag0 + 50)
    atm = "-" if rng.random() < 0.8 else str(tag0 + 60)
    return f"mk {n} " + "".join(f"{t} " for t in ths) + f"{tag0} {nprop} {ifa} {surf} {sub} {atm}"


def z_profiles(rng, n):
    out = [[3, 2, 1], [-1, -2, -3], [1, 2, 3], [1, 3, 2], [3, 1, 2], [-3, -2, -1], [2, 1, -1], [1, 0, -1], [5], [-5], [0],
           [2, 2, 1], [1, 2, 2], [-1, 1, 2], [10, 7, 3, 1], [1, 4, 9, 20]]
    for _ in range(n):
        k = int(rng.integers(1, 7))
        kind = rng.random()
        vals = sorted(set(int(v) for v in rng.integers(1, 60, k)))
        if kind < 0.25:
            z = vals[::-1]
        elif kind < 0.5:
            z = [-v for v in vals]
        elif kind < 0.75:
            z = vals
        else:
            z = [int(v) for v in rng.integers(-20, 21, k)]
        out.append(z)
    return out


def impl_z(z):
    from smrt.inputs.make_medium import compute_thickness_from_z
    from smrt.core.error import SMRTError
    try:
        t = compute_thickness_from_z(pd.Series([float(v) for v in z]))
        return " ".join(str(int(v)) for v in t)
    except SMRTError:
        return "ERR:SMRTError"
    except Exception as e:  # noqa
        return "ERR:foreign:" + type(e).__name__


def correspond(ctx):
    co = Corr(PROP, DRIVER)
    rng = ctx.np
    hists = gen_exhaustive(ctx.n(1, 2), STARTS[:ctx.n(2, 3)])
    if ctx.thorough:
        hists += gen_exhaustive(3, STARTS[:1])        # every history of length <= 3 from one two-layer snowpack
    hists += gen_random(rng, ctx.n(150, 1500), 4, ctx.n(10, 30))
    for ops in hists:
        out, ex = run_history(ops, rng)
        co.add("snowpack.history", "hist " + " ; ".join(ops), out, C.EXACT, desc={"ops": ops}, nontrivial="ok:" in out)
        co.note("history length %d" % min(len(ops), 12))
        for tok in out.split(" || ")[0].split():
            co.note("result " + (tok if tok.startswith("ERR") else "ok"))
    for z in z_profiles(rng, ctx.n(60, 600)):
        co.add("thickness_from_z", "z " + " ".join(map(str, z)), impl_z(z), C.EXACT, desc={"z": z})
    # volume fractions
    from smrt.inputs.make_medium import SnowLayer
    from smrt.core.globalconstants import DENSITY_OF_ICE, DENSITY_OF_WATER
    for _ in range(ctx.n(40, 400)):
        rho = float(rng.uniform(50, 900))
        vlw = float(rng.uniform(0, min(0.3, rho / 1000.)))
        try:
            f, lw = SnowLayer.compute_frac_volumes(rho, volumetric_liquid_water=vlw)
            co.add("frac_volumes", f"fracvlw {f2t(DENSITY_OF_ICE)} {f2t(DENSITY_OF_WATER)} {f2t(rho)} {f2t(vlw)}", f"{f2t(f)} {f2t(lw)}", Tol(1e-12))
        except AssertionError:
            pass
        lw = float(rng.uniform(0, 1))
        try:
            f, lw2 = SnowLayer.compute_frac_volumes(rho, liquid_water=lw)
            if f != 1:
                co.add("frac_volumes", f"fraclw {f2t(DENSITY_OF_ICE)} {f2t(DENSITY_OF_WATER)} {f2t(rho)} {f2t(lw)}", f2t(f), Tol(1e-12))
        except AssertionError:
            pass
    # the whole function (rounding clamp and range assertions), densities up to and beyond that of ice: a crust a few kg/m3 below the
    # density of ice still contains air; a hair above, it is ice; further above, the density is refused
    def cfv(**kw):
        try:
            f, lw_ = SnowLayer.compute_frac_volumes(**kw)
            return f"{f2t(f)} {f2t(lw_)}"
        except AssertionError:
            return "ERR:AssertionError"
    fixed = [905.0, 908.0, 910.0, 912.5, 915.0, 916.0, 916.6, DENSITY_OF_ICE, 916.8, 917.0, 920.0, 925.0, 925.8, 926.0, 930.0, 1000.0]
    for k in range(ctx.n(60, 600)):
        rho = fixed[k] if k < len(fixed) else float(rng.uniform(850, 940)) if k % 2 else float(rng.uniform(50, 1000))
        for vlw in (0.0, float(rng.choice([0.0, 0.01, 0.05, 0.1]))):
            co.add("frac_volumes.clamp", f"cfvlw {f2t(DENSITY_OF_ICE)} {f2t(DENSITY_OF_WATER)} {f2t(rho)} {f2t(vlw)}",
                   cfv(density=rho, volumetric_liquid_water=vlw), Tol(1e-12), desc={"density": rho, "volumetric_liquid_water": vlw})
        lw = float(rng.choice([0.0, 0.0, 0.02, 0.1]))
        co.add("frac_volumes.clamp", f"cflw {f2t(DENSITY_OF_ICE)} {f2t(DENSITY_OF_WATER)} {f2t(rho)} {f2t(lw)}",
               cfv(density=rho, liquid_water=lw), Tol(1e-12), desc={"density": rho, "liquid_water": lw})
        co.note("clamp: density " + ("below 0.99 ice" if rho < 0.99 * DENSITY_OF_ICE else "last 1 % below ice" if rho <= DENSITY_OF_ICE else
                                     "up to 1 % above ice" if rho < 1.01 * DENSITY_OF_ICE else "beyond"))
    return co


# ---------------------------------------------------------------------------------------------
# the property itself on the implementation

def expected_z(z):
    """the three documented conventions (independent of the Lean model)"""
    if any(v == 0 for v in z):
        return None
    d = [b - a for a, b in zip(z, z[1:])]
    if all(v < 0 for v in d):
        if all(v > 0 for v in z):
            zz = list(z) + [0]
        elif all(v < 0 for v in z):
            zz = [0] + list(z)
        else:
            return None
        return [a - b for a, b in zip(zz, zz[1:])]
    if all(v > 0 for v in d) and all(v > 0 for v in z):
        zz = [0] + list(z)
        return [b - a for a, b in zip(zz, zz[1:])]
    return None


def check_history(ops):
    out, ex = run_history(ops)
    if ex.shape_violations:
        op, i, d = ex.shape_violations[0]
        return ("malformed", f"after '{op}' snowpack object {i} is malformed: {d}", "as many interfaces as layers, every interface an interface object")
    if ex.frame_violations:
        op, i, b, a = ex.frame_violations[0]
        return ("operand-changed", f"'{op}' changed snowpack object {i}, which is not its target: {b} -> {a}", "operands and other media unchanged")
    if ex.rule_violations:
        op, out, why = ex.rule_violations[0]
        return ("invalid-accepted", f"'{op}' ({why}) gives {out}", "SMRTError")
    return None


def check_make(n, ths, iflist_len):
    """array length mismatch must raise SMRTError"""
    from smrt.inputs.make_medium import make_snowpack
    from smrt.core.error import SMRTError
    try:
        make_snowpack([float(t) for t in ths], "homogeneous", density=300., interface=["flat"] * iflist_len)
    except SMRTError:
        return None
    except Exception as e:  # noqa
        return ("make-foreign", "raises " + type(e).__name__, "SMRTError")
    return ("make-length", f"make_snowpack accepted {len(ths)} thicknesses with {iflist_len} interfaces", "SMRTError (array length mismatch)")


def check_length_mismatch(ctor, which, wrap, delta):
    """a per-layer argument (named or passed through **kwargs) that is one element longer or shorter than the thicknesses: SMRTError"""
    import pandas as pd
    from smrt.inputs.make_medium import make_snowpack, make_ice_column
    from smrt.core.error import SMRTError
    th = [0.1, 0.2, 0.3]
    n = len(th) + delta
    w = {"list": list, "ndarray": np.array, "series": pd.Series}[wrap]
    base = dict(density=300.0, temperature=260.0, corr_length=1e-4, salinity=0.005)
    vals = dict(base)
    vals[which] = w([base[which]] * n)
    try:
        if ctor == "make_snowpack":
            make_snowpack(th, "exponential", density=vals["density"], temperature=vals["temperature"], corr_length=vals["corr_length"])
        else:
            make_ice_column("firstyear", th, vals["temperature"], "exponential", salinity=vals["salinity"], corr_length=vals["corr_length"])
    except SMRTError:
        return None
    except Exception as e:  # noqa
        return ("make-foreign:" + ctor, f"{ctor} with {n} values of {which} ({wrap}) for {len(th)} layers raises " + type(e).__name__, "SMRTError")
    return ("make-length:" + ctor, f"{ctor} accepted {n} values of {which} ({wrap}) for {len(th)} layers", "SMRTError (array length mismatch)")


def check_make_values(seed, shape):
    """per-layer properties equal those given, by position, whatever the argument shape (list, ndarray, Series with any index), scalars
    broadcast, zero-thickness layers dropped"""
    import pandas as pd
    from smrt.inputs.make_medium import make_snowpack
    from smrt.core.error import SMRTError
    rng = np.random.default_rng(seed)
    n = int(rng.integers(2, 7))
    th = [round(float(v), 3) for v in rng.uniform(0.05, 2.0, n)]
    if rng.random() < 0.3:
        th[int(rng.integers(0, n))] = 0.0
    dens = [round(float(v), 1) for v in rng.uniform(100, 500, n)]
    temp = [round(float(v), 2) for v in rng.uniform(200, 270, n)]
    cl = [round(float(v), 6) for v in rng.uniform(5e-5, 4e-4, n)]

    def wrap(xs):
        if shape == "list":
            return list(xs)
        if shape == "ndarray":
            return np.array(xs)
        if shape == "series":
            return pd.Series(xs)
        if shape == "series-reversed-labels":
            return pd.Series(xs, index=list(range(n - 1, -1, -1)))
        if shape == "series-shuffled-labels":
            return pd.Series(xs, index=[int(v) for v in np.random.default_rng(seed + 1).permutation(n)])
        if shape == "series-offset-labels":
            return pd.Series(xs, index=[10 * (i + 1) for i in range(n)])
        if shape == "series-string-labels":
            return pd.Series(xs, index=["layer_%d" % i for i in range(n)])
        if shape == "frame-filtered":
            df = pd.DataFrame({"v": [-1.0] + list(xs), "keep": [False] + [True] * n})
            return df[df.keep]["v"]
        raise ValueError(shape)
    try:
        sp = make_snowpack(wrap(th), "exponential", density=wrap(dens), temperature=wrap(temp), corr_length=wrap(cl))
    except SMRTError as e:
        return ("make-values:" + shape, f"make_snowpack refuses valid per-layer {shape} arguments: SMRTError {e}", "a snowpack")
    except Exception as e:  # noqa
        return ("make-values:" + shape, f"make_snowpack with per-layer {shape} arguments raises {type(e).__name__}: {e}", "a snowpack")
    keep = [i for i in range(n) if th[i] > 0]
    got = [(float(l.thickness), float(l.density), float(l.temperature), float(l.microstructure.corr_length)) for l in sp.layers]
    want = [(th[i], dens[i], temp[i], cl[i]) for i in keep]
    if len(got) != len(want) or any(abs(a - b) > 1e-12 * max(1.0, abs(b)) for g, w in zip(got, want) for a, b in zip(g, w)):
        return ("make-values:" + shape, f"layers (thickness, density, temperature, corr_length) = {got}", f"{want} (given, by position)")
    return None


def check_surface(seed, ctor):
    """the prescribed `surface` is the interface on top of the first layer that is kept (zero-thickness layers are dropped, leading ones
    included), the other interfaces being the `interface` argument - for make_snowpack and make_ice_column alike"""
    from smrt.inputs.make_medium import make_snowpack, make_ice_column
    rng = np.random.default_rng(seed)
    n = int(rng.integers(4, 7))
    th = [round(float(v), 3) for v in rng.uniform(0.05, 1.0, n)]
    for j in range(int(rng.integers(1, 3))):
        th[j] = 0.0                                  # one or two leading zero-thickness layers
    if n > 3 and rng.random() < 0.5:
        th[-2] = 0.0
    surface, inner = [("transparent", "flat"), ("flat", "transparent")][int(rng.integers(0, 2))]
    temp = [round(float(v), 2) for v in rng.uniform(250, 270, n)]
    try:
        if ctor == "make_snowpack":
            sp = make_snowpack(th, "homogeneous", density=300.0, temperature=temp, surface=surface, interface=inner)
        else:
            ice = str(rng.choice(["fresh", "firstyear", "multiyear"]))
            sp = make_ice_column(ice, th, temp, "homogeneous", surface=surface, interface=inner, add_water_substrate=bool(rng.integers(0, 2)),
                                 **({} if ice == "fresh" else {"salinity": 0.005}))
    except Exception as e:  # noqa
        return (f"surface:{ctor}", f"{ctor}(thickness={th}, surface={surface!r}, interface={inner!r}) raises {type(e).__name__}: {str(e)[:80]}", "a medium")
    kept = [t for t in th if t > 0]
    names = [type(i).__name__.lower() for i in sp.interfaces]
    want = [surface] + [inner] * (len(kept) - 1)
    if len(sp.layers) != len(kept) or names != want or [float(l.thickness) for l in sp.layers] != kept:
        return (f"surface:{ctor}", f"{ctor}(thickness={th}, surface={surface!r}, interface={inner!r}): layers {[float(l.thickness) for l in sp.layers]}, "
                f"interfaces {names}", f"layers {kept}, interfaces {want}")
    return None


MAKE_SHAPES = ["list", "ndarray", "series", "series-reversed-labels", "series-shuffled-labels", "series-offset-labels", "series-string-labels",
               "frame-filtered"]


def minimise(ops, pred):
    ops = list(ops)
    changed = True
    while changed:
        changed = False
        for i in range(len(ops)):
            cand = ops[:i] + ops[i + 1:]
            try:
                if cand and pred(cand):
                    ops, changed = cand, True
                    break
            except Exception:
                pass
    return ops


def check_layer_updates(seed):
    """a snow layer built from (density, volumetric liquid water, temperature, thickness) and then changed through its update(): after
    every step the attributes are the ones given last and the volume fractions are those of the mass balance for them (a fractional
    volume up to 1 % above one, a rounding artefact of the nominal ice density, counts as one; at most one is kept as it is)"""
    from smrt.inputs.make_medium import make_snow_layer
    from smrt.core.globalconstants import DENSITY_OF_ICE as RI, DENSITY_OF_WATER as RW
    rng = np.random.default_rng(seed)
    dens = lambda: float(rng.choice([round(float(rng.uniform(150, 600)), 1), round(float(rng.uniform(908.0, 916.5)), 1), 917.0]))
    water = lambda: float(rng.choice([0.0, 0.0, round(float(rng.uniform(0.005, 0.1)), 3)]))
    st = dict(density=dens(), volumetric_liquid_water=water() if rng.random() < 0.7 else None, temperature=round(float(rng.uniform(240, 273)), 2),
              thickness=round(float(rng.uniform(0.05, 2)), 3))
    if st["density"] > 900:
        st["volumetric_liquid_water"] = 0.0 if st["volumetric_liquid_water"] is not None else None
    kw = {} if st["volumetric_liquid_water"] is None else dict(volumetric_liquid_water=st["volumetric_liquid_water"])
    lay = make_snow_layer(st["thickness"], "exponential", density=st["density"], temperature=st["temperature"], corr_length=2e-4, **kw)
    log = [f"make_snow_layer({st})"]

    def expected():
        v = st["volumetric_liquid_water"] or 0.0
        f = (st["density"] - (RW - RI) * v) / RI
        return (1.0 if 1 < f < 1.01 else f), v / f

    def verify():
        f, lw = expected()
        got = dict(density=lay.density, temperature=lay.temperature, thickness=lay.thickness, frac_volume=lay.frac_volume, liquid_water=lay.liquid_water,
                   microstructure_frac_volume=lay.microstructure.frac_volume if hasattr(lay, "microstructure") and lay.microstructure is not None else lay.frac_volume)
        want = dict(density=st["density"], temperature=st["temperature"], thickness=st["thickness"], frac_volume=f, liquid_water=lw, microstructure_frac_volume=f)
        for k in want:
            if not abs(float(got[k]) - float(want[k])) <= 1e-12 * max(1.0, abs(want[k])):
                return k, got[k], want[k]
        return None
    r = verify()
    for step in range(int(rng.integers(1, 5))):
        if r is not None:
            break
        ch = {}
        what = rng.choice(["density", "water", "temperature", "thickness", "density+water", "water+temperature"])
        if "density" in what:
            ch["density"] = dens()
        if "water" in what:
            ch["volumetric_liquid_water"] = water()
        if "temperature" in what:
            ch["temperature"] = round(float(rng.uniform(240, 273)), 2)
        if "thickness" in what:
            ch["thickness"] = round(float(rng.uniform(0.05, 2)), 3)
        new = dict(st, **ch)
        if new["density"] > 900 and (new["volumetric_liquid_water"] or 0.0) > 0:
            ch["volumetric_liquid_water"] = 0.0
        try:
            lay.update(**ch)
        except AssertionError:
            return None                 # a refused combination: not a reachable state
        st.update(ch)
        log.append(f"update({ch})")
        r = verify()
    if r is None:
        return None
    return ("layer-update:" + r[0], " ; ".join(log) + f" -> {r[0]} = {r[1]!r}", f"{r[0]} = {r[2]!r}")


def check_legacy_water(seed):
    """the water content given in its other documented definition (liquid_water: volume of water over volume of ice and water) describes the
    same layer as the volumetric one: the layer reports the value given, and fractions consistent with the density"""
    from smrt import make_snow_layer
    from smrt.core.globalconstants import DENSITY_OF_ICE, DENSITY_OF_WATER
    rng = np.random.default_rng(seed)
    rho = round(float(rng.uniform(100, 600)), 1)
    lw = round(float(rng.uniform(0.01, 0.3)), 3)
    lay = make_snow_layer(0.1, "exponential", density=rho, temperature=273.15, corr_length=2e-4, liquid_water=lw)
    f = rho / ((1 - lw) * DENSITY_OF_ICE + lw * DENSITY_OF_WATER)       # mass of ice and water per volume of snow
    got = dict(liquid_water=float(lay.liquid_water), frac_volume=float(lay.frac_volume), density=float(lay.density))
    want = dict(liquid_water=lw, frac_volume=f, density=rho)
    if getattr(lay, "volumetric_liquid_water", None) is not None:
        got["volumetric_liquid_water"], want["volumetric_liquid_water"] = float(lay.volumetric_liquid_water), lw * f
    bad = {k: (got[k], want[k]) for k in want if not abs(got[k] - want[k]) <= 1e-9 * max(1.0, abs(want[k]))}
    if bad:
        return ("layer:legacy-water", f"make_snow_layer(density={rho}, liquid_water={lw}): " + ", ".join(f"{k}={v[0]!r} (expected {v[1]!r})" for k, v in bad.items()),
                str({k: v[1] for k, v in bad.items()}))
    return None


def check_deepcopy_independent(seed):
    """deepcopy gives a medium that shares nothing with the original: editing every layer, microstructure, interface and the substrate of the
    copy leaves the description of the original as it was"""
    from smrt import make_snowpack, make_soil
    rng = np.random.default_rng(seed)
    n = int(rng.integers(1, 5))
    sub = make_soil("soil_wegmuller", complex(6, 0.5), temperature=270, roughness_rms=0.01)
    sp = make_snowpack([round(float(v), 2) for v in rng.uniform(0.1, 1, n)], "sticky_hard_spheres", density=[round(float(v), 1) for v in rng.uniform(150, 450, n)],
                       temperature=[260.0] * n, radius=[round(float(v), 6) for v in rng.uniform(1e-4, 5e-4, n)], stickiness=0.3, substrate=sub)

    def describe(m):
        return [(float(l.thickness), float(l.density), float(l.frac_volume), float(l.temperature), float(l.microstructure.frac_volume), float(l.microstructure.radius),
                 float(l.microstructure.stickiness)) for l in m.layers] + [float(m.substrate.roughness_rms), float(m.substrate.temperature), len(m.interfaces)]
    before = describe(sp)
    cp = sp.deepcopy()
    shared = [nm for nm, a, b in ([("layers[%d]" % i, x, y) for i, (x, y) in enumerate(zip(sp.layers, cp.layers))]
                                  + [("layers[%d].microstructure" % i, x.microstructure, y.microstructure) for i, (x, y) in enumerate(zip(sp.layers, cp.layers))]
                                  + [("interfaces[%d]" % i, x, y) for i, (x, y) in enumerate(zip(sp.interfaces, cp.interfaces))]
                                  + [("substrate", sp.substrate, cp.substrate)]) if a is b]
    for l in cp.layers:
        l.update(density=float(l.density) + 50.0, temperature=250.0)
        l.microstructure.radius = 2 * l.microstructure.radius
        l.microstructure.stickiness = 0.2
        l.thickness = 2 * l.thickness
    cp.substrate.roughness_rms = 0.05
    cp.substrate.temperature = 255.0
    after = describe(sp)
    if after != before:
        k = next(i for i, (a, b) in enumerate(zip(before, after)) if a != b)
        return ("deepcopy:independent", f"editing the deepcopy of a {n}-layer medium changes the original: entry {k} was {before[k]} and is now {after[k]}",
                str(before[k]))
    if shared:
        return ("deepcopy:independent", f"the deepcopy of a {n}-layer medium shares {shared} with the original", "no shared object")
    return None


def oracle(ctx, hints, effort):
    rng = ctx.np
    findings, evals = {}, 0
    for fn_, kind_ in ((check_legacy_water, "legacy-water"), (check_deepcopy_independent, "deepcopy-independent")):
        for it in range(3 if effort == "routine" else 12):
            sd = int(rng.integers(0, 2**31))
            evals += 1
            try:
                r = fn_(sd)
            except AssertionError:
                continue
            if r is not None:
                findings.setdefault(r[0], Finding(r[0], r[1], {"kind": kind_, "seed": sd}, r[1], r[2]))
    for _ in range(40 if effort == "routine" else 400):
        evals += 1
        sd = int(rng.integers(0, 2**31))
        r = check_layer_updates(sd)
        if r is not None and r[0] not in findings:
            findings[r[0]] = Finding(r[0], r[1], {"kind": "layer-updates", "seed": sd}, r[1], r[2])
    hists = [h["desc"]["ops"] for h in hints if h.get("slice") == "snowpack.history" and h.get("desc")][:40]
    hists += gen_exhaustive(1, STARTS[:2]) + gen_random(rng, 60 if effort == "routine" else 600, 3, 10)
    for ops in hists:
        evals += 1
        r = check_history(ops)
        if r is not None:
            kind = r[0]
            small = minimise(ops, lambda c: (check_history(c) or ("",))[0] == kind)
            r = check_history(small)
            culprit = [t for t in small[-1].split()][0] if kind == "malformed" else r[1].split("'")[1].split()[0]
            if culprit in ("add", "iadd"):
                last = r[1].split("'")[1].split()
                culprit += ":" + "".join(c for c in (last[1][0] + last[2][0]))
            key = f"{kind}:{culprit}"
            if key not in findings or len(small) < len(findings[key].inp["ops"]):
                findings[key] = Finding(key, r[1], {"kind": "history", "ops": small}, r[1], r[2])
    for z in z_profiles(rng, 40 if effort == "routine" else 400):
        evals += 1
        exp = expected_z(z)
        got = impl_z(z)
        want = "ERR:SMRTError" if exp is None else " ".join(map(str, exp))
        if got != want:
            d = [b - a for a, b in zip(z, z[1:])]
            cls = "ascending" if all(v > 0 for v in d) else "descending" if all(v < 0 for v in d) else "non-monotone"
            key = "z:" + cls
            if key not in findings or len(z) < len(findings[key].inp["z"]):
                findings[key] = Finding(key, f"compute_thickness_from_z({z}) = {got}", {"kind": "z", "z": z}, got, want)
    for shape in MAKE_SHAPES:
        for _ in range(3 if effort == "routine" else 20):
            evals += 1
            sd = int(rng.integers(0, 2**31))
            r = check_make_values(sd, shape)
            if r is not None:
                findings.setdefault(r[0], Finding(r[0], r[1], {"kind": "make-values", "seed": sd, "shape": shape}, r[1], r[2]))
    for ctor in ("make_snowpack", "make_ice_column"):
        for _ in range(4 if effort == "routine" else 25):
            evals += 1
            sd = int(rng.integers(0, 2**31))
            r = check_surface(sd, ctor)
            if r is not None:
                findings.setdefault(r[0], Finding(r[0], r[1], {"kind": "surface", "seed": sd, "ctor": ctor}, r[1], r[2]))
    for ctor, names in (("make_snowpack", ("density", "temperature", "corr_length")), ("make_ice_column", ("temperature", "salinity", "corr_length"))):
        for which in names:
            for wrap in ("list", "ndarray", "series"):
                for delta in (1, -1):
                    evals += 1
                    r = check_length_mismatch(ctor, which, wrap, delta)
                    if r is not None:
                        findings.setdefault(r[0], Finding(r[0], r[1], {"kind": "length-mismatch", "ctor": ctor, "which": which, "wrap": wrap, "delta": delta},
                                                          r[1], r[2]))
    for (ths, m) in [([1, 2], 3), ([1, 2, 3], 5), ([1], 2)]:
        evals += 1
        r = check_make(len(ths), ths, m)
        if r is not None:
            findings.setdefault(r[0], Finding(r[0], r[1], {"kind": "make", "ths": ths, "iflen": m}, r[1], r[2]))
    return list(findings.values()), evals


def replay(inp, rp=None):
    if inp["kind"] in ("legacy-water", "deepcopy-independent"):
        r = (check_legacy_water if inp["kind"] == "legacy-water" else check_deepcopy_independent)(inp["seed"])
        return Finding("?", r[1], inp, r[1], r[2]) if r else None
    if inp["kind"] == "history":
        r = check_history(inp["ops"])
        return Finding("?", r[1], inp, r[1], r[2]) if r else None
    if inp["kind"] == "length-mismatch":
        r = check_length_mismatch(inp["ctor"], inp["which"], inp["wrap"], inp["delta"])
        return Finding("?", r[1], inp, r[1], r[2]) if r else None
    if inp["kind"] == "layer-updates":
        r = check_layer_updates(inp["seed"])
        return Finding("?", r[1], inp, r[1], r[2]) if r else None
    if inp["kind"] == "z":
        exp = expected_z(inp["z"]); got = impl_z(inp["z"])
        want = "ERR:SMRTError" if exp is None else " ".join(map(str, exp))
        return Finding("?", "compute_thickness_from_z", inp, got, want) if got != want else None
    if inp["kind"] == "surface":
        r = check_surface(inp["seed"], inp["ctor"])
        return Finding("?", r[1], inp, r[1], r[2]) if r else None
    if inp["kind"] == "make-values":
        r = check_make_values(inp["seed"], inp["shape"])
        return Finding("?", r[1], inp, r[1], r[2]) if r else None
    if inp["kind"] == "make":
        r = check_make(len(inp["ths"]), inp["ths"], inp["iflen"])
        return Finding("?", r[1], inp, r[1], r[2]) if r else None
