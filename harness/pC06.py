"""C06 — viewing-angle handling is exact, order-independent, never silently extrapolated."""
import math
import numpy as np
import common as C
from common import Corr, Tol, Finding, f2t, fs

PROP = "C06"
DRIVER = "C06"
LEAN_TARGETS = ["SmrtVerif.Props.C06", "SmrtVerif.Driver.C06"]
TRUSTED = ["correspondence harness harness/pC06.py and driver SmrtVerif/Driver/C06.lean",
           "scipy.interpolate.interp1d (linear, assume_sorted) computes slope*(x-x_lo)+y_lo on the bracket chosen by searchsorted",
           "np.argsort returns a sorting permutation; np.searchsorted on a sorted array counts the smaller elements",
           "real arithmetic in the theorems vs IEEE doubles in the code"]
ASSUMPTIONS = ["the post-processing of DORT.solve is exercised with the solver's stream solution replaced by synthetic stream values "
               "(DORT.dort patched on the instance); the end-to-end oracle uses the real solver"]
RULE = ("random descending stream cosines (3..40 streams) with random stream intensities; 1..12 requested angles in random order, "
        "including exact stream angles, nadir, angles above the first stream and beyond the last one; passive (V,H) and active (3x3) results; "
        "incident-stream selection for random incidence sets; distinct = distinct driver line")

TOL = Tol(1e-12, 1e-300)


class StubEM:
    ks = 0.1; ka = 0.01
    def effective_permittivity(self):
        return 1.5 + 0j


class StubLayer:
    temperature = 260.; thickness = 1.0


class StubSnowpack:
    substrate = None
    def __init__(self):
        self.layers = [StubLayer()]
        self.interfaces = [None]
    nlayer = 1
    layer_thicknesses = [1.0]


def run_solve(outmu, intensity, sensor):
    """the real DORT.solve with the stream solution replaced by (outmu, intensity)"""
    from smrt.rtsolver.dort import DORT
    from smrt.core.error import SMRTError
    s = DORT()
    s.dort = lambda m_max=0, special_return=False: (outmu.copy(), intensity.copy())
    try:
        res = s.solve(StubSnowpack(), [StubEM()], sensor, None)
    except SMRTError:
        return "ERR SMRTError", None
    except Exception as e:  # noqa
        return "ERR foreign:" + type(e).__name__, None
    return fs(np.asarray(res.data.values)), res


def gen_case(rng, active):
    n = int(rng.integers(3, 41))
    outmu = np.sort(rng.uniform(0.05, 0.995, n))[::-1].copy()
    k = int(rng.integers(1, 13))
    lo, hi = float(outmu[-1]), float(outmu[0])
    mus = []
    for _ in range(k):
        r = rng.random()
        if r < 0.15:
            mus.append(float(outmu[int(rng.integers(0, n))]))           # exactly a stream direction
        elif r < 0.25:
            mus.append(1.0)                                             # nadir
        elif r < 0.40:
            mus.append(float(rng.uniform(hi, 1.0)))                     # above the first stream
        elif r < 0.45:
            mus.append(float(rng.uniform(0.0, lo)))                     # beyond the last stream
        else:
            mus.append(float(rng.uniform(lo, hi)))
    # the sensor wants distinct angles in degrees
    thetas = sorted({round(math.degrees(math.acos(min(1.0, m))), 9) for m in mus})
    rng.shuffle(thetas)
    return n, outmu, list(thetas)


def correspond(ctx):
    from smrt import sensor_list
    co = Corr(PROP, DRIVER)
    rng = ctx.np
    for it in range(ctx.n(150, 1500)):
        active = it % 3 == 2
        n, outmu, thetas = gen_case(rng, active)
        k = len(thetas)
        if active:
            sensor = sensor_list.active(13e9, thetas)
            inten = rng.uniform(0, 1, (n * 3, 3))
            req = np.cos(sensor.theta)
            out, _ = run_solve(outmu, inten, sensor)
            co.add("angles.active", f"active {n} {k} {fs(outmu)} {fs(inten.reshape(n, 3, 3))} {fs(req)}", out, TOL,
                   desc={"n": n, "theta": thetas})
        else:
            sensor = sensor_list.passive(37e9, thetas)
            inten = rng.uniform(100, 270, n * 2)
            req = np.cos(sensor.theta)
            out, _ = run_solve(outmu, inten, sensor)
            iv, ih = inten[0::2], inten[1::2]
            co.add("angles.passive", f"passive {n} {k} {fs(outmu)} {fs(iv)} {fs(ih)} {fs(req)}", out, TOL,
                   desc={"n": n, "theta": thetas})
        co.note("error" if out.startswith("ERR") else ("nadir-inserted" if req.max() > outmu.max() else "inside"))
        co.note("k=%d" % k)
    # incident streams of the active mode
    from smrt.rtsolver.dort import DORT
    for _ in range(ctx.n(80, 800)):
        n = int(rng.integers(3, 41))
        outmu = np.sort(rng.uniform(0.05, 0.995, n))[::-1].copy()
        thetas = sorted({round(float(t), 6) for t in rng.uniform(0, 89, int(rng.integers(1, 8)))})
        if rng.random() < 0.3:
            thetas = sorted(set(thetas) | {round(math.degrees(math.acos(float(outmu[int(rng.integers(0, n))]))), 9)})
        sensor = sensor_list.active(13e9, thetas)
        s = DORT(); s.sensor = sensor

        class St:
            pass
        st = St(); st.outmu = outmu; st.outweight = np.full(n, 0.1)
        _, _, inc = s.prepare_intensity_array(st)
        mus = [math.cos(t) for t in sensor.theta_inc]
        co.add("dort.incident", f"streams {n} {fs(outmu)} {fs(mus)}", " ".join(str(int(i)) for i in inc), C.EXACT,
               desc={"n": n, "theta_inc": thetas})
    return co


# ---------------------------------------------------------------------------------------------
# the property on the real solver

def scenario(rng):
    from smrt import make_snowpack, make_model, sensor_list
    nl = int(rng.integers(1, 4))
    sp = make_snowpack(thickness=rng.uniform(0.1, 2, nl).round(3).tolist() , microstructure_model="exponential",
                       density=rng.uniform(150, 450, nl).round(1).tolist(), corr_length=rng.uniform(5e-5, 3e-4, nl).round(7).tolist(),
                       temperature=rng.uniform(240, 270, nl).round(2).tolist())
    nmax = int(rng.choice([8, 16, 32]))
    return sp, nmax


def run_real(sp, nmax, thetas, active, **options):
    from smrt import make_model, sensor_list
    from smrt.core.error import SMRTError
    m = make_model("iba", "dort", rtsolver_options=dict(n_max_stream=nmax, **options))
    sensor = sensor_list.active(13e9, thetas) if active else sensor_list.passive(37e9, thetas)
    try:
        return m.run(sensor, sp)
    except SMRTError:
        return "SMRTError"


def check_angle_array(sp_args, nmax, thetas, active):
    """angles handed over as a float ndarray that the caller goes on using (edits in place) after building the sensor: the sensor keeps
    the angles it was built with - coordinates and values are those of the same request made with a list"""
    from smrt import make_snowpack, make_model, sensor_list
    arr = np.array(thetas, dtype=float)
    sensor = sensor_list.active(13e9, arr) if active else sensor_list.passive(37e9, arr)
    arr += 5.0                                  # the caller's array moves on (a sweep)
    m = make_model("iba", "dort", rtsolver_options=dict(n_max_stream=nmax))
    got = m.run(sensor, make_snowpack(**sp_args))
    want = run_real(make_snowpack(**sp_args), nmax, list(thetas), active)
    if isinstance(want, str):
        return None
    dim = "theta_inc" if active else "theta"
    gc, wc = [float(v) for v in got.data.coords[dim].values], [float(v) for v in want.data.coords[dim].values]
    if gc != wc:
        return ("angle-array-aliased", f"sensor built from an ndarray of angles {list(thetas)} that is edited afterwards: result coordinates {gc}", gc, wc)
    if not np.array_equal(np.asarray(got.data.values), np.asarray(want.data.values), equal_nan=True):
        return ("angle-array-aliased", f"sensor built from an ndarray of angles {list(thetas)} that is edited afterwards: values differ from the list request",
                float(np.nanmax(np.abs(np.asarray(got.data.values) - np.asarray(want.data.values)))), "identical")
    return None


def check_sensor_pairs(sp_args, nmax, sets, active):
    """a list of sensors with different angle sets paired with a list of snowpacks: every value sits at its own sensor's angles"""
    from smrt import make_snowpack, make_model, sensor_list
    m = make_model("iba", "dort", rtsolver_options=dict(n_max_stream=nmax))
    sens = [(sensor_list.active(13e9, list(a)) if active else sensor_list.passive(37e9, list(a))) for a in sets]
    sps = [make_snowpack(**sp_args) for _ in sets]
    res = m.run(sens, sps)
    dim = "theta_inc" if active else "theta"
    for i, a in enumerate(sets):
        one = run_real(make_snowpack(**sp_args), nmax, list(a), active)
        for t in a:
            try:
                g = np.asarray(res.data.sel(snowpack=i).sel(**({"theta_inc": t, "theta": t} if active and "theta" in res.data.dims else {dim: t})).values)
            except KeyError:
                return ("sensor-pairs", f"sensors with angles {sets} paired with snowpacks: the angle {t} of sensor {i} is not in the result", "KeyError", "a value")
            w = np.asarray(one.data.sel(**({"theta_inc": t, "theta": t} if active and "theta" in one.data.dims else {dim: t})).values)
            if not np.allclose(g, w, rtol=1e-12, atol=0, equal_nan=True):
                return ("sensor-pairs", f"sensors with angles {sets} paired with snowpacks: value of sensor {i} at {t} deg differs from its own run",
                        float(np.nanmax(np.abs(g - w))), "equal")
    return None


def check_scenario(sp_args, nmax, thetas, active):
    """returns None or (key, what, observed, required)"""
    from smrt import make_snowpack
    sp = make_snowpack(**sp_args)
    res = run_real(sp, nmax, thetas, active)
    if isinstance(res, str):
        return ("unexpected-error", f"angles {thetas} inside the stream range raised {res}", res, "a value")
    dim = "theta_inc" if active else "theta"
    coords = [float(v) for v in res.data.coords[dim].values]
    if coords != [float(t) for t in thetas]:
        return ("coords", "result coordinates differ from the requested angles", coords, thetas)
    vals = np.asarray(res.data.values)
    if not np.all(np.isfinite(vals)):
        return ("nan", "non-finite value inside the stream range", vals.tolist(), "finite")
    for j, t in enumerate(thetas):
        single = run_real(sp, nmax, [t], active)
        sv = np.asarray(single.data.values)[0]
        ok = np.array_equal(sv, vals[j]) if not active else np.allclose(sv, vals[j], rtol=1e-9, atol=1e-300)
        if not ok:
            return ("companions", f"value at {t} deg depends on the other requested angles / their order",
                    vals[j].tolist(), sv.tolist())
    if not active and 0.0 in thetas:
        j = thetas.index(0.0)
        stream = np.asarray(res.other_data["stream_angles"].values)
        first = run_real(sp, nmax, [float(stream[0])], active)
        fv = np.asarray(first.data.values)[0]
        v, h = vals[j]
        if v != h:
            return ("nadir-vh", "V and H differ at nadir", [float(v), float(h)], "equal")
        if not (min(fv) - 1e-9 <= v <= max(fv) + 1e-9):
            return ("nadir-range", "nadir value outside the range spanned by the first direction", float(v), fv.tolist())
    return None


def sp_args_of(rng):
    nl = int(rng.integers(1, 4))
    return dict(thickness=[float(x) for x in rng.uniform(0.1, 2, nl).round(3)], microstructure_model="exponential",
                density=[float(x) for x in rng.uniform(150, 450, nl).round(1)],
                corr_length=[float(x) for x in rng.uniform(5e-5, 3e-4, nl).round(7)],
                temperature=[float(x) for x in rng.uniform(240, 270, nl).round(2)])


def last_stream_angle(sp_args, nmax, active):
    """all stream angles of the solver (a passive run at the same frequency reports every stream)"""
    from smrt import make_snowpack, make_model, sensor_list
    m = make_model("iba", "dort", rtsolver_options=dict(n_max_stream=nmax))
    res = m.run(sensor_list.passive(13e9 if active else 37e9, [10.]), make_snowpack(**sp_args))
    return float(np.asarray(res.other_data["stream_angles"].values).max()), np.asarray(res.other_data["stream_angles"].values)


def oracle(ctx, hints, effort):
    from smrt import make_snowpack
    rng = ctx.np
    findings, evals = {}, 0
    for it in range(3 if effort == "routine" else 25):
        active = it % 3 == 2
        spa = sp_args_of(rng); nmax = int(rng.choice([8, 16, 32]))
        last, streams = last_stream_angle(spa, nmax, active)
        k = int(rng.integers(2, 6))
        thetas = sorted({round(float(t), 4) for t in rng.uniform(0, last - 1e-6, k)})
        if rng.random() < 0.5:
            thetas.append(0.0)
        if rng.random() < 0.5 and len(streams) > 2:
            thetas.append(float(streams[int(rng.integers(0, len(streams) - 1))]))    # a stream angle (not the last one)
        thetas = list(dict.fromkeys(thetas))
        rng.shuffle(thetas)
        evals += 1 + len(thetas)
        r = check_scenario(spa, nmax, thetas, active)
        if r is not None:
            key = ("active:" if active else "passive:") + r[0]
            findings.setdefault(key, Finding(key, r[1], {"sp": spa, "nmax": nmax, "thetas": thetas, "active": active}, r[2], r[3]))
        if it < 2 or effort != "routine":
            evals += 2
            try:
                r = check_angle_array(spa, nmax, [t for t in thetas if t + 5.0 < last][:3] or thetas[:1], active)
            except Exception as e:  # noqa
                r = ("angle-array-aliased", f"sensor built from an ndarray of angles raises {type(e).__name__}: {str(e)[:100]}", type(e).__name__, "a result")
            if r is not None:
                key = ("active:" if active else "passive:") + r[0]
                findings.setdefault(key, Finding(key, r[1], {"sp": spa, "nmax": nmax, "thetas": thetas, "active": active, "kind": "array"}, r[2], r[3]))
            a1 = sorted(t for t in thetas if t > 0)[:2]
            if len(a1) == 2:
                sets = [a1, [a1[1], round(0.5 * (a1[1] + last), 3)]]
                evals += 3
                try:
                    r = check_sensor_pairs(spa, nmax, sets, active)
                except Exception as e:  # noqa
                    r = ("sensor-pairs", f"sensors with angles {sets} paired with snowpacks raise {type(e).__name__}: {str(e)[:100]}", type(e).__name__, "a result")
                if r is not None:
                    key = ("active:" if active else "passive:") + r[0]
                    findings.setdefault(key, Finding(key, r[1], {"sp": spa, "nmax": nmax, "sets": sets, "active": active, "kind": "pairs"}, r[2], r[3]))
        # beyond the last direction: SMRTError, never a number
        evals += 1
        res = run_real(make_snowpack(**spa), nmax, [min(89.9, last + 0.5)] + thetas[:1], active)
        if not isinstance(res, str):
            key = ("active:" if active else "passive:") + "extrapolated"
            findings.setdefault(key, Finding(key, "an angle beyond the last stream returned a value instead of SMRTError",
                                             {"sp": spa, "nmax": nmax, "thetas": [min(89.9, last + 0.5)] + thetas[:1], "active": active,
                                              "beyond": True}, np.asarray(res.data.values).tolist(), "SMRTError"))
        # ... also when numerical failures are to be reported as NaN (error_handling='nan'): a request outside the computed directions is
        # not a numerical failure
        evals += 1
        res = run_real(make_snowpack(**spa), nmax, [min(89.9, last + 0.5)] + thetas[:1], active, error_handling="nan")
        if not isinstance(res, str):
            key = ("active:" if active else "passive:") + "extrapolated:nan-mode"
            findings.setdefault(key, Finding(key, "with error_handling='nan' an angle beyond the last stream returned a result (NaN or a number) instead of "
                                             "SMRTError", {"sp": spa, "nmax": nmax, "thetas": [min(89.9, last + 0.5)] + thetas[:1], "active": active,
                                                           "beyond": True, "options": {"error_handling": "nan"}},
                                             np.asarray(res.data.values).tolist(), "SMRTError"))
    return list(findings.values()), evals


def replay(inp, rp=None):
    from smrt import make_snowpack
    if inp.get("beyond"):
        res = run_real(make_snowpack(**inp["sp"]), inp["nmax"], inp["thetas"], inp["active"], **inp.get("options", {}))
        return None if isinstance(res, str) else Finding("?", "extrapolated", inp, "value", "SMRTError")
    if inp.get("kind") == "array":
        last, _ = last_stream_angle(inp["sp"], inp["nmax"], inp["active"])
        r = check_angle_array(inp["sp"], inp["nmax"], [t for t in inp["thetas"] if t + 5.0 < last][:3] or inp["thetas"][:1], inp["active"])
    elif inp.get("kind") == "pairs":
        r = check_sensor_pairs(inp["sp"], inp["nmax"], inp["sets"], inp["active"])
    else:
        r = check_scenario(inp["sp"], inp["nmax"], inp["thetas"], inp["active"])
    return Finding("?", r[1], inp, r[2], r[3]) if r else None
