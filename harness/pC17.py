"""C17 — microstructure models are consistent Fourier pairs: correspondence harness and property oracle."""
import math
import numpy as np
import common as C
from common import Corr, Tol, Finding, f2t, fs

PROP = "C17"
DRIVER = "C17"
LEAN_TARGETS = ["SmrtVerif.Props.C17", "SmrtVerif.Driver.C17"]
TRUSTED = ["correspondence harness harness/pC17.py and driver SmrtVerif/Driver/C17.lean",
           "np.sinc, np.isclose(x, 0), np.interp, np.trapz, scipy.fftpack.dst(type=1) modelled by their documented contract",
           "scipy.special.erfinv: the cut level beta of the Gaussian random field is passed to the model as an input",
           "K**(3/2) modelled as K*sqrt(K); real arithmetic in the theorems vs IEEE doubles in the code (rounding not modelled)",
           "oracle: scipy.integrate.quad (QAWO/QAWF oscillatory weights) as the reference radial Fourier transform"]
ASSUMPTIONS = ["frac_volume in [0.02, 0.98], lengths in [10 um, 5 mm], stickiness in [0.1, inf], polydispersity in [0.5, 2], "
               "k in [0, 50/length], r in [0, 40 length] (the quantifier space of the property)",
               "homogeneous is outside the property's model list (its acf is identically 0); modelled and corresponded only",
               "sticky hard spheres have no real-space form, the Gaussian random field no spectral form: these pairs and the "
               "numerical sine-transform fall-backs are executable model + 5 % oracle, no theorem",
               "the numerically provided real-space form of (unified) sticky hard spheres is judged for frac_volume <= 0.6 on a grid of "
               "2001 lags over 40 radii (acf(0)/f(1-f) = 0.985..0.994 there; at f = 0.97, beyond any sphere packing, the truncated "
               "inverse transform is 20 % off: observation, not reported as a finding)"]
RULE = ("every microstructure class x random parameters from the quantifier space (edges included) x lags/wavenumbers "
        "(0, branch thresholds, log-uniform, uniform); one number per driver line; distinct = distinct (slice, input line)")

REL = 1e-10      # rounding / libm only
TINY = 1e-300
TOL_ANALYTIC = 1e-6      # DESIGN C17: analytic forms (oracle)
TOL_NUMERIC = 5e-2       # DESIGN C17: numerically provided forms


# ---------------------------------------------------------------------------------------------
# the implementation

CLASSES = {
    "exp": ("exponential", "Exponential", ["frac_volume", "corr_length"]),
    "sph": ("independent_sphere", "IndependentSphere", ["frac_volume", "radius"]),
    "shs": ("sticky_hard_spheres", "StickyHardSpheres", ["frac_volume", "radius", "stickiness"]),
    "ts": ("teubner_strey", "TeubnerStrey", ["frac_volume", "corr_length", "repeat_distance"]),
    "use": ("unified_scaled_exponential", "UnifiedScaledExponential", ["frac_volume", "porod_length", "polydispersity"]),
    "uts": ("unified_teubner_strey", "UnifiedTeubnerStrey", ["frac_volume", "porod_length", "polydispersity"]),
    "ushs": ("unified_sticky_hard_spheres", "UnifiedStickyHardSpheres", ["frac_volume", "porod_length", "polydispersity"]),
    "grf": ("gaussian_random_field", "GaussianRandomField", ["frac_volume", "corr_length", "repeat_distance"]),
    "hom": ("homogeneous", "Homogeneous", ["frac_volume"]),
    "samp": ("sampled_autocorrelation", "SampledAutocorrelation", ["frac_volume", "lag", "acf"]),
}


def mk(model, params, **extra):
    import importlib
    modname, clsname, names = CLASSES[model]
    cls = getattr(importlib.import_module("smrt.microstructure_model." + modname), clsname)
    d = dict(zip(names, params))
    d.update(extra)
    return cls(d)


def acf1(m, r):
    """real-space form at one lag (the methods want arrays)"""
    return float(np.asarray(m.autocorrelation_function(np.array([float(r)]))).ravel()[0])


def ft1(m, k):
    return float(np.asarray(m.ft_autocorrelation_function(np.array([float(k)]))).ravel()[0])


def tok(x):
    return "inf" if (isinstance(x, float) and math.isinf(x)) else f2t(x)


def toks(xs):
    return " ".join(tok(float(x)) for x in xs)


def impl(fn):
    try:
        return f2t(fn())
    except Exception as e:  # noqa
        return C.err_kind(e)


def one(co, slice_, sel, line, fn, rel=REL, scale=None, abs_=0.0, desc=None):
    """one number: `@sel line` on the driver vs fn() on the implementation, relative to max(|value|, scale)"""
    out = impl(fn)
    v = abs(C.t2f(out)) if C.is_ftok(out) else 0.0
    s = max(v if math.isfinite(v) else 0.0, scale or 0.0, TINY)
    co.add(slice_, f"@{sel} {line}", out, Tol(rel, abs_, scale=s), desc=desc)


# ---------------------------------------------------------------------------------------------
# generators (the quantifier space of the property)

def gen_f(rng):
    u = rng.random()
    if u < 0.12:
        return float(rng.choice([0.02, 0.5, 0.98, 0.1, 0.9]))
    return float(rng.uniform(0.02, 0.98))


def gen_len(rng):
    u = rng.random()
    if u < 0.08:
        return float(rng.choice([1e-5, 5e-3, 1e-4, 1e-3]))
    return float(10 ** rng.uniform(-5, math.log10(5e-3)))


def gen_tau(rng):
    u = rng.random()
    if u < 0.15:
        return math.inf
    if u < 0.25:
        return float(rng.choice([0.1, 0.2, 1000.0, 1.0]))
    return float(10 ** rng.uniform(-1, 2))


def gen_K(rng, regime=None):
    if regime == "lo":
        return float(rng.choice([0.5, 0.75])) if rng.random() < 0.15 else float(rng.uniform(0.5, 0.995))
    if regime == "hi":
        return float(rng.choice([2.0, 1.5])) if rng.random() < 0.15 else float(rng.uniform(1.005, 2.0))
    return float(rng.choice([0.5, 2.0, 1.25])) if rng.random() < 0.1 else float(rng.uniform(0.5, 2.0))


def gen_k(rng, length, small=1e-9):
    """wavenumbers in [0, 50/length]: 0, around the k -> 0 branch thresholds of the code, log-uniform, uniform"""
    u = rng.random()
    if u < 0.1:
        return 0.0
    if u < 0.25:
        return float(rng.choice([1e-9, 0.99e-8, 1.01e-8, 1e-6, 0.99e-3, 1.01e-3, 1e-2]) / length)
    if u < 0.55:
        return float(10 ** rng.uniform(math.log10(small), math.log10(50.0)) / length)
    return float(rng.uniform(0, 50.0) / length)


def gen_r(rng, length):
    u = rng.random()
    if u < 0.12:
        return 0.0
    if u < 0.4:
        return float(10 ** rng.uniform(-6, math.log10(40.0)) * length)
    if u < 0.5:
        return float(40.0 * length)
    return float(rng.uniform(0, 40.0) * length)


# ---------------------------------------------------------------------------------------------
# correspondence

def correspond(ctx):
    co = Corr(PROP, DRIVER)
    rng = ctx.np
    n = ctx.n(40, 400)

    # ---- exponential
    for _ in range(n):
        f, xi = gen_f(rng), gen_len(rng)
        r, k = gen_r(rng, xi), gen_k(rng, xi)
        m = mk("exp", [f, xi])
        line = f"exp {toks([f, xi, r, k])}"
        d = {"model": "exponential", "f": f, "xi": xi, "r": r, "k": k}
        one(co, "exponential.origin", 0, line, lambda: m.corr_func_at_origin, desc=d)
        one(co, "exponential.origin", 1, line, lambda: m.inv_slope_at_origin, desc=d)
        one(co, "exponential.acf", 2, line, lambda: acf1(m, r), desc=d)
        one(co, "exponential.ft", 3, line, lambda: ft1(m, k), desc=d)
        co.note("exponential k=0" if k == 0 else "exponential k>0")

    # ---- independent sphere
    for _ in range(n):
        f, R = gen_f(rng), gen_len(rng)
        r = gen_r(rng, R / 16)                    # half of the lags inside the support [0, 2R]
        if rng.random() < 0.1:
            r = 2 * R
        k = gen_k(rng, R)
        m = mk("sph", [f, R])
        X = R * k
        line = f"sph {toks([f, R, r, k])}"
        d = {"model": "independent_sphere", "f": f, "R": R, "r": r, "k": k}
        one(co, "sphere.origin", 0, line, lambda: m.corr_func_at_origin, desc=d)
        one(co, "sphere.origin", 1, line, lambda: m.inv_slope_at_origin, desc=d)
        if r <= 2 * R:
            # the cubic vanishes at 2R: compared relative to its value at the origin
            one(co, "sphere.acf", 2, line, lambda: acf1(m, r), scale=1e-3 * f * (1 - f), desc=d)
            co.note("sphere r<=2R")
        else:
            # beyond the support the property requires 0; the code leaves np.empty_like memory there
            one(co, "sphere.acf.beyond2R", 2, line, lambda: acf1(m, r), desc=d)
            co.note("sphere r>2R")
        # (sin X - X cos X)/X^3 is evaluated with cancellation: abs. error of the squared term ~ 18 eps (1+X)^2 / X^6
        vol = f * (1 - f) * 4 / 3 * math.pi * R ** 3
        a = vol * min(100.0, 1e-14 * (1 + X) ** 2 / X ** 6) if X > 1e-8 else 0.0
        one(co, "sphere.ft", 3, line, lambda: ft1(m, k), abs_=a, desc=d)
        co.note("sphere X<=1e-8" if X <= 1e-8 else ("sphere X<1e-3" if X < 1e-3 else "sphere X>=1e-3"))

    # ---- sticky hard spheres (spectral form only)
    for _ in range(n):
        f, R, tau = gen_f(rng), gen_len(rng), gen_tau(rng)
        k = gen_k(rng, R, small=1e-5)
        X = R * k
        explicit = rng.random() < 0.9
        m = mk("shs", [f, R, tau]) if explicit else mk("shs", [f, R])
        if not explicit:
            tau = 1000.0
        line = f"shs {toks([f, R, tau, k])}"
        d = {"model": "sticky_hard_spheres", "f": f, "R": R, "tau": tau, "k": k}
        one(co, "shs.origin", 0, line, lambda: m.corr_func_at_origin, desc=d)
        one(co, "shs.origin", 1, line, lambda: m.inv_slope_at_origin, desc=d)
        # sinc - cos is evaluated with cancellation for small X (condition number 3/X^2)
        rel = 1e-9 + (3e-15 / X ** 2 if X > 1e-3 else 0.0)
        one(co, "shs.ft", 3, line, lambda: ft1(m, k), rel=rel, desc=d)
        co.note("shs tau=inf" if math.isinf(tau) else "shs tau finite")
        co.note("shs X<=1e-3" if X <= 1e-3 else "shs X>1e-3")

    # ---- Teubner-Strey
    for _ in range(n):
        f, xi = gen_f(rng), gen_len(rng)
        dd = float(np.clip(xi * 10 ** rng.uniform(-0.7, 1.3), 1e-5, 5e-3))
        r, k = gen_r(rng, xi), gen_k(rng, xi)
        m = mk("ts", [f, xi, dd])
        line = f"ts {toks([f, xi, dd, r, k])}"
        d = {"model": "teubner_strey", "f": f, "xi": xi, "d": dd, "r": r, "k": k}
        one(co, "teubner_strey.origin", 0, line, lambda: m.corr_func_at_origin, desc=d)
        # near the zeros of sinc only the envelope scale is meaningful
        one(co, "teubner_strey.acf", 1, line, lambda: acf1(m, r), scale=1e-2 * f * (1 - f) * math.exp(-r / xi), desc=d)
        one(co, "teubner_strey.ft", 2, line, lambda: ft1(m, k), desc=d)

    # ---- unified scaled exponential
    for _ in range(n):
        f, lp, K = gen_f(rng), gen_len(rng), gen_K(rng)
        xi = K * lp
        r, k = gen_r(rng, xi), gen_k(rng, xi)
        m = mk("use", [f, lp, K])
        line = f"use {toks([f, lp, K, r, k])}"
        d = {"model": "unified_scaled_exponential", "f": f, "lp": lp, "K": K, "r": r, "k": k}
        one(co, "unified_scaled_exponential.origin", 0, line, lambda: m.corr_func_at_origin, desc=d)
        one(co, "unified_scaled_exponential.origin", 1, line, lambda: m.corr_length, desc=d)
        one(co, "unified_scaled_exponential.acf", 2, line, lambda: acf1(m, r), desc=d)
        one(co, "unified_scaled_exponential.ft", 3, line, lambda: ft1(m, k), desc=d)

    # ---- unified Teubner-Strey, both regimes
    for i in range(n + n // 2):
        regime = "lo" if i % 2 == 0 else "hi"
        f, lp, K = gen_f(rng), gen_len(rng), gen_K(rng, regime)
        if i >= n + n // 2 - 2:
            regime, K = "one", 1.0
        m = mk("uts", [f, lp, K])
        z1, z2 = float(m.zeta1), float(m.zeta2)
        ell = lp if regime == "lo" else z2
        r, k = gen_r(rng, ell), gen_k(rng, ell)
        line = f"uts {toks([f, lp, K, r, k])}"
        d = {"model": "unified_teubner_strey", "f": f, "lp": lp, "K": K, "r": r, "k": k}
        sl = "unified_teubner_strey." + regime
        one(co, sl + ".origin", 0, line, lambda: m.corr_func_at_origin, desc=d)
        # zeta: 1 - 1/K32 loses digits near K = 1 (K*sqrt(K) vs pow(K, 1.5) differ by an ulp)
        relz = 1e-10 + 1e-15 / abs(K - 1) if K != 1 else 1e-10
        one(co, sl + ".zeta", 1, line, lambda: z1, rel=relz, desc=d)
        one(co, sl + ".zeta", 2, line, lambda: z2, rel=relz, desc=d)
        if regime == "lo":
            one(co, sl + ".acf", 3, line, lambda: acf1(m, r), rel=relz, scale=1e-2 * f * (1 - f) * math.exp(-r / z1), desc=d)
        elif regime == "hi":
            den = r * (1 / z1 - 1 / z2)       # difference of two exponentials over den: condition number ~ 1/den
            rel = 10 * relz + (2e-15 / den if den > 1e-15 else 0.0)
            one(co, sl + ".acf", 3, line, lambda: acf1(m, r), rel=min(rel, 1.0), desc=d)
            co.note("uts hi guard branch" if den <= 1e-15 else "uts hi main branch")
        else:
            one(co, sl + ".acf", 3, line, lambda: acf1(m, r), desc=d)
        one(co, sl + ".ft", 4, line, lambda: ft1(m, k), rel=10 * relz, desc=d)
        co.note("uts " + regime)

    # ---- unified sticky hard spheres
    for _ in range(n):
        f, lp, K = gen_f(rng), gen_len(rng), gen_K(rng)
        m = mk("ushs", [f, lp, K])
        R = float(m.radius)
        k = gen_k(rng, R, small=1e-5)
        X = R * k
        line = f"ushs {toks([f, lp, K, k])}"
        d = {"model": "unified_sticky_hard_spheres", "f": f, "lp": lp, "K": K, "k": k}
        one(co, "unified_shs.origin", 0, line, lambda: m.corr_func_at_origin, desc=d)
        one(co, "unified_shs.params", 1, line, lambda: m.radius, desc=d)
        one(co, "unified_shs.params", 2, line, lambda: m.t, rel=1e-9, scale=1.0 / (f * (1 - f)), desc=d)
        one(co, "unified_shs.params", 3, line, lambda: m.compute_stickiness(), rel=1e-9, scale=1.0, desc=d)
        rel = 1e-9 + (3e-15 / X ** 2 if X > 1e-3 else 0.0)
        one(co, "unified_shs.ft", 4, line, lambda: ft1(m, k), rel=rel, desc=d)
        co.note("ushs X<=1e-3" if X <= 1e-3 else "ushs X>1e-3")

    # ---- sampled autocorrelation (np.interp; lag 0, nodes, between nodes, beyond the last node)
    for _ in range(n):
        f = gen_f(rng)
        xi = gen_len(rng)
        nn = int(rng.integers(2, 12))
        lag = np.cumsum(rng.uniform(0.05, 1.0, nn)) * xi
        if rng.random() < 0.8:
            lag = lag - lag[0]
        acf = f * (1 - f) * np.exp(-lag / xi) * rng.uniform(0.9, 1.1, nn)
        if rng.random() < 0.7:
            acf[0] = f * (1 - f)
        rs = sorted({0.0, float(lag[int(rng.integers(0, nn))]), float(rng.uniform(0, lag[-1])), float(rng.uniform(0, lag[-1])),
                     float(lag[-1] * 1.5)})
        m = mk("samp", [f, lag, acf])
        vals = np.asarray(m.autocorrelation_function(np.array(rs)))
        for j, r in enumerate(rs):
            line = f"samp {f2t(f)} {nn} {fs(lag)} {fs(acf)} {toks(rs)}"
            one(co, "sampled.acf", j, line, lambda: float(vals[j]), rel=1e-12,
                desc={"model": "sampled_autocorrelation", "f": f, "lag": lag.tolist(), "acf": acf.tolist(), "r": r})
        co.note("sampled lag0=0" if lag[0] == 0 else "sampled lag0>0")

    # ---- homogeneous
    for _ in range(max(4, n // 10)):
        f = gen_f(rng)
        r, k = gen_r(rng, 1e-4), gen_k(rng, 1e-4)
        m = mk("hom", [f])
        line = f"hom {toks([f, r, k])}"
        for j, fn in enumerate([lambda: m.corr_func_at_origin, lambda: m.inv_slope_at_origin,
                                lambda: m.autocorrelation_function(np.array([r])), lambda: m.ft_autocorrelation_function(np.array([k]))]):
            one(co, "homogeneous", j, line, lambda: float(fn()))

    # ---- Gaussian random field: the real-space form is a quadrature in the code; the model integrates the same
    # integrand accurately (substitution t*psi = sin(theta)), compared at the 5 % of f(1-f) the property grants a
    # numerically provided form.  beta (erfinv) is passed in.
    from scipy.special import erfinv
    for _ in range(n // 2):
        f, xi = gen_f(rng), gen_len(rng)
        dd = float(np.clip(xi * 10 ** rng.uniform(-0.3, 1.3), 1e-5, 5e-3))
        r = gen_r(rng, xi / 4)
        beta = float(np.sqrt(2) * erfinv(2 * (1 - f) - 1))
        m = mk("grf", [f, xi, dd])
        line = f"grf {toks([f, beta, xi, dd, r])}"
        d = {"model": "gaussian_random_field", "f": f, "xi": xi, "d": dd, "r": r}
        one(co, "grf.origin", 0, line, lambda: m.corr_func_at_origin, desc=d)
        one(co, "grf.origin", 1, line, lambda: m.inv_slope_at_origin, rel=1e-9, desc=d)
        one(co, "grf.acf", 2, line, lambda: acf1(m, r), rel=TOL_NUMERIC, scale=f * (1 - f), desc=d)
        co.note("grf r=0" if r == 0 else "grf r>0")

    # ---- inverted_medium()
    for _ in range(n // 2):
        f, ell = gen_f(rng), gen_len(rng)
        K, tau = gen_K(rng), gen_tau(rng)
        dd = float(np.clip(ell * 10 ** rng.uniform(-0.7, 1.3), 1e-5, 5e-3))
        r, k = gen_r(rng, ell / 8), gen_k(rng, ell, small=1e-5)
        for name, params, line, has_acf in [
                ("exp", [f, ell], f"inv exp {toks([f, ell, r, k])}", True),
                ("sph", [f, ell], f"inv sph {toks([f, ell, min(r, 2 * ell), k])}", True),
                ("ts", [f, ell, dd], f"inv ts {toks([f, ell, dd, r, k])}", True),
                ("shs", [f, ell, tau], f"inv shs {toks([f, ell, tau, k])}", False),
                ("uts", [f, ell, K], f"inv uts {toks([f, ell, K, r, k])}", True),
                ("use", [f, ell, K], f"inv use {toks([f, ell, K, k])}", False),
                ("ushs", [f, ell, K], f"inv ushs {toks([f, ell, K, k])}", False)]:
            if name == "uts" and abs(K - 1) < 5e-3:
                continue
            m = mk(name, params).inverted_medium()
            rr = min(r, 2 * ell) if name == "sph" else r
            sl = "inverted." + name
            one(co, sl, 0, line, lambda: m.frac_volume)
            one(co, sl, 1, line, lambda: m.corr_func_at_origin)
            j = 2
            if has_acf:
                one(co, sl, j, line, lambda: acf1(m, rr), rel=1e-8, scale=1e-3 * f * (1 - f) * math.exp(-rr / ell))
                j += 1
            X = ell * k
            rel = 1e-8 + (3e-15 / X ** 2 if (name in ("shs", "ushs", "sph") and X > 1e-8) else 0.0)
            if name == "sph" and X < 1e-2 and X > 1e-8:
                continue
            one(co, sl, j, line, lambda: ft1(m, k), rel=min(rel, 1.0))

    # ---- numerical sine-transform fall-backs (N = 4096 is fixed in the code)
    for _ in range(ctx.n(6, 40)):
        f, xi = gen_f(rng), gen_len(rng)
        m = mk("exp", [f, xi], ft_numerical=True)
        ft0 = f * (1 - f) * 8 * math.pi * xi ** 3
        for k in (0.0, float(rng.uniform(0, 5) / xi), float(rng.uniform(5, 60) / xi), float(70.0 / xi)):
            one(co, "fallback.ft_fft", 0, f"fft 4096 {f2t(k)} exp {toks([f, xi])}", lambda: ft1(m, k), rel=1e-9, scale=1e-3 * ft0,
                desc={"model": "exponential ft_numerical", "f": f, "xi": xi, "k": k})
    for _ in range(ctx.n(3, 20)):
        f, xi = gen_f(rng), gen_len(rng)
        dd = float(np.clip(xi * 10 ** rng.uniform(0, 1.3), 1e-5, 5e-3))
        beta = float(np.sqrt(2) * erfinv(2 * (1 - f) - 1))
        m = mk("grf", [f, xi, dd])
        ft0 = ft1(m, 0.0)
        for k in (0.0, float(rng.uniform(0, 5) / xi)):
            # model acf = accurate quadrature, code acf = its own trapezoid: 5 % of ft(0) (the mechanics of the transform are
            # compared at 1e-9 on the exponential model above)
            one(co, "fallback.ft_fft.grf", 0, f"fft 4096 {f2t(k)} grf {toks([f, beta, xi, dd])}", lambda: ft1(m, k), rel=2 * TOL_NUMERIC, scale=abs(ft0),
                desc={"model": "gaussian_random_field ft (numerical)", "f": f, "xi": xi, "d": dd, "k": k})
    for _ in range(ctx.n(6, 40)):
        f, R, tau = gen_f(rng), gen_len(rng), gen_tau(rng)
        npts = int(rng.integers(200, 1200))
        rmax = float(rng.uniform(8, 40)) * R
        start0 = rng.random() < 0.7
        rgrid = np.linspace(0, rmax, npts) if start0 else np.linspace(rmax / npts, rmax, npts)
        m = mk("shs", [f, R, tau])
        vals = np.asarray(m.autocorrelation_function(rgrid))
        spacing = float(rgrid[1] if np.isclose(rgrid[0], 0) else rgrid[0])
        nop = float((np.max(rgrid) - np.min(rgrid)) / spacing)
        for j in sorted({0, 1, int(rng.integers(0, npts)), int(rng.integers(0, npts // 8 + 1))}):
            one(co, "fallback.acf_invfft", 0, f"invfft {f2t(spacing)} {f2t(nop)} {f2t(rgrid[j])} shs {toks([f, R, tau])}",
                lambda: float(vals[j]), rel=1e-8, scale=1e-3 * f * (1 - f),
                desc={"model": "sticky_hard_spheres acf (numerical)", "f": f, "R": R, "tau": tau, "r": float(rgrid[j]), "npts": npts})
        co.note("invfft grid from 0" if start0 else "invfft grid from r[0]>0")
    return co


# ---------------------------------------------------------------------------------------------
# the property itself on the implementation

ANALYTIC_PAIRS = ("exp", "sph", "ts", "use", "uts")


def length_of(model, params, m=None):
    """the length that scales lags and wavenumbers of the property's quantifier"""
    if model in ("exp", "sph", "shs", "ts", "grf"):
        return params[1]
    if model == "use":
        return params[1] * params[2]
    if model == "uts":
        return float(max(m.zeta1, m.zeta2)) if m is not None else params[1]
    if model == "ushs":
        return 0.75 * params[1] / (1 - params[0])
    return 1e-4


def radial_ft(m, k, rmax=None):
    """(4 pi / k) int_0^inf r C(r) sin(k r) dr  (k = 0: 4 pi int r^2 C) by adaptive quadrature"""
    from scipy.integrate import quad
    C_ = lambda r: acf1(m, r)
    if k == 0:
        if rmax is None:
            v, _ = quad(lambda r: r * r * C_(r), 0, np.inf, epsabs=0, epsrel=1e-11, limit=400)
        else:
            v, _ = quad(lambda r: r * r * C_(r), 0, rmax, epsabs=0, epsrel=1e-12, limit=400)
        return 4 * math.pi * v
    if rmax is None:
        v, _ = quad(lambda r: r * C_(r), 0, np.inf, weight="sin", wvar=k, epsabs=1e-300, limit=1000, limlst=200)
    else:
        v, _ = quad(lambda r: r * C_(r), 0, rmax, weight="sin", wvar=k, epsabs=0, epsrel=1e-12, limit=400)
    return 4 * math.pi / k * v


def radial_ft_scaled(m, k, ell, rmax=None):
    """the same in units of `ell` (keeps the quadrature away from denormal absolute tolerances)"""
    from scipy.integrate import quad
    C_ = lambda x: acf1(m, x * ell)
    kk = k * ell
    up = np.inf if rmax is None else rmax / ell
    if kk == 0:
        v, _ = quad(lambda x: x * x * C_(x), 0, up, epsabs=1e-14, epsrel=1e-12, limit=400)
        return 4 * math.pi * v * ell ** 3
    if rmax is None:
        v, _ = quad(lambda x: x * C_(x), 0, up, weight="sin", wvar=kk, epsabs=1e-14, limit=1000, limlst=400)
    else:
        v, _ = quad(lambda x: x * C_(x), 0, up, weight="sin", wvar=kk, epsabs=1e-14, epsrel=1e-12, limit=400)
    return 4 * math.pi / kk * v * ell ** 3


def radial_inv_ft_scaled(m, r, ell, kmax):
    """C(r) = 1/(2 pi^2 r) int_0^inf k Chat(k) sin(k r) dk on [0, kmax/ell]"""
    from scipy.integrate import quad
    F_ = lambda x: ft1(m, x / ell) / ell ** 3
    x = r / ell
    if x == 0:
        v, _ = quad(lambda q: q * q * F_(q), 0, kmax, epsabs=1e-12, epsrel=1e-10, limit=2000)
        return v / (2 * math.pi ** 2)
    v, _ = quad(lambda q: q * F_(q), 0, kmax, weight="sin", wvar=x, epsabs=1e-12, epsrel=1e-10, limit=2000)
    return v / (2 * math.pi ** 2 * x)


def poison(n, value):
    """leave a freed block of n doubles filled with `value` for the next np.empty_like of that size"""
    for _ in range(3):
        t = np.full(n, value)
        del t


def check(inp):
    """evaluate one instance of the property on the implementation.
    returns None (holds) or (key, what, observed, required)"""
    c, model = inp["check"], inp["model"]
    params = inp["params"]
    if model == "samp":
        params = [params[0], np.array(params[1]), np.array(params[2])]
    f = params[0]
    c0 = f * (1 - f)

    if c == "acf-sequence":
        # the real-space form is a function of the lags it is given: after an evaluation on one grid, the values on another grid of the same
        # size and end points (other points in between) are those a fresh instance gives
        ell = length_of(model, params)
        a = np.linspace(0.0, 6 * ell, 64)
        b = a[-1] * (a / a[-1]) ** 2
        m = mk(model, params)
        m.autocorrelation_function(a.copy())
        got = np.asarray(m.autocorrelation_function(b.copy()), dtype=float)
        want = np.asarray(mk(model, params).autocorrelation_function(b.copy()), dtype=float)
        dev = float(np.max(np.abs(got - want)))
        if not dev <= 1e-12 * c0:
            j = int(np.argmax(np.abs(got - want)))
            return (CLASSES[model][0] + ":acf-sequence", f"{CLASSES[model][0]}{tuple(params)}: after an evaluation on a uniform grid of 64 lags, the value at lag "
                    f"{b[j]:.4e} of a quadratic grid with the same ends is {got[j]!r}; a fresh instance gives {want[j]!r}", dev, "<= 1e-12 f(1-f)")
        return None

    if c == "reuse":
        # a layer whose density is updated in place (Layer.update writes microstructure.frac_volume): the numerically provided spectral
        # form must be that of the *current* parameters, i.e. equal the one of a layer built afresh with them
        from smrt import make_snow_layer
        from smrt.core.globalconstants import DENSITY_OF_ICE
        names = CLASSES[model][2][1:]
        kw = dict(zip(names, params[1:]))
        if inp.get("ft_numerical"):
            kw["ft_numerical"] = True
        f2 = inp["f2"]
        ell = length_of(model, params)
        k = np.array([0.0, 0.3, 1.0, 2.0]) / ell
        lay = make_snow_layer(1.0, CLASSES[model][0], density=f * DENSITY_OF_ICE, temperature=260, **kw)
        first = np.asarray(lay.microstructure.ft_autocorrelation_function(k), dtype=float)
        lay.update(density=f2 * DENSITY_OF_ICE)
        got = np.asarray(lay.microstructure.ft_autocorrelation_function(k), dtype=float)
        fresh = make_snow_layer(1.0, CLASSES[model][0], density=f2 * DENSITY_OF_ICE, temperature=260, **kw)
        want = np.asarray(fresh.microstructure.ft_autocorrelation_function(k), dtype=float)
        dev = float(np.max(np.abs(got - want) / np.maximum(np.abs(want), 1e-300)))
        if not dev <= 1e-9:
            return (CLASSES[model][0] + ":ft-after-update", f"{CLASSES[model][0]}: after layer.update(density=...) the spectral form is not the one of "
                    f"a fresh layer with the same parameters (f {f} -> {f2})", dev, "relative deviation <= 1e-9")
        return None

    if c == "origin":
        m = mk(model, params)
        got = acf1(m, 0.0)
        numeric = model == "grf"
        tol = TOL_NUMERIC if numeric else 1e-9
        if model == "samp":
            c0 = float(params[2][0])
        if not abs(got - c0) <= tol * c0 or not abs(m.corr_func_at_origin - f * (1 - f)) <= 1e-12:
            key = {"grf": "gaussian_random_field:acf-origin"}.get(model, CLASSES[model][0] + ":acf-origin")
            return (key, f"{CLASSES[model][0]}: autocorrelation at zero lag differs from f(1-f)", got / c0, f"acf(0)/f(1-f) = 1 within {tol:g}")
        return None

    if c == "origin-numeric":          # models without a real-space form: the inverse sine transform on the user's grid
        m = mk(model, params)
        ell = length_of(model, params, m)
        r = np.linspace(0, 40 * ell, inp.get("npts", 2001))
        v = np.asarray(m.autocorrelation_function(r))
        if not abs(v[0] - c0) <= TOL_NUMERIC * c0 or not abs(v[-1]) <= TOL_NUMERIC * c0:
            return (CLASSES[model][0] + ":acf-numeric", f"{CLASSES[model][0]}: numerically provided autocorrelation at lag 0 / 40 lengths",
                    [float(v[0] / c0), float(v[-1] / c0)], f"[1, 0] within {TOL_NUMERIC}")
        return None

    if c == "origin-numeric-nonuniform":
        # the lags are the user's: dense near the origin, sparse in the tail - same function as on a regular grid
        m = mk(model, params)
        ell = length_of(model, params, m)
        r = np.concatenate([np.linspace(0, ell / 2, 51), np.linspace(ell / 2, 40 * ell, 80)[1:]])
        v = np.asarray(m.autocorrelation_function(r), dtype=float)
        ru = np.linspace(0, 40 * ell, 4001)
        vu = np.interp(r, ru, np.asarray(m.autocorrelation_function(ru), dtype=float))
        dev = float(np.max(np.abs(v - vu)))
        if not abs(v[0] - c0) <= TOL_NUMERIC * c0 or not abs(v[-1]) <= TOL_NUMERIC * c0 or not dev <= TOL_NUMERIC * c0:
            return (CLASSES[model][0] + ":acf-numeric", f"{CLASSES[model][0]}: numerically provided autocorrelation on a non-uniform lag grid "
                    f"(lag 0, lag 40 lengths, largest deviation from the regular-grid values)", [float(v[0] / c0), float(v[-1] / c0), dev / c0],
                    f"[1, 0, 0] within {TOL_NUMERIC}")
        return None

    if c == "args-untouched":
        # the wavenumbers / lags handed in are inputs: the same array evaluated again gives the same values
        m = mk(model, params)
        ell = length_of(model, params, m)
        out = []
        for nm, arr in (("ft_autocorrelation_function", np.linspace(0.0, 20.0, 41) / ell), ("autocorrelation_function", np.linspace(0.0, 10.0, 41) * ell)):
            fn = getattr(m, nm, None)
            if fn is None:
                continue
            keep_ = arr.copy()
            try:
                first = np.array(fn(arr), dtype=float)
            except (AttributeError, NotImplementedError):
                continue
            if not np.array_equal(arr, keep_):
                return (CLASSES[model][0] + ":argument-modified", f"{CLASSES[model][0]}.{nm} overwrote the array it was given",
                        [float(arr[1]), float(keep_[1])], "argument unchanged")
            second = np.array(fn(arr), dtype=float)
            if not np.array_equal(first, second, equal_nan=True):
                out.append(nm)
        if out:
            return (CLASSES[model][0] + ":argument-modified", f"{CLASSES[model][0]}: {out} evaluated twice on the same array differ", out, "equal")
        return None

    if c == "tail":
        m = mk(model, params)
        ell = length_of(model, params, m)
        r = inp.get("r_over_len", 40.0) * ell
        if model == "sph":
            # zero beyond the diameter, whatever the allocator hands out
            out = []
            for val in (7.0, -3.0):
                rr = np.array([0.5 * params[1], r, r * 1.5, r * 2])
                poison(len(rr), val)
                out.append(np.asarray(m.autocorrelation_function(rr))[1:].tolist())
            bad = max(abs(x) for o in out for x in o) > 1e-12 * c0 or out[0] != out[1]
            if bad:
                return ("independent_sphere:acf-beyond-2R",
                        "independent_sphere: autocorrelation beyond 2R is uninitialised memory (np.empty_like), value depends on what was freed before",
                        out, "0 at every lag > 2R, and the same on every call")
            return None
        got = acf1(m, r)
        lim = TOL_NUMERIC if model == "grf" else 1e-3
        if not abs(got) <= lim * c0:
            key = CLASSES[model][0] + (":acf" if model == "use" else ":acf-tail")
            if model == "uts" and params[2] == 1.0:
                key = "unified_teubner_strey:acf-K1"
            return (key, f"{CLASSES[model][0]}: autocorrelation does not vanish at {inp.get('r_over_len', 40.0):g} lengths", got / c0,
                    f"|acf|/f(1-f) <= {lim:g}")
        return None

    if c == "nonneg":
        m = mk(model, params)
        ell = length_of(model, params, m)
        ks = np.concatenate([[0.0], np.logspace(-6, math.log10(50), 200) / ell, np.linspace(0, 50, 401) / ell])
        v = np.asarray(m.ft_autocorrelation_function(ks))
        if not (np.all(np.isfinite(v)) and np.all(v >= 0)):
            i = int(np.argmin(np.where(np.isfinite(v), v, -np.inf)))
            return (CLASSES[model][0] + ":ft-negative", f"{CLASSES[model][0]}: spectrum negative or not finite", [float(ks[i]), float(v[i])], "ft(k) >= 0")
        return None

    if c == "pair":
        m = mk(model, params)
        ell = length_of(model, params, m)
        k = inp["k_len"] / ell
        rmax = 2 * params[1] if model == "sph" else None
        want = ft1(m, k)
        ref0 = ft1(m, 0.0)
        got = radial_ft_scaled(m, k, ell, rmax)
        if not abs(got - want) <= TOL_ANALYTIC * abs(want) + 1e-9 * abs(ref0):
            key = CLASSES[model][0] + (":acf" if model == "use" else ":pair")
            if model == "uts" and params[2] == 1.0:
                key = "unified_teubner_strey:acf-K1"
            if model == "sph" and 0 < inp["k_len"] < 1e-3:
                key = "independent_sphere:ft-small-k"
            return (key, f"{CLASSES[model][0]}: spectral form is not the radial Fourier transform of the real-space form at k*length = {inp['k_len']:g}",
                    {"ft_autocorrelation_function": want, "transform_of_autocorrelation_function": got}, f"equal within {TOL_ANALYTIC:g} relative")
        return None

    if c == "ft-continuity":           # the k -> 0 branch of the analytic spectra joins the k = 0 value
        m = mk(model, params)
        ell = length_of(model, params, m)
        k = inp["k_len"] / ell
        a, b = ft1(m, k), ft1(m, 0.0)
        # every spectrum here is 1 - O((k l)^2) near 0: allow 10 (k l)^2 + 1e-6
        if not abs(a - b) <= (10 * inp["k_len"] ** 2 + TOL_ANALYTIC) * abs(b):
            key = "independent_sphere:ft-small-k" if model == "sph" else CLASSES[model][0] + ":ft-small-k"
            return (key, f"{CLASSES[model][0]}: spectrum at k*length = {inp['k_len']:g} departs from its k = 0 value (cancellation in the k > 0 branch)",
                    a / b, f"ft(k)/ft(0) = 1 within {10 * inp['k_len'] ** 2 + TOL_ANALYTIC:.2g}")
        return None

    if c == "pair-numeric-ft":         # no analytic spectrum: the numerical one against quadrature of the real-space form
        m = mk(model, params)
        ell = length_of(model, params, m)
        k = inp["k_len"] / ell
        try:
            want = ft1(m, k)
            ref0 = ft1(m, 0.0)
        except AttributeError as e:
            return (CLASSES[model][0] + ":ft-unavailable", f"{CLASSES[model][0]}: has no analytic spectrum and the numerical fall-back raises AttributeError ({e})",
                    "AttributeError", "a spectrum consistent with the real-space form (5 %)")
        got = radial_ft_scaled(m, k, ell, inp.get("rmax_len", 60.0) * ell)
        if not abs(got - want) <= TOL_NUMERIC * abs(ref0):
            return (CLASSES[model][0] + ":ft-numeric", f"{CLASSES[model][0]}: numerically provided spectrum inconsistent with the real-space form",
                    {"ft": want, "transform_of_acf": got, "ft(0)": ref0}, f"equal within {TOL_NUMERIC} ft(0)")
        return None

    if c == "pair-numeric-acf":        # no analytic real-space form: invfft against quadrature of the spectrum
        m = mk(model, params)
        ell = length_of(model, params, m)
        rgrid = np.linspace(0, 40 * ell, inp.get("npts", 2001))
        j = inp["j"]
        want = float(np.asarray(m.autocorrelation_function(rgrid))[j])
        got = radial_inv_ft_scaled(m, float(rgrid[j]), ell, inp.get("kmax_len", 400.0))
        if not abs(got - want) <= TOL_NUMERIC * c0:
            return (CLASSES[model][0] + ":acf-numeric", f"{CLASSES[model][0]}: numerically provided autocorrelation inconsistent with the spectrum",
                    {"acf": want, "inverse_transform_of_ft": got, "f(1-f)": c0}, f"equal within {TOL_NUMERIC} f(1-f)")
        return None

    if c == "mapping":
        m = mk(model, params)
        f, lp, K = params
        if model == "use":
            ref = mk("exp", [f, K * lp]); ell = K * lp
        elif model == "uts":
            if K < 1:
                ref = mk("ts", [f, float(m.zeta1), 2 * math.pi * float(m.zeta2)]); ell = lp
            elif K == 1:
                ref = mk("exp", [f, lp]); ell = lp
            else:
                return None
        elif model == "ushs":
            tau = float(m.compute_stickiness())
            if not tau >= 0.1:
                return None                      # stickiness outside the property's range: no claim
            ref = mk("shs", [f, float(m.radius), tau]); ell = float(m.radius)
        k, r = inp["k_len"] / ell, inp["r_len"] * ell
        a, b = ft1(m, k), ft1(ref, k)
        if not abs(a - b) <= 1e-8 * abs(b):
            return (CLASSES[model][0] + ":mapping-ft", f"{CLASSES[model][0]}: spectrum differs from the classical model under the documented parameter mapping",
                    [a, b], "equal within 1e-8")
        if model != "ushs":
            a, b = acf1(m, r), acf1(ref, r)
            if not abs(a - b) <= 1e-8 * c0 * math.exp(-r / ell) + 1e-300:
                key = CLASSES[model][0] + (":acf" if model == "use" else ":mapping-acf")
                if model == "uts" and K == 1.0:
                    key = "unified_teubner_strey:acf-K1"
                return (key, f"{CLASSES[model][0]}: autocorrelation differs from the classical model under the documented parameter mapping "
                        f"at r = {inp['r_len']:g} lengths", [a, b], "equal within 1e-8 of the envelope")
        return None

    if c == "inversion":
        m = mk(model, params)
        inv = m.inverted_medium()
        ell = length_of(model, params, m)
        if not abs(inv.frac_volume - (1 - f)) <= 1e-15:
            return (CLASSES[model][0] + ":inversion", "inverted_medium does not map f to 1-f", inv.frac_volume, 1 - f)
        # phase inversion maps f to 1 - f: the inverted object is the model of the twin medium, i.e. it gives what a model built afresh with
        # 1 - f (and the same other parameters) gives - nothing computed for the old f survives in it
        if model in ("exp", "sph", "shs", "ts", "grf") and 0.0 < f < 1.0:
            fresh = mk(model, [1 - f] + list(params[1:]))
            kk = inp["k_len"] / ell
            a, b = ft1(inv, kk), ft1(fresh, kk)
            tol = 1e-9 if model != "grf" else 1e-6
            if not abs(a - b) <= tol * max(abs(a), abs(b)) + 1e-300:
                return (CLASSES[model][0] + ":inversion-fresh", f"{CLASSES[model][0]}: the spectrum of inverted_medium() differs from that of the model built "
                        f"with 1 - f = {1 - f:.4g}", [a, b], "equal")
        if model in ("shs", "ushs", "samp", "hom"):
            return None                          # the normalised function contains f (or is data): no further claim
        k, r = inp["k_len"] / ell, inp["r_len"] * ell
        if model == "sph":
            r = min(r, 2 * params[1])
        if model == "grf":
            return None                          # the two-point function of a level-cut field is not f(1-f) x (function free of f)
        a = [acf1(m, r) / m.corr_func_at_origin, ft1(m, k) / m.corr_func_at_origin]
        b = [acf1(inv, r) / inv.corr_func_at_origin, ft1(inv, k) / inv.corr_func_at_origin]
        if not all(abs(x - y) <= 1e-9 * max(abs(x), abs(y)) + 1e-300 for x, y in zip(a, b)):
            return (CLASSES[model][0] + ":inversion", f"{CLASSES[model][0]}: normalised functions change under phase inversion", [a, b], "equal")
        return None
    raise KeyError(c)


def rparams(rng, model):
    """rounded parameters (short replays) inside the quantifier space"""
    f = float(np.round(rng.uniform(0.02, 0.98), 2))
    ell = float("%.2g" % (10 ** rng.uniform(-5, math.log10(5e-3))))
    ell = min(max(ell, 1e-5), 5e-3)
    if model in ("exp", "sph"):
        return [f, ell]
    if model == "shs":
        tau = math.inf if rng.random() < 0.2 else float("%.2g" % (10 ** rng.uniform(-1, 2)))
        return [f, ell, max(tau, 0.1)]
    if model in ("ts", "grf"):
        d = float("%.2g" % np.clip(ell * 10 ** rng.uniform(0, 1.3), 1e-5, 5e-3))
        return [f, ell, d]
    if model in ("use", "uts", "ushs"):
        K = float(rng.choice([0.5, 1.0, 2.0])) if rng.random() < 0.3 else float(np.round(rng.uniform(0.5, 2.0), 2))
        return [f, ell, K]
    if model == "samp":
        lag = np.linspace(0, 10 * ell, 40)
        return [f, lag.tolist(), (f * (1 - f) * np.exp(-lag / ell)).tolist()]
    if model == "hom":
        return [f]
    raise KeyError(model)


def oracle(ctx, hints, effort):
    rng = ctx.np
    reps = 2 if effort == "routine" else 12
    cases = []
    # the disagreeing correspondence cases first
    hint_models = []
    rev = {v[0]: k for k, v in CLASSES.items()}
    for h in hints[:40]:
        d = h.get("desc") or {}
        name = str(d.get("model", "")).split(" ")[0]
        if name in rev:
            hint_models.append(rev[name])
    # fixed, simple witnesses of the mechanisms (always evaluated; they are the minimal replays)
    cases += [
        {"check": "tail", "model": "use", "params": [0.3, 1e-4, 1.0]},
        {"check": "pair", "model": "use", "params": [0.3, 1e-4, 1.0], "k_len": 1.0},
        {"check": "tail", "model": "sph", "params": [0.3, 1e-3]},
        {"check": "origin", "model": "grf", "params": [0.3, 1e-4, 1e-3]},
        {"check": "tail", "model": "uts", "params": [0.3, 1e-4, 1.0]},
        {"check": "mapping", "model": "uts", "params": [0.3, 1e-4, 1.0], "k_len": 1.0, "r_len": 1.0},
        {"check": "ft-continuity", "model": "sph", "params": [0.3, 1e-3], "k_len": 1e-7},
        {"check": "pair-numeric-ft", "model": "samp", "params": rparams(np.random.default_rng(1), "samp"), "k_len": 1.0},
    ]
    # the numerically transformed model at the ends of the fractional-volume range, and the unified sticky hard spheres at k = 0 (the
    # small-argument branch of the spectrum) for polydispersities on both sides of 1
    for fv in (0.02, 0.95, 0.98):
        for kl in (0.0, 1.0):
            cases.append({"check": "pair-numeric-ft", "model": "grf", "params": [fv, 1e-4, 1e-3], "k_len": kl})
    for fv, tau in ((0.15, 0.3), (0.3, 0.15), (0.42, 1.0)):      # strongly sticky spheres: the quantities derived from f matter
        cases.append({"check": "inversion", "model": "shs", "params": [fv, 2e-4, tau], "k_len": 0.0, "r_len": 1.0})
    for K in (0.5, 0.8, 1.5, 2.0):
        for fv in (0.1, 0.3):
            cases.append({"check": "mapping", "model": "ushs", "params": [fv, 1e-4, K], "k_len": 0.0, "r_len": 1.0})
    order = list(CLASSES)
    order.sort(key=lambda mname: 0 if mname in hint_models else 1)
    for model in order:
        for _ in range(reps):
            p = rparams(rng, model)
            if model in ("exp", "sph", "ts", "use", "uts", "grf", "samp"):
                cases.append({"check": "origin", "model": model, "params": p})
            if model in ("exp", "sph", "ts", "use", "uts", "grf"):
                cases.append({"check": "tail", "model": model, "params": p})
            if model in ("exp", "sph", "shs", "ts", "use", "uts", "ushs"):
                cases.append({"check": "nonneg", "model": model, "params": p})
            if model in ANALYTIC_PAIRS:
                for kl in (0.0, float("%.2g" % 10 ** rng.uniform(-1, 1.6))):
                    cases.append({"check": "pair", "model": model, "params": p, "k_len": kl})
                cases.append({"check": "ft-continuity", "model": model, "params": p, "k_len": float("1e%d" % rng.integers(-8, -3))})
            if model in ("shs", "ushs"):
                cases.append({"check": "ft-continuity", "model": model, "params": p, "k_len": float("1e%d" % rng.integers(-8, -3))})
            if model in ("use", "uts", "ushs"):
                cases.append({"check": "mapping", "model": model, "params": p, "k_len": float(np.round(rng.uniform(0, 20), 2)),
                              "r_len": float(np.round(rng.uniform(0, 10), 2))})
            if model != "hom":
                cases.append({"check": "inversion", "model": model, "params": p, "k_len": float(np.round(rng.uniform(0, 20), 2)),
                              "r_len": float(np.round(rng.uniform(0, 10), 2))})
    for model in ("shs", "ushs"):
        for _ in range(1 if effort == "routine" else 4):
            p = rparams(rng, model)
            p[0] = float(np.round(rng.uniform(0.02, 0.6), 2))       # see ASSUMPTIONS: sphere packings only
            cases.append({"check": "origin-numeric", "model": model, "params": p})
            cases.append({"check": "pair-numeric-acf", "model": model, "params": p, "j": int(rng.integers(0, 200))})
    for _ in range(1 if effort == "routine" else 4):
        cases.append({"check": "pair-numeric-ft", "model": "grf", "params": rparams(rng, "grf"), "k_len": float(np.round(rng.uniform(0, 3), 2))})
    cases.append({"check": "origin-numeric-nonuniform", "model": "shs", "params": [0.4, 5e-4, 1000.0]})
    cases.append({"check": "origin-numeric-nonuniform", "model": "ushs", "params": [0.3, 3e-4, 1.2]})
    for model in order:
        if model not in ("hom", "samp"):
            cases.append({"check": "args-untouched", "model": model, "params": rparams(rng, model)})
        if model in ("exp", "sph", "ts", "use", "uts", "grf"):
            cases.append({"check": "acf-sequence", "model": model, "params": rparams(rng, model)})

    for model, num in (("grf", False), ("exp", True), ("sph", True)):
        for _ in range(1 if effort == "routine" else 4):
            p = rparams(rng, model)
            p[0] = float(np.round(rng.uniform(0.05, 0.45), 2))
            cases.append({"check": "reuse", "model": model, "params": p, "f2": float(np.round(rng.uniform(0.5, 0.9), 2)), "ft_numerical": num})

    best, evals = {}, 0
    for inp in cases:
        evals += 1
        try:
            r = check(inp)
        except Exception as e:  # noqa   an exception inside the documented domain is reported with its own key
            r = (CLASSES[inp["model"]][0] + ":raises-" + type(e).__name__, f"{CLASSES[inp['model']][0]}: {inp['check']} raises {type(e).__name__}: {e}",
                 type(e).__name__, "a value")
        if r is not None:
            key, what, obs, req = r
            fnd = Finding(key, what, inp, obs, req)
            if key not in best or len(str(inp)) < len(str(best[key].inp)):
                best[key] = fnd
    return list(best.values()), evals


def replay(inp, rp=None):
    r = check(inp)
    if r is None:
        return None
    key, what, obs, req = r
    return Finding(key, what, inp, obs, req)
