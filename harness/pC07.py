"""C07 — backscatter obeys reciprocity and the single-scattering closed form."""
import json, math
import numpy as np
import common as C
from common import Corr, MultiCorr, SubCtx, Tol, Finding, f2t, fs
import dortlib, scenes
import pC01

PROP = "C07"
DRIVER = "C07"
LEAN_TARGETS = ["SmrtVerif.Props.C07", "SmrtVerif.Driver.C07", "SmrtVerif.Driver.C10", "SmrtVerif.Driver.Dort"]
TRUSTED = pC01.TRUSTED + ["the Rayleigh phase-matrix model of C10 (re-corresponded here on a reduced sample)"]
ASSUMPTIONS = ["reciprocity of the full multiple-scattering solution (0.3 dB), the O(albedo) error of the first-order form and the 5 % "
               "interpolation error have no theorem: they are evaluated by the oracle on real runs (DESIGN §6)"]
RULE = ("incident-beam arrays for random stream/incidence sets; azimuthal recomposition + backscatter extraction of DORT.dort with the mode "
        "solutions replaced by synthetic arrays (m_max 0..6, random azimuth); the phase-matrix slices of C10 on a reduced sample; "
        "distinct = distinct driver line")
TOL = Tol(1e-12, 1e-300, scale="line")


class St:
    pass


def correspond(ctx):
    import pC10
    from smrt import sensor_list, make_snowpack
    from smrt.rtsolver.dort import DORT
    co = Corr(PROP, DRIVER)
    rng = ctx.np
    # incident beams
    for _ in range(ctx.n(60, 500)):
        n = int(rng.integers(3, 30))
        outmu = np.sort(rng.uniform(0.05, 0.995, n))[::-1].copy()
        w = rng.uniform(0.01, 0.2, n)
        thetas = sorted({round(float(t), 4) for t in rng.uniform(0, 89, int(rng.integers(1, 6)))})
        s = DORT(); s.sensor = sensor_list.active(13e9, thetas)
        st = St(); st.outmu, st.outweight = outmu, w
        i0, ih, inc = s.prepare_intensity_array(st)
        co.add("dort.incident", f"incident {n} {len(inc)} " + " ".join(str(int(i)) for i in inc) + " " + fs(w),
               fs(i0) + " | " + fs(ih), TOL, desc={"n": n, "theta_inc": thetas})
    # recomposition and extraction, through the real dort() with synthetic mode solutions
    sp = make_snowpack([0.3, 1.0], "exponential", density=[250, 350], corr_length=[1e-4, 2e-4], temperature=260)
    for _ in range(ctx.n(40, 300)):
        mmax = int(rng.integers(0, 7))
        nmax = int(rng.integers(6, 12))
        thetas = sorted({round(float(t), 3) for t in rng.uniform(2, 60, int(rng.integers(1, 4)))})
        sensor = sensor_list.active(13e9, thetas)
        phi = float(rng.choice([math.pi, math.pi, rng.uniform(0, 2 * math.pi)]))
        sensor.phi = phi
        try:
            s = dortlib.prepare_solver(sp, "iba", sensor, n_max_stream=nmax, m_max=mmax)
            from smrt.rtsolver.dort import compute_stream
            streams = compute_stream(nmax, s.effective_permittivity, None)
        except AssertionError:
            continue
        s.atmosphere_result = None
        _, _, inc = s.prepare_intensity_array(streams)
        n, k = streams.n_air, len(inc)
        tot = {m: rng.uniform(0, 1, (2 * n, 2 * k) if m == 0 else (3 * n, 3 * k)) for m in range(mmax + 1)}
        coh = {m: rng.uniform(0, 0.3, tot[m].shape) for m in range(mmax + 1)}

        def fake(m, streams_, eig, interfaces, idown, compute_coherent_only=False, special_return=False, tot=tot, coh=coh):
            return (coh if compute_coherent_only else tot)[m].copy()
        s.dort_modem_banded = fake
        outmu, back = s.dort(m_max=mmax)
        arrs = fs(tot[0] - coh[0]) + "".join(" " + fs(tot[m] - coh[m]) for m in range(1, mmax + 1))
        co.add("dort.recompose", f"recompose {n} {k} {mmax} {f2t(phi)} " + " ".join(str(int(i)) for i in inc) + " " + arrs, fs(back), TOL,
               desc={"m_max": mmax, "phi": phi, "theta_inc": thetas})
        co.note(f"m_max={mmax}"); co.note("backscatter azimuth" if phi == math.pi else "other azimuth")
    # the air streams and their weights (the beam power is 1 / (2 pi outweight)) for the scenes of the property
    co2 = Corr(PROP, "Dort")
    for _ in range(ctx.n(12, 80)):
        sc = scenes.random_scene(rng, lossless=False, microstructure="exponential", max_layers=4, atmosphere=False, active=True)
        sc["emmodel"], sc["nmax"] = "iba", int(rng.choice([8, 16, 32, 64]))
        try:
            c, s = pC01.extract(sc)
        except AssertionError:
            continue
        l, i = pC01.streams_line(s, c)
        co2.add("streams", l, i, Tol(1e-12), desc={"eps": [str(e) for e in s.effective_permittivity], "nmax": s.n_max_stream})
    sub = pC10.correspond(SubCtx(ctx, 0.12))
    return MultiCorr([co, co2, sub])


# ---------------------------------------------------------------------------------------------

def run_active(sc, thetas, mmax=2):
    from smrt import make_model, sensor_list
    sp, atm = scenes.build(sc)
    m = make_model(sc["emmodel"], "dort", rtsolver_options=dict(n_max_stream=sc["nmax"], m_max=mmax, **sc.get("solver_options", {})))
    return m.run(sensor_list.active(sc["frequency"], list(thetas)), sp)


def check_reciprocity(sc, thetas):
    r = run_active(sc, thetas)
    vv, hh = np.asarray(r.sigmaVV()).ravel(), np.asarray(r.sigmaHH()).ravel()
    hv, vh = np.asarray(r.sigmaHV()).ravel(), np.asarray(r.sigmaVH()).ravel()
    if (vv < 0).any() or (hh < 0).any():
        return ("copol-negative", [float(vv.min()), float(hh.min())], ">= 0")
    for a, b, c in zip(hv, vh, np.minimum(vv, hh)):
        if min(a, b) > c * 1e-5 and a > 0 and b > 0:            # cross-pol less than 50 dB below co-pol
            d = abs(10 * math.log10(a) - 10 * math.log10(b))
            if d > 0.3:
                return ("reciprocity", d, "|HV - VH| <= 0.3 dB")
    return None


def check_accessors(sc, thetas):
    """the full matrix returned by sigma() / sigma_dB() and the per-polarisation accessors agree at every incidence angle (three angles:
    as many as polarisation components), and a radar transmitting a single polarisation sees what the fully polarimetric run gives"""
    from smrt import make_model, sensor_list
    r = run_active(sc, thetas)
    full = r.sigma()
    for pi_, p_, fn in (("V", "V", r.sigmaVV), ("H", "H", r.sigmaHH), ("H", "V", r.sigmaHV), ("V", "H", r.sigmaVH)):
        a = np.asarray(full.sel(polarization_inc=pi_, polarization=p_).values).ravel()
        b = np.asarray(fn()).ravel()
        if a.shape != b.shape or not np.allclose(a, b, rtol=1e-12, atol=0):
            return ("accessors", [a.tolist(), b.tolist()], f"sigma().sel({pi_}{p_}) = sigma{pi_}{p_}() at {thetas}")
    sp, atm = scenes.build(sc)
    m = make_model(sc["emmodel"], "dort", rtsolver_options=dict(n_max_stream=sc["nmax"], m_max=2))
    for tx in ("V", "H"):
        one = m.run(sensor_list.active(sc["frequency"], list(thetas), polarization_inc=[tx], polarization=["V", "H"]), sp)
        for rx in ("V", "H"):
            a = np.asarray(one.sigma(polarization_inc=tx, polarization=rx)).ravel()
            b = np.asarray(r.sigma(polarization_inc=tx, polarization=rx)).ravel()
            if a.shape != b.shape or not np.allclose(a, b, rtol=1e-9, atol=1e-300):
                return ("single-transmit", [a.tolist(), b.tolist()], f"transmit {tx} only, receive {rx}: same as the polarimetric run")
    return None


def first_order(sc, th):
    """T_p^2 p_pp(backward) mu0^2 / (n^2 mu1) (1 - exp(-2 ke d / mu1)) / (2 ke) from the theory's own phase function"""
    from smrt import sensor_list
    from smrt.core.model import make_emmodel_instance
    from smrt.core.fresnel import fresnel_transmission_matrix
    sp, _ = scenes.build(sc)
    em = make_emmodel_instance(sc["emmodel"], sensor_list.active(sc["frequency"], [th]), sp.layers[0])
    eps = complex(em.effective_permittivity()); n = math.sqrt(eps.real) if eps.imag == 0 else np.sqrt(eps).real
    mu0 = math.cos(math.radians(th)); mu1 = math.sqrt(1 - (1 - mu0 ** 2) / n ** 2)
    ke = float(em.ks + em.ka)
    P = np.asarray(em.phase(mu_s=np.array([mu1]), mu_i=np.array([-mu1]), dphi=np.array([math.pi]), npol=2).values).squeeze().real
    T = np.asarray(fresnel_transmission_matrix(1, eps, np.array([mu0]), 2).values).squeeze()
    d = sc["thickness"][0]
    fac = mu0 ** 2 / (n ** 2 * mu1) * (1 - math.exp(-2 * ke * d / mu1)) / (2 * ke)
    return T[0] ** 2 * P[0, 0] * fac, T[1] ** 2 * P[1, 1] * fac, float(em.ks) / ke


def check_first_order(sc):
    from smrt import make_model, sensor_list
    sp, _ = scenes.build(sc)
    m = make_model(sc["emmodel"], "dort", rtsolver_options=dict(n_max_stream=sc["nmax"], m_max=sc.get("m_max", 4)))
    first = m.run(sensor_list.passive(sc["frequency"], [10.]), sp)
    ang = np.asarray(first.other_data["stream_angles"].values); ang = ang[(ang > 5) & (ang < 60)]
    if len(ang) == 0:
        return None
    # three stream angles requested together in an order that is neither ascending nor descending
    pick = sorted({int(len(ang) // 4), int(len(ang) // 2), int(3 * len(ang) // 4)})
    ths = [float(ang[i]) for i in pick]
    ths = [ths[1], ths[0], ths[2]] if len(ths) == 3 else ths      # the permutation that sorts the cosines is a 3-cycle (not self-inverse)
    r = m.run(sensor_list.active(sc["frequency"], ths), sp)
    svv, shh = np.asarray(r.sigmaVV()).ravel(), np.asarray(r.sigmaHH()).ravel()
    for j, th in enumerate(ths):
        vv, hh, albedo = first_order(sc, th)
        for name, got, ref in (("VV", float(svv[j]), vv), ("HH", float(shh[j]), hh)):
            rel = abs(got - ref) / ref
            # "of the order of the albedo": 10 x albedo, with a floor of 0.5 % - in absorbing media the closed form's refraction
            # (real index) and Fresnel transmissivity differ from the solver's at the 1e-3 level whatever the albedo (measured <= 2e-3)
            if rel > max(10 * albedo, 5e-3):
                return ("first-order:" + name, rel, f"<= max(10 x albedo ({albedo:.2g}), 5e-3) at the stream angle {th:.3f} deg")
    th = ths[0]
    # between stream angles: interpolation error below 5 % with >= 32 streams - in the middle of the range and between the first two streams
    allang = np.asarray(first.other_data["stream_angles"].values); allang = np.sort(allang[allang > 1e-9])
    if sc["nmax"] >= 32 and len(ang) > 2:
        mids = [float(0.5 * (ang[len(ang) // 2] + ang[len(ang) // 2 - 1]))]
        if len(allang) > 2 and 0.5 * (allang[0] + allang[1]) >= 2.0:
            mids.append(float(0.5 * (allang[0] + allang[1])))
        for th2 in mids:
            r2 = m.run(sensor_list.active(sc["frequency"], [th2]), sp)
            vv2, hh2, _ = first_order(sc, th2)
            for name, got, ref in (("VV", float(r2.sigmaVV()), vv2), ("HH", float(r2.sigmaHH()), hh2)):
                if abs(got - ref) / ref > 0.05 + 10 * albedo:
                    return ("first-order-interp:" + name, abs(got - ref) / ref, f"<= 5 % at {th2:.3f} deg")
    return None


def check_first_order_batch(sc):
    """the same closed form cell by cell when two media are simulated at two frequencies in one call"""
    from smrt import make_model, sensor_list
    f1 = sc["frequency"]
    f2 = 0.7 * f1
    variants = [sc, dict(sc, thickness=[t * 3.0 for t in sc["thickness"]])]
    sps = [scenes.build(v)[0] for v in variants]
    m = make_model(sc["emmodel"], "dort", rtsolver_options=dict(n_max_stream=sc["nmax"], m_max=sc.get("m_max", 4)))
    first = m.run(sensor_list.passive(f1, [10.]), sps[0])
    ang = np.asarray(first.other_data["stream_angles"].values); ang = ang[(ang > 5) & (ang < 60)]
    if len(ang) == 0:
        return None
    th = float(ang[len(ang) // 2])
    # the stream angles depend on the permittivity, hence (slightly) on the frequency: use the 5 % between-streams tolerance
    r = m.run(sensor_list.active([f1, f2], [th]), sps)
    for k, v in enumerate(variants):
        for f in (f1, f2):
            vv, hh, albedo = first_order(dict(v, frequency=f), th)
            got = float(np.asarray(r.sigmaVV(frequency=f, snowpack=k)).ravel()[0])
            rel = abs(got - vv) / vv
            if rel > 0.05 + 10 * albedo:
                return ("first-order:batch", rel, f"<= 5 % + 10 x albedo for medium {k} at {f:g} Hz in a batch of two media x two frequencies")
    return None


def low_albedo_scene(rng, em="iba", ms="exponential"):
    sc = scenes.random_scene(rng, nlayer=1, lossless=False, microstructure=ms, atmosphere=False, substrate=None,
                             thick=(0.05, 100.0), frequency=float(rng.choice([0.435e9, 1.4e9, 5e9, 10e9, 13e9])))
    sc["density"] = [round(float(rng.uniform(100, 500)), 1)]
    if ms == "exponential":
        sc["micro"]["corr_length"] = [round(float(rng.uniform(2e-5, 6e-5)), 7)]
    else:
        sc["micro"]["radius"] = [round(float(rng.uniform(4e-5, 1.0e-4)), 7)]
    sc["ice_permittivity"] = [3.18, round(float(rng.uniform(1e-3, 1e-2)), 5)]       # absorbing enough for albedo ~ 1e-4 .. 1e-3
    sc["emmodel"], sc["nmax"], sc["m_max"] = em, int(rng.choice([32, 64])), int(rng.integers(2, 7))
    return sc


def oracle(ctx, hints, effort):
    rng = ctx.np
    findings, evals = {}, 0
    # strongly scattering media of small spheres (the Rayleigh-type phase matrix with its mode-2 (h, u) terms is what multiple scattering
    # runs on): deep single and double layers, Ku band
    for it in range(2 if effort == "routine" else 6):
        em = ("rayleigh", "dmrt_qca_shortrange")[it % 2]
        nl_ = 1 + (it // 2) % 2
        sc = dict(thickness=[round(float(v), 2) for v in rng.uniform(0.5, 3.0, nl_)], density=[round(float(v), 1) for v in rng.uniform(250, 350, nl_)],
                  temperature=[260.0] * nl_, microstructure="sticky_hard_spheres", frequency=13e9,
                  micro=dict(radius=[round(float(v), 6) for v in rng.uniform(3e-4, 6e-4, nl_)], stickiness=[0.2 if em != "rayleigh" else 1000.0] * nl_),
                  emmodel=em, nmax=32, solver_options=dict(diagonalization_method="shur_forcedtriu"))   # the method the documentation recommends for radar
        thetas = [33.0, 5.0, 47.0, 60.0]
        try:
            evals += 1
            r = check_reciprocity(sc, thetas)
        except AssertionError:
            r = None
        except Exception as e:  # noqa
            from smrt.core.error import SMRTError
            r = None
            if not isinstance(e, SMRTError):
                key = f"exception:{type(e).__name__}"
                findings.setdefault(key, Finding(key, f"active run at incidence angles {thetas} raises {type(e).__name__}: {str(e)[:120]}",
                                                 {"kind": "reciprocity", "scene": sc, "thetas": thetas}, type(e).__name__, "values (or SMRTError)"))
        if r:
            key = f"{r[0]}:{em}:strong"
            findings.setdefault(key, Finding(key, r[0] + f" in a strongly scattering {em} medium", {"kind": "reciprocity", "scene": sc, "thetas": thetas}, r[1], r[2]))
    for it in range(4 if effort == "routine" else 40):
        em, ms = [("iba", "exponential"), ("iba", "sticky_hard_spheres"), ("rayleigh", "sticky_hard_spheres"),
                  ("dmrt_qca_shortrange", "sticky_hard_spheres"), ("symsce_torquato21", "exponential")][it % (2 if effort == "routine" else 5)]
        sc = scenes.random_scene(rng, lossless=False, microstructure=ms, max_layers=4, atmosphere=False, active=True, thick=(0.05, 3.0))
        sc["emmodel"], sc["nmax"] = em, int(rng.choice([16, 32]))
        thetas = sorted({round(float(t), 2) for t in rng.uniform(5, 60, 3)})
        thetas = [thetas[1], thetas[0]] + thetas[2:] if len(thetas) == 3 else thetas      # not in increasing order
        try:
            evals += 1
            r = check_reciprocity(sc, thetas)
            if r:
                key = f"{r[0]}:{em}"
                findings.setdefault(key, Finding(key, r[0], {"kind": "reciprocity", "scene": sc, "thetas": thetas}, r[1], r[2]))
            if it < 2 or effort != "routine":
                evals += 3
                r = check_accessors(sc, thetas)
                if r:
                    key = f"{r[0]}:{em}"
                    findings.setdefault(key, Finding(key, r[0], {"kind": "accessors", "scene": sc, "thetas": thetas}, r[1], r[2]))
        except AssertionError:
            pass
        except Exception as e:  # noqa
            from smrt.core.error import SMRTError
            if not isinstance(e, SMRTError):
                key = f"exception:{type(e).__name__}"
                findings.setdefault(key, Finding(key, f"active run at incidence angles {thetas} raises {type(e).__name__}: {str(e)[:120]}",
                                                 {"kind": "reciprocity", "scene": sc, "thetas": thetas}, type(e).__name__, "values (or SMRTError)"))
        sc2 = low_albedo_scene(rng, *(("iba", "exponential") if it % 2 == 0 else ("rayleigh", "sticky_hard_spheres")))
        if it == 0:      # a P-band radar over ordinary firn: scattering coefficients of a few 1e-9 1/m are small, not zero
            sc2["frequency"] = 0.435e9
            sc2["micro"]["corr_length"] = [1e-4]
            sc2["thickness"] = [round(float(rng.uniform(5, 50)), 2)]
        try:
            evals += 2
            r = check_first_order(sc2)
            if r:
                key = f"{r[0]}:{sc2['emmodel']}"
                findings.setdefault(key, Finding(key, r[0], {"kind": "first-order", "scene": sc2}, r[1], r[2]))
            if it == 1 or (effort != "routine" and it % 5 == 1):
                evals += 3
                r = check_first_order_batch(sc2)
                if r:
                    key = f"{r[0]}:{sc2['emmodel']}"
                    findings.setdefault(key, Finding(key, r[0], {"kind": "first-order-batch", "scene": sc2}, r[1], r[2]))
        except AssertionError:
            pass
        except Exception as e:  # noqa  (the known "almost diagonal matrix" failure at high m_max is a loud SMRTError, C08)
            from smrt.core.error import SMRTError
            if not isinstance(e, SMRTError):
                key = f"exception:{type(e).__name__}"
                findings.setdefault(key, Finding(key, f"active run of a low-albedo layer raises {type(e).__name__}: {str(e)[:120]}",
                                                 {"kind": "first-order", "scene": sc2}, type(e).__name__, "values (or SMRTError)"))
    return list(findings.values()), evals


def replay(inp, rp=None):
    try:
        r = (check_reciprocity(inp["scene"], inp["thetas"]) if inp["kind"] == "reciprocity" else
             check_accessors(inp["scene"], inp["thetas"]) if inp["kind"] == "accessors" else
             check_first_order_batch(inp["scene"]) if inp["kind"] == "first-order-batch" else check_first_order(inp["scene"]))
    except Exception as e:  # noqa
        from smrt.core.error import SMRTError
        if isinstance(e, (SMRTError, AssertionError)):
            return None
        return Finding("exception:" + type(e).__name__, str(e)[:200], inp, type(e).__name__, "values (or SMRTError)")
    return Finding("?", r[0], inp, r[1], r[2]) if r else None
