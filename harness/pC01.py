"""C01 — an isothermal scene radiates at its own temperature."""
import json
import numpy as np
import common as C
from common import Corr, Tol, Finding, f2t, fs
import dortlib, scenes

PROP = "C01"
DRIVER = "Dort"
LEAN_TARGETS = ["SmrtVerif.Props.C01", "SmrtVerif.Driver.Dort"]
TRUSTED = ["correspondence harness harness/pC01.py, harness/dortlib.py, harness/scenes.py and driver SmrtVerif/Driver/Dort.lean",
           "scipy.linalg.eig (the per-layer eigen-decomposition is an input of the model; its residual is re-checked per case)",
           "scipy.linalg.solve_banded (the solution x is an input of `emerging`; A x = b is re-checked per case)",
           "Gauss-Legendre nodes from scipy.special.p_roots (input of the streams model)",
           "the interface matrices are inputs of the assembly model (their budgets are the subject of C12)",
           "real arithmetic in the theorems vs IEEE doubles in the code"]
ASSUMPTIONS = ["3 K bound for lossy multilayer stacks is evaluated by the oracle on real runs only (no theorem, DESIGN §6)"]
RULE = ("random stacks of 1..5 layers (density 120-600, thickness 5 cm-2 m, lossy and loss-free ice, exponential / sticky-hard-sphere / "
        "homogeneous microstructure), every specular substrate class or none, with/without atmosphere, isothermal and not, n_max_stream 8-12; "
        "slices: right-hand side and emerging intensity of the assembled system, stream directions; distinct = distinct driver line")

TOL = Tol(1e-9, 1e-10, scale="line")
EMMODELS = [("iba", "exponential"), ("nonscattering", "homogeneous"), ("iba", "sticky_hard_spheres")]


def random_case(rng, isothermal=None, thorough=False):
    em, ms = EMMODELS[int(rng.integers(0, len(EMMODELS)))]
    # loss-free *and* non-scattering means ke = 0: the boundary system is singular (outside the statement's domain)
    sc = scenes.random_scene(rng, lossless=bool(rng.random() < 0.4) and em != "nonscattering", isothermal=isothermal, microstructure=ms,
                             atmosphere=bool(rng.random() < 0.3), max_layers=5)
    sc["emmodel"] = em
    sc["nmax"] = int(rng.integers(8, 13))
    return sc


def extract(sc):
    from smrt import sensor_list
    sp, atm = scenes.build(sc)
    s = dortlib.prepare_solver(sp, sc["emmodel"], sensor_list.passive(sc["frequency"], 40.), atmosphere=atm, n_max_stream=sc["nmax"])
    return dortlib.extract_case(s, 0), s


def streams_line(s, c):
    from smrt.rtsolver.dort import gaussquad
    mu_ref, _ = gaussquad(s.n_max_stream)
    eps = np.asarray(s.effective_permittivity, dtype=complex)
    has_sub = s.substrate_permittivity is not None
    es = complex(s.substrate_permittivity) if has_sub else 0j
    line = f"streams {len(mu_ref)} {len(eps)} {int(has_sub)} {fs(mu_ref)} " + fs(np.column_stack([eps.real, eps.imag])) + f" {f2t(es.real)} {f2t(es.imag)}"
    st = c.streams
    k = int(np.argmax(eps))
    impl = f"{k} | " + " | ".join(f"{len(st.mu[l])} {fs(st.mu[l])} {fs(st.weight[l])}" for l in range(len(eps)))
    impl += f" | {fs(st.outmu)} {fs(st.outweight)} | {st.n_air} {int(st.n_substrate)}"
    return line, " ".join(impl.split())


def correspond(ctx):
    co = Corr(PROP, DRIVER)
    rng = ctx.np
    n = ctx.n(40, 250)
    made = 0
    while made < n:
        T = float(rng.uniform(200, 272)) if rng.random() < 0.5 else None
        sc = random_case(rng, isothermal=T)
        try:
            c, s = extract(sc)
        except AssertionError:
            co.note("skipped: fewer than 3 streams in a layer"); continue
        except Warning:
            # a substrate/interface model declaring the scene outside its validity range (it raises a Warning): loud, not a wrong value
            tries = getattr(co, "_refused", 0) + 1; co._refused = tries
            co.note("skipped: a boundary model refused the scene (Warning raised)")
            if tries > 4 * n:
                break
            continue
        made += 1
        res = max(dortlib.eigen_residual(c) or [0.0])
        co.note("eigen residual <1e-8" if res < 1e-8 else "eigen residual LARGE")
        co.note(f"layers={len(c.layers)}"); co.note("isothermal" if T is not None else "profile")
        co.note("stream counts vary" if len(set(c.streams.n)) > 1 else "stream counts equal")
        # the emerging intensity is a sum of terms of size |Eu|·|x|: when the system is nearly singular (loss-free, weakly scattering
        # media: ke -> 0) |x| is huge and the sum is dominated by cancellation; only the right-hand side is compared then
        amp = float(np.abs(c.x).max()) * max(float(np.abs(l["Eu"]).max()) for l in c.layers)
        parts = "be" if amp < 1e5 else "b"
        co.note("well-conditioned" if parts == "be" else "ill-conditioned: emerging not compared")
        co.add("dort.rhs+emerging", dortlib.case_line(c).replace("dort Abe ", f"dort {parts} ", 1), dortlib.case_impl_line(c, parts), TOL, desc=sc)
        for (lay, bl, bi) in dortlib.buildA_lines(c, s):
            co.add("dort.buildA", bl, bi, Tol(1e-10, 1e-12, scale="line"), desc={"scene": sc, "layer": lay})
        l, i = streams_line(s, c)
        co.add("streams", l, i, Tol(1e-12), desc={"eps": [str(e) for e in s.effective_permittivity], "nmax": s.n_max_stream})
    return co


# ---------------------------------------------------------------------------------------------
# the property on the real solver

def run_tb(sc, thetas):
    from smrt import make_model, sensor_list
    sp = scenes.medium(sc)
    m = make_model(sc["emmodel"], "dort", rtsolver_options=dict(n_max_stream=sc["nmax"]), emmodel_options=sc.get("emmodel_options"))
    sensor = sensor_list.passive(sc["frequency"], thetas)
    res = m.run(sensor, sp)
    return np.asarray(res.data.values), res


def exact_case(sc):
    """single layer, or loss-free materials everywhere: the equality is exact (1e-6 K)"""
    lossless = sc.get("ice_permittivity") is not None and sc["ice_permittivity"][1] == 0 and \
        (sc.get("substrate") is None or sc["substrate"]["eps"][1] == 0 or sc["substrate"]["kind"] == "reflector")
    same = lambda xs: all(x == xs[0] for x in xs)
    identical = same(sc["density"]) and same(sc["temperature"]) and all(same(v) for v in sc.get("micro", {}).values() if isinstance(v, list))
    return len(sc["thickness"]) == 1 or lossless or identical


def check_iso(sc):
    T = sc["temperature"][0]
    tb, res = run_tb(sc, [0., 25., 40., 55.])
    dev = float(np.max(np.abs(tb - T)))
    lim = 1e-6 if exact_case(sc) else 3.0
    if not np.all(np.isfinite(tb)) or dev > lim:
        return dev, lim
    return None


def with_temperature(sc, T):
    d = json.loads(json.dumps(sc))
    d["temperature"] = [T] * len(d["thickness"])
    if d.get("substrate"):
        d["substrate"]["T"] = T
    d["atmosphere"] = dict(tb_down=T, tb_up=0.0, trans=1.0)
    return d


def check_iso_sequence(sc):
    """three isothermal scenes at three temperatures simulated in one call with a list of (multi-frequency) sensors, one per scene - the
    documented pairwise form of Model.run: every scene radiates at its own temperature at every frequency"""
    from smrt import make_model, sensor_list
    T0 = sc["temperature"][0]
    Ts = [T0 - 20.0, T0, min(T0 + 20.0, 300.0)]
    f = sc["frequency"]
    freqs = [f, 0.8 * f, 0.6 * f]
    meds = [scenes.medium(with_temperature(sc, T)) for T in Ts]
    m = make_model(sc["emmodel"], "dort", rtsolver_options=dict(n_max_stream=sc["nmax"]), emmodel_options=sc.get("emmodel_options"))
    res = m.run([sensor_list.passive(freqs, [25., 50.]) for _ in Ts], meds)
    da = res.data
    dev = 0.0
    for k, T in enumerate(Ts):
        v = np.asarray(da.isel(snowpack=k).values, dtype=float)
        if v.size != len(freqs) * 2 * 2 or not np.all(np.isfinite(v)):
            return float("inf"), 0.0
        dev = max(dev, float(np.max(np.abs(v - T))))
    lim = 1e-6 if exact_case(sc) else 3.0
    return (dev, lim) if dev > lim else None


def check_iso_update(sc):
    """the column is built at another temperature and then set to T through the layers' update(): it radiates at T"""
    from smrt import make_model, sensor_list
    T = sc["temperature"][0]
    other = T - 25.0 if T > 150 else T + 25.0
    d = with_temperature(sc, T)
    d["temperature"] = [other] * len(d["thickness"])
    med = scenes.medium(d)
    for lay in med.layers:
        lay.update(temperature=T)
    m = make_model(sc["emmodel"], "dort", rtsolver_options=dict(n_max_stream=sc["nmax"]), emmodel_options=sc.get("emmodel_options"))
    tb = np.asarray(m.run(sensor_list.passive(sc["frequency"], [0., 25., 40., 55.]), med).data.values)
    dev = float(np.max(np.abs(tb - T)))
    lim = 1e-6 if exact_case(sc) else 3.0
    return (dev, lim) if (not np.all(np.isfinite(tb)) or dev > lim) else None


def grazing_scenes(T=260.0):
    """two loss-free layers whose density contrast refracts one Gauss node of the denser layer to within 0.6 degree of the horizontal in the
    lighter one (sine 0.99995), lighter layer above or below: a stream that barely exists is a stream"""
    from smrt.permittivity.generic_mixing_formula import polder_van_santen
    nidx = lambda rho: float(np.real(np.sqrt(polder_van_santen(rho / 916.7, 1.0, 3.18))))
    out = []
    for nmax, k, flip in ((16, 11, False), (16, 13, True), (32, 28, False), (32, 29, True)):
        x, _ = np.polynomial.legendre.leggauss(2 * nmax)
        mu = np.sort(x[x > 0])[::-1]
        n1 = nidx(350.0) * np.sqrt(1 - mu[k] ** 2) / 0.99995
        lo, hi = 20.0, 350.0
        for _ in range(80):
            mid = 0.5 * (lo + hi)
            lo, hi = (mid, hi) if nidx(mid) < n1 else (lo, mid)
        d = round(0.5 * (lo + hi), 6)
        dens = [350.0, d] if flip else [d, 350.0]
        out.append(dict(thickness=[0.3, 0.3], density=dens, temperature=[T, T], microstructure="exponential", frequency=37e9,
                        micro=dict(corr_length=[2e-4, 2e-4]), ice_permittivity=[3.18, 0.0],
                        substrate=dict(kind="soil_wegmuller", T=T, eps=[8.0, 0.0], params=dict(roughness_rms=0.01)),
                        atmosphere=dict(tb_down=T, tb_up=0.0, trans=1.0), emmodel="iba", nmax=nmax, assembly=0))
    return out


def iso_scene(rng, em, ms, nlayer=None, lossless=None, substrate="random"):
    T = round(float(rng.uniform(200, 272)), 2)
    lossless = bool(rng.random() < 0.5) if lossless is None else lossless
    lossless = lossless and em != "nonscattering"
    # the isotropic sky radiation at T is part of the scene: a lossless "atmosphere" with tb_down = T
    sc = scenes.random_scene(rng, nlayer=nlayer, lossless=lossless, isothermal=T, microstructure=ms, max_layers=8,
                             atmosphere=True, thick=(0.01, 50.0), substrate=substrate)
    if sc.get("substrate") is None and not lossless:
        # without substrate the half-space below is cold vacuum: not an isothermal scene unless the pack is opaque
        sc["substrate"] = dict(kind="flat", T=T, eps=[round(float(rng.uniform(2, 30)), 3), round(float(rng.uniform(0.05, 5)), 3)])
    if sc.get("substrate") is None:
        sc["substrate"] = dict(kind="flat", T=T, eps=[round(float(rng.uniform(2, 30)), 3), 0.0])
    sc["emmodel"], sc["nmax"] = em, int(rng.choice([16, 32]))
    sc["assembly"] = int(rng.integers(0, 4))        # the API offers several equivalent ways of putting the same scene together
    return sc


PAIRINGS = [("iba", "exponential"), ("iba", "sticky_hard_spheres"), ("nonscattering", "homogeneous"), ("rayleigh", "sticky_hard_spheres"),
            ("dmrt_qca_shortrange", "sticky_hard_spheres"), ("sft_rayleigh", "exponential"), ("iba_original", "exponential"),
            ("symsce_torquato21", "exponential"), ("sce_torquato21", "exponential")]


def oracle(ctx, hints, effort):
    rng = ctx.np
    findings, evals = {}, 0
    todo = []
    for h in hints:
        d = h.get("desc")
        if isinstance(d, dict) and "thickness" in d and d.get("substrate") is not None and len(todo) < 10:
            d = json.loads(json.dumps(d))          # the disagreeing scene, made isothermal (layers, substrate, sky at T)
            T = d["temperature"][0]
            d["temperature"] = [T] * len(d["thickness"]); d["substrate"]["T"] = T
            d["atmosphere"] = dict(tb_down=T, tb_up=0.0, trans=1.0)
            todo.append(d)
    n = 20 if effort == "routine" else 120
    for i in range(n):
        em, ms = PAIRINGS[i % (3 if effort == "routine" else len(PAIRINGS))]
        # every kind of boundary in turn (each contributes its own reflectivity / emissivity pair), thin single layers half of the time
        sub = scenes.SPECULAR_SUBSTRATES[(i // 2) % len(scenes.SPECULAR_SUBSTRATES)]
        sc = iso_scene(rng, em, ms, nlayer=1 if i % 2 == 0 else None, substrate=sub)
        if i % 2 == 0:
            sc["thickness"] = [round(float(rng.uniform(0.02, 0.5)), 3)]
        elif i % 4 == 1 and len(sc["thickness"]) >= 2:
            # identical adjacent media (any thicknesses, optically thin to deep): the equality is exact whatever the loss
            for k in ("density",):
                sc[k] = [sc[k][0]] * len(sc["thickness"])
            sc["micro"] = {k: ([v[0]] * len(sc["thickness"]) if isinstance(v, list) else v) for k, v in sc.get("micro", {}).items()}
            sc["thickness"] = [round(float(np.exp(rng.uniform(np.log(0.05), np.log(20.0)))), 3) for _ in sc["thickness"]]
            # between identical media the interfaces may be transparent: the two documented ways of saying so (a flat surface over
            # transparent internal interfaces; an explicit list), the air-snow boundary always being the first one
            if (i // 4) % 2 == 0:
                sc["surface"], sc["interface"] = "flat", "transparent"
            else:
                sc["interface"] = ["flat"] + ["transparent"] * (len(sc["thickness"]) - 1)
            sc["assembly"] = 0
        todo.append(sc)
    # optically deep stacks of identical lossy layers (cumulated optical depth of a few units at the internal boundaries): exact
    for f, ths, cl in ((89e9, [1.0, 1.0, 1.0], 1.5e-4), (36.5e9, [10.7, 10.7], 1.2e-4)):
        T = round(float(rng.uniform(240, 270)), 2)
        todo.append(dict(thickness=ths, density=[320.0] * len(ths), temperature=[T] * len(ths), microstructure="exponential", frequency=f,
                         micro=dict(corr_length=[cl] * len(ths)), substrate=dict(kind="soil_wegmuller", T=T, eps=[8.0, 1.5], params=dict(roughness_rms=0.01)),
                         atmosphere=dict(tb_down=T, tb_up=0.0, trans=1.0), emmodel="iba", nmax=16, assembly=0))
    todo += grazing_scenes(round(float(rng.uniform(240, 270)), 2))
    # one thin layer over the boundaries whose coefficients have options: a reflector whose prescribed reflectivity depends on the angle
    # and on the polarisation (functions of theta), the QNH soil at its default Q = 0 and at Q > 0
    T_ = round(float(rng.uniform(240, 270)), 2)
    for sub_ in (dict(kind="reflector", eps=[3.0, 0.0], params=dict(specular_reflection={"V": {"$fn": [0.2, 0.6]}, "H": {"$fn": [0.3, 0.5]}})),
                 dict(kind="reflector", eps=[3.0, 0.0], params=dict(specular_reflection={"$fn": [0.2, 0.7]})),
                 dict(kind="soil_qnh", eps=[6.0, 1.2], params=dict(Q=0.0, N=1.0, H=0.5, Nv=1.0, Nh=1.0)),
                 dict(kind="soil_qnh", eps=[6.0, 1.2], params=dict(Q=0.2, N=2.0, H=1.2, Nv=2.0, Nh=2.0))):
        todo.append(dict(thickness=[0.15], density=[280.0], temperature=[T_], microstructure="exponential", frequency=10.65e9,
                         micro=dict(corr_length=[1.5e-4]), substrate=dict(sub_, T=T_), atmosphere=dict(tb_down=T_, tb_up=0.0, trans=1.0),
                         emmodel="iba", nmax=16, assembly=0))
    # other ways the same scene reaches the solver: a list of sensors paired with a list of media; temperatures set through update()
    for j, sc in enumerate([t for t in todo if "emmodel" in t and t.get("ice_permittivity") is None and len(t["thickness"]) == 1
                            and "interface" not in t][:2 if effort == "routine" else 10]):
        for how, fn in (("sensor-sequence", check_iso_sequence), ("update", check_iso_update)):
            evals += 3
            try:
                r = fn(sc)
            except AssertionError:
                continue
            except Exception as e:  # noqa
                from smrt.core.error import SMRTError
                if isinstance(e, (SMRTError, Warning)):
                    continue
                raise
            if r is not None:
                key = f"isothermal:{how}"
                findings.setdefault(key, Finding(key, f"isothermal scene at {sc['temperature'][0]} K delivered through {how}: max |Tb - T| = {r[0]:.3g} K",
                                                 dict(sc, _how=how), r[0], f"<= {r[1]} K"))
    for sc in todo:
        evals += 1
        try:
            r = check_iso(sc)
        except AssertionError:
            continue
        except Exception as e:  # noqa  (a scattering theory outside its domain raising SMRTError is not a wrong value)
            from smrt.core.error import SMRTError
            if isinstance(e, (SMRTError, Warning)):
                continue
            raise
        if r is not None:
            kind = "exact" if exact_case(sc) else "lossy-multilayer"
            sub = (sc.get("substrate") or {}).get("kind", "none")
            key = f"isothermal:{kind}:{sc['emmodel']}:{sub}"
            if key not in findings:
                findings[key] = Finding(key, f"isothermal scene at {sc['temperature'][0]} K: max |Tb - T| = {r[0]:.3g} K",
                                        sc, r[0], f"<= {r[1]} K")
    return list(findings.values()), evals


def replay(inp, rp=None):
    how = inp.get("_how")
    sc = {k: v for k, v in inp.items() if k != "_how"}
    r = check_iso_sequence(sc) if how == "sensor-sequence" else check_iso_update(sc) if how == "update" else check_iso(sc)
    return Finding("?", "isothermal deviation", inp, r[0], f"<= {r[1]}") if r else None
