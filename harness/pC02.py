"""C02 — non-scattering stacks reproduce the closed-form incoherent multilayer solution."""
import json, math
import numpy as np
import common as C
from common import Corr, Tol, Finding, f2t, fs
import dortlib, scenes
import pC01

PROP = "C02"
DRIVER = "C02"
LEAN_TARGETS = ["SmrtVerif.Props.C02", "SmrtVerif.Driver.C02"]
TRUSTED = pC01.TRUSTED + ["stack_is_textbook is proved for every stream / polarisation that exists in every layer (any number of streams per layer) "
                          "under the hypotheses TrivialLayer / TrivialStack; that the objects the code hands to the assembly satisfy these "
                          "hypotheses is checked on every correspondence case (trivial.hypotheses), not proved"]
ASSUMPTIONS = ["in-layer cosines follow the solver's own rule sin(theta_l) = Re sqrt(eps_ref/eps_l) sin(theta_ref) (DESIGN §4 C02)",
               "loss tangent > 0: with ke = 0 the boundary system is singular (outside the statement's domain)"]
RULE = ("random non-scattering stacks of 0..6 layers (density 120-917, thickness 1 cm-50 m, lossy ice or prescribed complex permittivity), flat / "
        "Wegmuller / reflector / QNH / Choudhury substrates, sky 0-300 K, 1.4-89 GHz; slices: boundary matrix and right-hand side, the textbook "
        "closed form against the emerging intensity of every (air stream, polarisation); distinct = distinct driver line")
TOL = Tol(1e-9, 1e-10, scale="line")


def ns_scene(rng, max_layers=6, nlayer=None):
    sc = scenes.random_scene(rng, nlayer=nlayer, lossless=False, microstructure="homogeneous", max_layers=max_layers,
                             atmosphere=bool(rng.random() < 0.6), thick=(0.01, 50.0))
    if rng.random() < 0.5:
        sc["ice_permittivity"] = [round(float(rng.uniform(2.5, 3.5)), 3), round(float(rng.uniform(1e-4, 0.1)), 5)]
    sc["density"] = [round(float(x), 1) for x in rng.uniform(120, 917, len(sc["thickness"]))]
    if sc.get("atmosphere"):
        sc["atmosphere"] = dict(tb_down=round(float(rng.uniform(0, 300)), 2), tb_up=0.0, trans=1.0)
    if sc.get("substrate") is None and rng.random() < 0.7:
        sc["substrate"] = dict(kind="flat", T=round(float(rng.uniform(200, 300)), 2),
                               eps=[round(float(rng.uniform(2, 30)), 3), round(float(rng.uniform(0.05, 5)), 3)])
    sc["emmodel"], sc["nmax"] = "nonscattering", int(rng.integers(8, 13))
    return sc


def dg(cv, idx, default):
    """entry idx of the diagonal of a compressed interface matrix"""
    from smrt.core.lib import smrt_diag
    if isinstance(cv, smrt_diag):
        return float(cv.diag[idx])
    if np.ndim(cv) == 0:
        return float(default)
    return float(np.asarray(cv)[idx, idx])


def trivial_hypotheses(c):
    """the hypotheses of `stack_is_textbook` (Props/C02.lean: TrivialLayer, TrivialStack) checked on the objects the code hands to the
    assembly: Eu = [I 0], Ed = [0 I], beta = (kappa, -kappa) with kappa > 0, the four interface matrices of every layer and the two air
    matrices diagonal (or the scalar 0).  returns None or a description of what fails"""
    from smrt.core.lib import smrt_diag
    def diagonal(cv):
        if isinstance(cv, smrt_diag) or np.ndim(cv) == 0:
            return True
        a = np.asarray(cv)
        return a.ndim == 2 and np.count_nonzero(a - np.diag(np.diagonal(a))[: a.shape[0], : a.shape[1]]) == 0 if a.shape[0] == a.shape[1] else False
    for k, ly in enumerate(c.layers[:c.L]):
        n = ly["n"] * c.npol
        Eu, Ed, beta = np.asarray(ly["Eu"]), np.asarray(ly["Ed"]), np.asarray(ly["beta"])
        if Eu.shape != (n, 2 * n) or not np.array_equal(Eu, np.eye(2 * n)[:n]):
            return f"layer {k}: Eu is not [I 0]"
        if not np.array_equal(Ed, np.eye(2 * n)[n:]):
            return f"layer {k}: Ed is not [0 I]"
        if not (np.all(beta[:n] > 0) and np.allclose(beta[n:], -beta[:n], rtol=1e-14, atol=0)):
            return f"layer {k}: beta is not (kappa, -kappa) with kappa > 0"
        for nm in ("rtop", "rbot", "ttop", "tbot"):
            if not diagonal(ly[nm]):
                return f"layer {k}: {nm} is not diagonal"
    if not (diagonal(c.tbot_air) and diagonal(c.rbot_air)):
        return "air-side matrices are not diagonal"
    return None


def textbook_lines(c):
    """one driver line per (air stream, polarisation): the scalar chain the code's matrices define"""
    out = []
    npol = c.npol
    for i in range(c.streams.n_air):
        for p in range(npol):
            idx = i * npol + p
            tsky = float(c.idown[idx, 0])
            toks = [f2t(c.tsub if c.has_sub_temp else 0.0), f2t(tsky), f2t(dg(c.rbot_air, idx, 0.0)), f2t(dg(c.tbot_air, idx, 0.0))]
            for ly in c.layers[:c.L]:
                n = ly["n"] * npol
                t = math.exp(-float(ly["beta"][idx]) * ly["d"])
                assert ly["beta"][idx] > 0 and abs(ly["beta"][n + idx] + ly["beta"][idx]) < 1e-12 * abs(ly["beta"][idx]) + 1e-300
                toks += [f2t(t), f2t(ly["T"]), f2t(dg(ly["rtop"], idx, 0.0)), f2t(dg(ly["ttop"], idx, 0.0)),
                         f2t(dg(ly["rbot"], idx, 0.0)), f2t(dg(ly["tbot"], idx, 0.0))]
            out.append(("textbook " + " ".join(toks), f2t(float(c.emerging[idx, 0])), {"stream": i, "pol": p}))
    return out


def correspond(ctx):
    co = Corr(PROP, DRIVER)
    rng = ctx.np
    made = 0
    while made < ctx.n(25, 150):
        sc = ns_scene(rng)
        try:
            c, s = pC01.extract(sc)
        except AssertionError:
            continue
        made += 1
        co.note(f"layers={len(c.layers)}"); co.note("substrate " + str((sc.get("substrate") or {}).get("kind")))
        co.add("dort.matrix+rhs", dortlib.case_line(c).replace("dort Abe ", "dort Ab ", 1), dortlib.case_impl_line(c, "Ab"), TOL, desc=sc)
        why = trivial_hypotheses(c)
        co.note("hypotheses of stack_is_textbook hold on the code's objects" if why is None else "hypotheses of stack_is_textbook FAIL")
        co.note("stream counts vary between layers" if len({l["n"] for l in c.layers}) > 1 else "stream counts equal")
        if why is not None:
            co.disagreements.append({"slice": "trivial.hypotheses", "why": why, "desc": sc, "line": "", "impl": why, "model": "TrivialLayer / TrivialStack"})
        for line, impl, d in textbook_lines(c):
            co.add("textbook", line, impl, Tol(1e-9, 1e-9), desc={"scene": sc, **d})
    return co


# ---------------------------------------------------------------------------------------------
# independent closed form (numpy) against Model.run at the solver's own directions

def independent_inputs(sc):
    """effective permittivity, absorption and thickness of every layer from the scene description alone: dry snow of density rho is ice
    in air with fractional volume rho / rho_ice (densities a hair above rho_ice count as ice), mixed by Polder-van Santen"""
    from smrt.permittivity.generic_mixing_formula import polder_van_santen
    from smrt.permittivity.ice import ice_permittivity_maetzler06
    from smrt.core.globalconstants import DENSITY_OF_ICE, C_SPEED
    f = sc["frequency"]
    k0 = 2 * np.pi * f / C_SPEED
    eps, ka = [], []
    for dens, T in zip(sc["density"], sc["temperature"]):
        ice = complex(*sc["ice_permittivity"]) if sc.get("ice_permittivity") else complex(ice_permittivity_maetzler06(f, T))
        fv = dens / DENSITY_OF_ICE
        if 1 < fv < 1.01:
            fv = 1.0
        e = complex(polder_van_santen(fv, 1.0, ice))
        eps.append(e); ka.append(2 * k0 * np.sqrt(e).imag)
    return np.array(eps, dtype=complex), np.array(ka, dtype=float), np.array(sc["thickness"], dtype=float)


def closed_form(sc, res, sp, atm):
    """Tb(V, H) at every stream angle but the last, from the scene description (layer inputs computed independently of the run) and the
    stream angles reported by the run"""
    from smrt.core.fresnel import fresnel_reflection_matrix, fresnel_transmission_matrix
    if sc.get("emmodel", "nonscattering") == "nonscattering" and len(sc["thickness"]) and not sc.get("reported_inputs"):
        eps, ka, d = independent_inputs(sc)
    else:
        eps = np.asarray(res.other_data["effective_permittivity"].values, dtype=complex)
        ka = np.asarray(res.other_data["ka"].values, dtype=float)
        d = np.asarray(res.other_data["thickness"].values, dtype=float)
    T = np.asarray(sc["temperature"], dtype=float) if len(sc["thickness"]) else np.array([0.0])
    if len(sc["thickness"]) == 0:
        T = np.array([0.0])
    ang = np.asarray(res.data.coords["theta"].values, dtype=float)
    mu_air = np.cos(np.deg2rad(ang))
    kref = int(np.argmax(eps))
    sin_ref = np.sqrt(1 - mu_air ** 2) / np.real(np.sqrt(eps[kref] / 1.0))
    mus = [np.sqrt(1 - (np.real(np.sqrt(eps[kref] / eps[l])) * sin_ref) ** 2) for l in range(len(eps))]
    f = sc["frequency"]
    sub = sp.substrate
    tsky = sc["atmosphere"]["tb_down"] if sc.get("atmosphere") else 0.0
    out = np.zeros((len(ang), 2))
    L = len(eps)
    for p in range(2):
        # bottom
        if sub is not None and (sc.get("substrate") or {}).get("kind") == "reflector":
            # a prescribed reflectivity is what it says (independent of the substrate object's own methods)
            r0 = float(sc["substrate"]["params"]["specular_reflection"])
            g = np.full(len(ang), r0); s = np.full(len(ang), (1 - r0) * sub.temperature)
        elif sub is not None:
            g = np.asarray(sub.specular_reflection_matrix(f, eps[-1], mus[-1], 2).values)[p]
            s = np.asarray(sub.emissivity_matrix(f, eps[-1], mus[-1], 2).values)[p] * sub.temperature
        else:
            g = np.zeros(len(ang)); s = np.zeros(len(ang))
        for l in range(L - 1, -1, -1):
            t = np.exp(-ka[l] * d[l] / mus[l])
            g, s = t * t * g, T[l] * (1 - t) * (1 + t * g) + t * s
            e_up = eps[l - 1] if l > 0 else 1.0 + 0j
            mu_up = mus[l - 1] if l > 0 else mu_air
            iface = sp.interfaces[l]
            rb = np.asarray(iface.specular_reflection_matrix(f, eps[l], e_up, mus[l], 2).values)[p]
            tu = np.asarray(iface.coherent_transmission_matrix(f, eps[l], e_up, mus[l], 2).values)[p]
            ra = np.asarray(iface.specular_reflection_matrix(f, e_up, eps[l], mu_up, 2).values)[p]
            td = np.asarray(iface.coherent_transmission_matrix(f, e_up, eps[l], mu_up, 2).values)[p]
            if l > 0:
                g, s = ra + tu * td * g / (1 - rb * g), tu * s / (1 - rb * g)
            else:
                out[:, p] = tu * s / (1 - rb * g) + (ra + tu * td * g / (1 - rb * g)) * tsky
    return ang, out


def stream_angles(res):
    """the solver's own directions: `stream_angles` minus the nadir node `solve` may have inserted (0 deg) and minus the last one
    (it does not survive the degree <-> cosine round trip, DESIGN §4 C02)"""
    a = np.asarray(res.other_data["stream_angles"].values, dtype=float)
    return a[(a > 1e-9)][:-1]


def check_closed_form(sc):
    from smrt import make_model, sensor_list
    sp, atm = scenes.build(sc)
    m = make_model("nonscattering", "dort", rtsolver_options=dict(n_max_stream=sc["nmax"]))
    first = m.run(sensor_list.passive(sc["frequency"], [10.]), (atm + sp) if atm is not None else sp)
    ang = stream_angles(first)
    # the directions are requested in an arbitrary order (seeded by the scene): the closed form is evaluated in the order of the result
    ang = np.random.default_rng(int(sc["frequency"]) % 9973 + len(ang)).permutation(ang)
    res = m.run(sensor_list.passive(sc["frequency"], list(ang)), (atm + sp) if atm is not None else sp)
    ang2, ref = closed_form(sc, res, sp, atm)
    tb = np.asarray(res.data.values)
    dev = float(np.abs(tb - ref).max())
    return (dev, "<= 0.01 K") if not dev <= 0.01 else None


def check_after_edit(sc, k, factor):
    """a medium that has been simulated, then had one layer's thickness changed in place, is the medium with the new thickness"""
    from smrt import make_model, sensor_list
    sp, atm = scenes.build(sc)
    med = (atm + sp) if atm is not None else sp
    m = make_model("nonscattering", "dort", rtsolver_options=dict(n_max_stream=sc["nmax"]))
    first = m.run(sensor_list.passive(sc["frequency"], [10.]), med)
    _ = med.layer_thicknesses, med.layer_depths if hasattr(med, "layer_depths") else None
    ang = stream_angles(first)
    med.layers[k].thickness = sc["thickness"][k] * factor
    sc2 = dict(sc, thickness=[t * (factor if j == k else 1.0) for j, t in enumerate(sc["thickness"])])
    res = m.run(sensor_list.passive(sc["frequency"], list(ang)), med)
    _, ref = closed_form(sc2, res, sp, atm)
    dev = float(np.abs(np.asarray(res.data.values) - ref).max())
    return (dev, "<= 0.01 K") if not dev <= 0.01 else None


def check_shared_base(sc):
    """one layer stack used for two media: `a = base + soil_A` is edited in place, then `b = base + soil_B` is simulated - b is the stack
    the scene describes over soil_B"""
    import copy
    from smrt import make_model, sensor_list, make_soil
    sp, atm = scenes.build(sc)
    sub = sp.substrate
    base = scenes.build(dict(sc, substrate=None))[0]
    a = base + make_soil("flat", complex(4.0, 0.3), 260.0)
    a += copy.deepcopy(a.layers[-1])
    a.delete(0) if len(a.layers) > 2 else None
    b = base + sub
    med = (atm + b) if atm is not None else b
    m = make_model("nonscattering", "dort", rtsolver_options=dict(n_max_stream=sc["nmax"]))
    first = m.run(sensor_list.passive(sc["frequency"], [10.]), med)
    res = m.run(sensor_list.passive(sc["frequency"], list(stream_angles(first))), med)
    if len(b.layers) != len(sc["thickness"]):
        return (float(len(b.layers)), f"{len(sc['thickness'])} layers")
    _, ref = closed_form(sc, res, sp, atm)
    dev = float(np.abs(np.asarray(res.data.values) - ref).max())
    return (dev, "<= 0.01 K") if not dev <= 0.01 else None


def check_bare(sc, via_argument=False):
    """a bare substrate under a transparent volume: e*Tsub + r*Tsky"""
    from smrt import make_model, sensor_list
    from smrt.inputs.make_medium import make_transparent_volume
    d = json.loads(json.dumps(sc)); d["thickness"] = [1.0]; d["density"] = [300.]; d["temperature"] = [250.]
    if via_argument and d.get("atmosphere") is None:
        d["atmosphere"] = dict(tb_down=30.0, tb_up=0.0, trans=1.0)
    sp0, atm = scenes.build(d)
    # the two documented ways of putting a sky over a layerless medium: the atmosphere= argument, or atmosphere + medium
    if atm is not None and via_argument:
        med = make_transparent_volume(substrate=sp0.substrate, atmosphere=atm)
    else:
        sp = make_transparent_volume(substrate=sp0.substrate)
        med = (atm + sp) if atm is not None else sp
    sp = med
    m = make_model("nonscattering", "dort", rtsolver_options=dict(n_max_stream=sc["nmax"]))
    first = m.run(sensor_list.passive(sc["frequency"], [10.]), med)
    ang = np.random.default_rng(len(stream_angles(first))).permutation(stream_angles(first))
    res = m.run(sensor_list.passive(sc["frequency"], list(ang)), med)
    mu = np.cos(np.deg2rad(ang))
    sub = sp.substrate
    tsky = d["atmosphere"]["tb_down"] if d.get("atmosphere") else 0.0
    r = np.asarray(sub.specular_reflection_matrix(sc["frequency"], 1.0 + 0j, mu, 2).values)
    e = np.asarray(sub.emissivity_matrix(sc["frequency"], 1.0 + 0j, mu, 2).values)
    ref = (e * sub.temperature + r * tsky).T
    dev = float(np.abs(np.asarray(res.data.values) - ref).max())
    return (dev, "<= 0.01 K") if not dev <= 0.01 else None


def oracle(ctx, hints, effort):
    rng = ctx.np
    findings, evals = {}, 0
    # fixed regimes at the edges of the quantifier: a crust a few kg/m3 below the density of ice over soil (a mixture, not ice), and deep
    # cold firn at L band (loss tangent of a few 1e-5: small, not zero)
    fixed = [("closed-form:near-ice-density", dict(thickness=[0.5], density=[909.0], temperature=[260.0], frequency=10.65e9, nmax=16,
                                                   substrate=dict(kind="flat", T=270.0, eps=[6.0, 0.5]), emmodel="nonscattering", microstructure="homogeneous", micro={})),
             ("closed-form:near-ice-density", dict(thickness=[0.3, 2.0], density=[300.0, 911.0], temperature=[255.0, 262.0], frequency=36.5e9, nmax=16,
                                                   substrate=dict(kind="flat", T=270.0, eps=[6.0, 0.5]), emmodel="nonscattering", microstructure="homogeneous", micro={})),
             ("closed-form:cold-firn-L-band", dict(thickness=[200.0], density=[350.0], temperature=[230.0], frequency=1.4e9, nmax=16,
                                                   substrate=dict(kind="flat", T=250.0, eps=[3.2, 0.001]), emmodel="nonscattering", microstructure="homogeneous", micro={})),
             ("closed-form:cold-firn-L-band", dict(thickness=[50.0, 400.0], density=[300.0, 400.0], temperature=[225.0, 235.0], frequency=1.4e9, nmax=16,
                                                   substrate=dict(kind="flat", T=250.0, eps=[3.2, 0.001]), emmodel="nonscattering", microstructure="homogeneous", micro={}))]
    for key_, sc_ in fixed:
        try:
            evals += 1
            r = check_closed_form(sc_)
        except AssertionError:
            continue
        if r:
            findings.setdefault(key_, Finding(key_, f"Tb differs from the incoherent closed form by {r[0]:.3g} K", {"kind": "stack", "scene": sc_}, r[0], r[1]))
    for it in range(10 if effort == "routine" else 100):
        sc = ns_scene(rng, max_layers=8)
        sc["nmax"] = int(rng.choice([8, 16, 32]))
        if it in (1, 2):      # the documented end points of a prescribed reflector: black body (0) and perfect mirror (1)
            sc["substrate"] = dict(kind="reflector", T=round(float(rng.uniform(200, 300)), 2), eps=[3.0, 0.1],
                                   params=dict(specular_reflection=[0.0, 1.0][it - 1]))
            sc["thickness"] = [round(float(v), 3) for v in rng.uniform(0.05, 1.0, len(sc["thickness"]))]
        if sc.get("substrate") and sc["substrate"]["kind"] in ("soil_qnh", "rough_choudhury79") and rng.random() < 0.5:
            sc["substrate"] = dict(kind="flat", T=sc["substrate"]["T"], eps=sc["substrate"]["eps"])
        try:
            evals += 1
            try:
                r = check_closed_form(sc)
            except AssertionError:
                if it not in (1, 2):
                    raise
                sc = dict(sc, thickness=sc["thickness"][:1], density=[300.0], temperature=sc["temperature"][:1], nmax=16)   # keep the fixed case
                r = check_closed_form(sc)
            if r:
                key = "closed-form:" + str((sc.get("substrate") or {}).get("kind"))
                findings.setdefault(key, Finding(key, f"Tb differs from the incoherent closed form by {r[0]:.3g} K", {"kind": "stack", "scene": sc}, r[0], r[1]))
            if it in (3, 4) or (effort != "routine" and it % 10 == 3):
                # a crust a few kg/m3 below the density of ice is still a mixture, not ice
                j = int(rng.integers(0, len(sc["density"])))
                sc2 = dict(sc, density=[(round(float(rng.uniform(908.5, 915.5)), 1) if q == j else v) for q, v in enumerate(sc["density"])],
                           thickness=[(round(float(rng.uniform(0.3, 3.0)), 2) if q == j else v) for q, v in enumerate(sc["thickness"])])
                evals += 1
                r = check_closed_form(sc2)
                if r:
                    findings.setdefault("closed-form:near-ice-density", Finding("closed-form:near-ice-density", f"a layer of density {sc2['density'][j]} "
                                        f"kg/m3: Tb differs from the incoherent closed form by {r[0]:.3g} K", {"kind": "stack", "scene": sc2}, r[0], r[1]))
            if it == 7 or (effort != "routine" and it % 10 == 7):
                # the same stack handed over as pandas Series with reversed integer labels
                if len(sc["thickness"]) >= 2:
                    sc3 = dict(sc, series_labels="reversed")
                    evals += 1
                    r = check_closed_form(sc3)
                    if r:
                        findings.setdefault("closed-form:series-arguments", Finding("closed-form:series-arguments", "per-layer arguments given as pandas Series "
                                            f"with reversed integer labels: Tb differs from the incoherent closed form by {r[0]:.3g} K",
                                            {"kind": "stack", "scene": sc3}, r[0], r[1]))
            if it == 8 or (effort != "routine" and it % 10 == 8):
                evals += 2
                scb = sc if (sc.get("substrate") and sc["substrate"]["kind"] != "reflector") else dict(sc, substrate=dict(kind="flat", T=265.0, eps=[8.0, 1.0]))
                r = check_shared_base(scb)
                if r:
                    findings.setdefault("closed-form:shared-base", Finding("closed-form:shared-base", "a = base + soil_A edited in place, then b = base + "
                                        f"soil_B simulated: differs from the closed form of the described stack over soil_B by {r[0]:.3g}",
                                        {"kind": "shared-base", "scene": scb}, r[0], r[1]))
            if it in (5, 6) or (effort != "routine" and it % 10 == 5):
                evals += 1
                k_ = int(rng.integers(0, len(sc["thickness"])))
                fac = float(rng.choice([0.2, 5.0]))
                r = check_after_edit(sc, k_, fac)
                if r:
                    findings.setdefault("closed-form:after-edit", Finding("closed-form:after-edit", f"simulated, then layer {k_} made {fac} times as thick in "
                                        f"place, then simulated again: Tb differs from the closed form of the edited medium by {r[0]:.3g} K",
                                        {"kind": "after-edit", "scene": sc, "k": k_, "factor": fac}, r[0], r[1]))
            if sc.get("substrate") and it % 3 == 0:
                evals += 1
                for via in (False, True):
                    r = check_bare(sc, via)
                    if r:
                        findings.setdefault("bare-substrate", Finding("bare-substrate", f"bare substrate: Tb differs from e*Tsub + r*Tsky by {r[0]:.3g} K",
                                                                      {"kind": "bare", "scene": sc, "via_argument": via}, r[0], r[1]))
        except AssertionError:
            continue
    return list(findings.values()), evals


def replay(inp, rp=None):
    if inp["kind"] == "shared-base":
        r = check_shared_base(inp["scene"])
        return Finding("?", "closed form with a shared base", inp, r[0], r[1]) if r else None
    if inp["kind"] == "after-edit":
        r = check_after_edit(inp["scene"], inp["k"], inp["factor"])
        return Finding("?", "closed form after an in-place edit", inp, r[0], r[1]) if r else None
    r = check_closed_form(inp["scene"]) if inp["kind"] == "stack" else check_bare(inp["scene"], inp.get("via_argument", False))
    return Finding("?", "closed form", inp, r[0], r[1]) if r else None
