"""C09 — batch, parallel and repeated runs equal the individual simulations: correspondence harness and property oracle."""
import sys, types, inspect, functools, hashlib, time, itertools
import numpy as np
import pandas as pd
import xarray as xr
import common as C
from common import Corr, Tol, Finding, f2t

PROP = "C09"
DRIVER = "C09"
LEAN_TARGETS = ["SmrtVerif.Props.C09", "SmrtVerif.Driver.C09"]
TRUSTED = ["correspondence harness harness/pC09.py (stub rtsolver, canonical attribute walk) and driver SmrtVerif/Driver/C09.lean",
           "xarray.concat / pandas.Index as the finite-map contract of Res.concat (identical pieces get one new leading dimension)",
           "joblib: Parallel returns the results in submission order; worker processes share nothing with the parent",
           "python object model: copy.copy gives a fresh __dict__ (Sensor.iterate), instances created in a call are unreachable afterwards",
           "LAPACK/BLAS results are reproducible between processes when pinned to one thread (harness sets OMP/OPENBLAS/MKL_NUM_THREADS=1)"]
ASSUMPTIONS = ["the simulations of one call return results of one shape (same broadcast axes and coordinates); sensors of a sensor list share "
               "the values of their multi-valued axes (xarray's outer join with NaN is outside the model)",
               "the store model of run_single_simulation (fresh instances, memo caches) is tied to the code by observation only: the write-set "
               "slice compares the locations changed by real runs with the prediction",
               "coordinate values of the snowpack dimension are of one type per call (int, str or float)"]
RULE = ("stub-solver runs: random collections of 1..12 heterogeneous snowpacks x sensors with 1..4 frequencies x 1..5 angles x polarisation "
        "subsets (passive and active), broadcast capability of the solver in {DORT's, none, partial}, every container type (single, list, tuple, "
        "dict, Series, DataFrame column, SensitivityStudy), snowpack_dimension naming, lists of sensors, refusals; real DORT batches vs "
        "individual runs, sequential vs joblib, repeated; write sets over substrate kinds; distinct = distinct (slice, input line)")

AXES = ["frequency", "theta_inc", "polarization_inc", "theta", "phi", "polarization"]
DORT_BC = ["theta_inc", "polarization_inc", "theta", "phi", "polarization"]
FREQS = [1.4e9, 6.925e9, 10.65e9, 18.7e9, 23.8e9, 36.5e9, 89e9, 150e9]
ANGLES = [0., 5., 15., 25., 35., 40., 45., 53.1, 55., 65., 70.]
K_ORDER = "sensor-list:order"
K_REFL = "user-write:Reflector.specular_reflection"
K_REFLB = "user-write:ReflectorBackscatter.specular_reflection"
K_FLAG = "user-write:ReflectorBackscatter.stop_pol2_warning"


# ---------------------------------------------------------------------------------------------
# tokens

def tok(v):
    if isinstance(v, (str, np.str_)):
        return str(v)
    if isinstance(v, (bool, np.bool_)):
        return "b%d" % int(v)
    if isinstance(v, (int, np.integer)):
        return "i%d" % int(v)
    return f2t(float(v))


def sensor_tokens(s):
    """`S <naxes> {axis n v…}`: np.atleast_1d(getattr(sensor, axis)) of every axis that is not None"""
    parts = []
    n = 0
    for a in AXES:
        v = getattr(s, a, None)
        if v is None:
            continue
        vs = [tok(x) for x in np.atleast_1d(v)]
        parts.append(f"{a} {len(vs)} " + " ".join(vs))
        n += 1
    return f"S {n} " + " ".join(parts)


# ---------------------------------------------------------------------------------------------
# the stub solver: its result encodes (sensor configuration, snowpack identity)

REG, REGINV, CALLS = {}, [], []


def stub_value(s):
    if s not in REG:
        REG[s] = len(REGINV)
        REGINV.append(s)
    return float(REG[s])


class StubEM(object):
    def __init__(self, sensor, layer, **kw):
        self.layer = layer


def make_stub(bc):
    class StubSolver(object):
        _broadcast_capability = set(bc)

        def __init__(self, **kw):
            self.kw = kw

        def solve(self, snowpack, emmodels, sensor, atmosphere=None):
            from smrt.core.result import make_result
            assert len(emmodels) == snowpack.nlayer
            self.snowpack, self.sensor = snowpack, sensor                      # per-simulation scratch state, as DORT keeps
            bdims = [a for a in AXES if a in self._broadcast_capability and getattr(sensor, a, None) is not None]
            coords = [(a, np.atleast_1d(getattr(sensor, a))) for a in bdims]
            shape = tuple(len(c[1]) for c in coords)
            data = np.empty(shape)
            fixed = []
            for a in AXES:
                v = getattr(sensor, a, None)
                fixed.append("-" if v is None else ",".join(tok(x) for x in np.atleast_1d(v)))
            CALLS.append(snowpack.c09_id + "|" + "|".join(fixed))
            for idx in np.ndindex(*shape):
                parts = list(fixed)
                for j, a in enumerate(bdims):
                    parts[AXES.index(a)] = tok(coords[j][1][idx[j]])
                data[idx] = stub_value(snowpack.c09_id + "|" + "|".join(parts))
            return make_result(sensor, xr.DataArray(data, coords))
    return StubSolver


class ShuffledRunner(object):
    """order-preserving runner that evaluates the simulations in a random order"""
    def __init__(self, rng):
        self.rng = rng

    def __call__(self, function, argument_list):
        args = list(argument_list)
        out = [None] * len(args)
        for i in self.rng.permutation(len(args)):
            out[int(i)] = function(*args[int(i)])
        return out


def show_result(r):
    data = r.data
    dims = list(data.dims)
    coords = [[tok(v) for v in data.coords[d].values] for d in dims]
    cells = []
    vals = np.asarray(data.values)
    for idx in np.ndindex(*vals.shape):
        v = vals[idx]
        val = "nan" if np.isnan(v) else REGINV[int(v)]
        cells.append(",".join(coords[j][idx[j]] for j in range(len(dims))) + "=" + val)
    return "dims:" + ",".join(dims) + " " + " ".join(cells)


# ---------------------------------------------------------------------------------------------
# generators

def mk_snowpack(rng, ident, nlayer=None, substrate=None):
    from smrt import make_snowpack
    n = int(rng.integers(1, 5)) if nlayer is None else nlayer
    sp = make_snowpack([float(rng.choice([0.1, 0.2, 0.5, 1.0])) for _ in range(n)], "sticky_hard_spheres",
                       density=[float(rng.integers(150, 450)) for _ in range(n)], radius=[float(rng.integers(1, 8)) * 1e-4 for _ in range(n)],
                       stickiness=0.2, temperature=[float(rng.integers(230, 272)) for _ in range(n)], substrate=substrate)
    sp.c09_id = ident
    return sp


def gen_sensor(rng, nf=None, passive_only=False):
    from smrt.core.sensor import passive, active
    nf = int(rng.integers(1, 5)) if nf is None else nf
    fr = [float(x) for x in rng.choice(FREQS, nf, replace=False)]
    na = int(rng.integers(1, 6))
    th = [float(x) for x in rng.choice(ANGLES, na, replace=False)]
    pol = [None, ["V", "H"], ["V"], ["H"], ["H", "V"]][int(rng.integers(0, 5))]
    f = fr if (len(fr) > 1 or rng.random() < 0.5) else fr[0]
    t = th if (len(th) > 1 or rng.random() < 0.5) else th[0]
    if passive_only or rng.random() < 0.7:
        return passive(f, t, polarization=pol), "P"
    polinc = [None, ["V", "H"], ["V"]][int(rng.integers(0, 3))]
    return active(f, t, polarization_inc=polinc, polarization=pol), "A"


def coord_values(rng, n):
    k = int(rng.integers(0, 3))
    if k == 0:
        return [int(x) for x in rng.choice(np.arange(100), n, replace=False)]
    if k == 1:
        return ["k%d" % x for x in rng.choice(np.arange(100), n, replace=False)]
    return [float(x) / 4 for x in rng.choice(np.arange(-40, 400), n, replace=False)]


def gen_container(rng, sps, kind):
    """returns (python container, kwargs for run, line fragment `<container> <dimarg> <col>`)"""
    from smrt.core.sensitivity_study import sensitivity_study
    ids = [sp.c09_id for sp in sps]
    n = len(sps)
    kw, dim = {}, "nodim"
    col = "snowpack"
    if kind in ("list", "tuple"):
        cont = list(sps) if kind == "list" else tuple(sps)
        frag = f"seq {'T' if kind == 'tuple' else 'L'} {n} " + " ".join(ids)
        r = rng.random()
        if r < 0.35:
            vals = coord_values(rng, n)
            name = str(rng.choice(["time", "point", "site", "snowpack", "x"]))
            kw["snowpack_dimension"] = (name, vals)
            dim = f"dim {name} 1 vals {n} " + " ".join(tok(v) for v in vals)
        elif r < 0.5:
            name = str(rng.choice(["time", "depth"]))
            kw["snowpack_dimension"] = (name, None)
            dim = f"dim {name} 1 novals"
    elif kind == "dict":
        keys = coord_values(rng, n)
        if isinstance(keys[0], float):
            keys = ["d%d" % i for i in range(n)]
        cont = dict(zip(keys, sps))
        frag = f"dict {n} " + " ".join(f"{tok(k)} {i}" for k, i in zip(keys, ids))
        if rng.random() < 0.3:      # overridden by the dict
            kw["snowpack_dimension"] = ("ignored", list(range(n)))
            dim = f"dim ignored 1 vals {n} " + " ".join("i%d" % i for i in range(n))
    elif kind == "series":
        idx = coord_values(rng, n)
        if n >= 2 and rng.random() < 0.4:      # labels need not be unique (several pits at one site)
            idx[-1] = idx[0]
        nm = None if rng.random() < 0.4 else str(rng.choice(["thickness", "date", "snowpack"]))
        cont = pd.Series(list(sps), index=pd.Index(idx, name=nm), dtype=object)
        frag = f"series {nm or '-'} {n} " + " ".join(f"{tok(k)} {i}" for k, i in zip(idx, ids))
    elif kind == "frame":
        idx = coord_values(rng, n)
        if n >= 2 and rng.random() < 0.4:
            idx[-1] = idx[0]
        nm = None if rng.random() < 0.4 else str(rng.choice(["thickness", "date"]))
        colname = str(rng.choice(["snowpack", "sp", "medium"]))
        df = pd.DataFrame({"a": np.arange(n) * 1.5, colname: pd.Series(list(sps), dtype=object).values, "b": ["x"] * n}, index=pd.Index(idx, name=nm))
        cont = df
        asked = colname if rng.random() < 0.85 else "missing"
        if asked != "snowpack" or rng.random() < 0.5:
            kw["snowpack_column"] = asked
        col = asked
        frag = f"frame 3 a {colname} b {colname} {nm or '-'} {n} " + " ".join(f"{tok(k)} {i}" for k, i in zip(idx, ids))
    elif kind == "study":
        vals = coord_values(rng, n)
        var = str(rng.choice(["temperature", "radius", "time"]))
        arr = np.empty(n, dtype=object)
        for i, sp in enumerate(sps):
            arr[i] = sp
        cont = sensitivity_study(var, vals, list(sps))
        frag = f"study {var} {n} " + " ".join(f"{tok(k)} {i}" for k, i in zip(np.array(vals), ids))
    elif kind == "single":
        cont = sps[0]
        frag = f"single {ids[0]}"
        if rng.random() < 0.2:
            v = coord_values(rng, 1)
            kw["snowpack_dimension"] = ("only", v)
            dim = f"dim only 1 vals 1 {tok(v[0])}"
    else:
        raise ValueError(kind)
    return cont, kw, f"{frag} {dim} {col}"


def impl_run(model, sensor, cont, kw, runner=None):
    try:
        r = model.run(sensor, cont, runner=runner, **kw)
        return show_result(r)
    except Exception as e:  # noqa
        return C.err_kind(e)


KINDS = ["list", "tuple", "dict", "series", "frame", "study", "single"]
BCS = [DORT_BC, [], ["theta", "polarization"], ["polarization_inc", "polarization", "phi"], ["frequency", "theta"]]


def zip_mode():
    return "code" if K_ORDER in C.known_findings(PROP) else "req"


def write_mode():
    k = C.known_findings(PROP)
    return "code" if (K_REFL in k or K_REFLB in k) else "required"


def stub_case(rng, co, serial):
    from smrt import make_model
    bc = BCS[int(rng.integers(0, len(BCS)))] if rng.random() < 0.6 else DORT_BC
    model = make_model(StubEM, make_stub(bc))
    kind = KINDS[int(rng.integers(0, len(KINDS)))]
    n = 1 if kind == "single" else int(rng.integers(1, 13))
    sps = [mk_snowpack(rng, "sp%d_%d" % (serial, i)) for i in range(n)]
    sensor, mode = gen_sensor(rng)
    cont, kw, frag = gen_container(rng, sps, kind)
    line = f"{zip_mode()} {','.join(bc) or '-'} one {sensor_tokens(sensor)} {frag}"
    del CALLS[:]
    out = impl_run(model, sensor, cont, kw)
    calls = list(CALLS)
    desc = {"kind": "stub", "bc": bc, "container": kind, "n": n, "mode": mode, "line": line}
    co.add("run.stub." + kind, "run " + line, out, C.EXACT, desc=desc)
    co.add("run.table", "table " + line, out, C.EXACT, desc=desc, nontrivial=not out.startswith("ERR"))
    if not out.startswith("ERR"):
        # the order in which the sequential runner executes the simulations
        nd = out.split(" ")[0]
        co.add("run.order", "sims " + line, " ".join(calls), C.EXACT, desc=desc, post=lambda mo: " ".join(mo.split(" ")[1:]))
        # an order-preserving runner that evaluates in a random order
        out2 = impl_run(model, sensor, cont, kw, runner=ShuffledRunner(rng))
        co.add("run.runner", "run " + line, out2, C.EXACT, desc=desc, nontrivial=False)
    co.note("container " + kind)
    co.note("snowpacks %d" % n)
    co.note("broadcast " + (",".join(bc) or "none"))
    co.note("sensor mode " + mode)
    co.note("result " + (out if out.startswith("ERR") else "ok"))
    ndim = 0 if out.startswith("ERR") else len(out.split(" ")[0].split(":")[1].split(","))
    co.note("result ndim %d" % ndim)


def sensorlist_case(rng, co, serial, multi):
    """a python list of sensors, one per snowpack; `multi`: the sensors have several frequencies (iterated axis)"""
    from smrt import make_model
    from smrt.core.sensor import passive
    bc = DORT_BC if rng.random() < 0.6 else ["polarization"]
    model = make_model(StubEM, make_stub(bc))
    n = int(rng.integers(1, 7))
    sps = [mk_snowpack(rng, "sl%d_%d" % (serial, i)) for i in range(n)]
    if multi:
        fr = [float(x) for x in rng.choice(FREQS, int(rng.integers(2, 4)), replace=False)]
        th = float(rng.choice(ANGLES))
        sensors = [passive(fr, th, name="s%d" % i) for i in range(n)]
    else:
        th = float(rng.choice(ANGLES))
        if bc == DORT_BC:
            sensors = [passive(float(rng.choice(FREQS)), th) for i in range(n)]     # differ in the (single) frequency
        else:
            sensors = [passive(float(rng.choice(FREQS)), float(rng.choice(ANGLES))) for i in range(n)]
    if rng.random() < 0.15:
        sensors = sensors + [sensors[-1]]       # length mismatch: SMRTError
    kind = ["list", "dict", "series"][int(rng.integers(0, 3))]
    cont, kw, frag = gen_container(rng, sps, kind)
    line = f"{zip_mode()} {','.join(bc) or '-'} many {len(sensors)} {' '.join(sensor_tokens(s) for s in sensors)} {frag}"
    out = impl_run(model, sensors, cont, kw)
    desc = {"kind": "sensorlist", "multi": multi, "n": n, "line": line}
    sl = "run.sensorlist.multi" if multi else "run.sensorlist.single"
    co.add(sl, "run " + line, out, C.EXACT, desc=desc)
    if not out.startswith("ERR") and not (multi and zip_mode() == "code"):
        # the specification (table of the individual simulations); with the known defect mirrored it cannot hold for `multi`
        co.add("run.table.sensorlist", "table " + line.replace(zip_mode() + " ", "req ", 1), out, C.EXACT, desc=desc)
    co.note("sensor list %s n=%d" % ("multi-frequency" if multi else "single-valued", n))


def refusal_cases(rng, co):
    from smrt import make_model
    from smrt.core.sensor import passive
    model = make_model(StubEM, make_stub(DORT_BC))
    s = passive([18.7e9, 36.5e9], 55.)
    sps = [mk_snowpack(rng, "r%d" % i) for i in range(3)]
    ids = "r0 r1 r2"
    st = sensor_tokens(s)
    bc = ",".join(DORT_BC)
    cases = [
        (tuple(sps), dict(snowpack_dimension=("time", [1, 2])), f"seq T 3 {ids} dim time 1 vals 2 i1 i2 snowpack"),
        (tuple(sps), dict(snowpack_dimension=("time", [1, 2, 3])), f"seq T 3 {ids} dim time 1 vals 3 i1 i2 i3 snowpack"),
        (list(sps), dict(snowpack_dimension=(7, [1, 2, 3])), f"seq L 3 {ids} dim 7 0 vals 3 i1 i2 i3 snowpack"),
        (pd.DataFrame({"sp": pd.Series(sps, dtype=object)}), dict(), f"frame 1 sp sp - 3 i0 r0 i1 r1 i2 r2 nodim snowpack"),
        (pd.DataFrame({"sp": pd.Series(sps, dtype=object)}), dict(snowpack_column="sp"), f"frame 1 sp sp - 3 i0 r0 i1 r1 i2 r2 nodim sp"),
    ]
    for cont, kw, frag in cases:
        line = f"{zip_mode()} {bc} one {st} {frag}"
        co.add("run.refusals", "run " + line, impl_run(model, s, cont, kw), C.EXACT, desc={"kind": "refusal", "line": line})
    # first argument not a sensor
    out = impl_run(model, "sensor", sps, {})
    co.note("not-a-sensor " + out)


# ---------------------------------------------------------------------------------------------
# real DORT

_DORT = {}


def dort_model():
    from smrt import make_model
    if "m" not in _DORT:
        _DORT["m"] = make_model("iba", "dort", rtsolver_options=dict(n_max_stream=16))
    return _DORT["m"]


def dort_individual(model, sensor, sps):
    """the individual (frequency, snowpack) simulations, each by its own call of run; also the dimensions and coordinates of one of them"""
    import copy
    out, shape = {}, None
    fr = np.atleast_1d(sensor.frequency)
    for fi, f in enumerate(fr):
        s1 = copy.copy(sensor)
        s1.frequency = f
        for si, sp in enumerate(sps):
            d = model.run(s1, sp).data
            out[(fi, si)] = np.asarray(d.values)
            if shape is None:
                shape = [(str(x), [tok(v) for v in d.coords[x].values]) for x in d.dims]
    return out, shape


def dort_sensor_tokens(sensor, shape):
    """the sensor as DORT's results present it: the frequencies, then the dimensions of an individual result with their coordinates"""
    ax = {"frequency": [tok(v) for v in np.atleast_1d(sensor.frequency)]}
    ax.update(dict(shape))
    present = [a for a in AXES if a in ax]
    return f"S {len(present)} " + " ".join(f"{a} {len(ax[a])} " + " ".join(ax[a]) for a in present)


def dort_batch_line(res, sensor, sps, ind, snowdim):
    """the batch result with every cell named by the individual simulation that has bitwise this value at the same angle/polarisation"""
    data = res.data
    dims = list(data.dims)
    fr = np.atleast_1d(sensor.frequency)
    coords = [[tok(v) for v in data.coords[d].values] for d in dims]
    vals = np.asarray(data.values)
    inner = [d for d in dims if d not in ("frequency", snowdim)]
    cells = []
    for idx in np.ndindex(*vals.shape):
        pos = dict(zip(dims, idx))
        fi = pos.get("frequency", 0)
        si = pos.get(snowdim, 0)
        iidx = tuple(pos[d] for d in inner)
        v = vals[idx]
        who = None
        cand = [(fi, si)] + [k for k in ind if k != (fi, si)]
        for k in cand:
            w = ind[k][iidx]
            if (np.isnan(v) and np.isnan(w)) or v.tobytes() == w.tobytes():
                who = k
                break
        if who is None:
            val = "nomatch"
        else:
            parts = ["-"] * len(AXES)
            parts[0] = tok(fr[who[0]])
            for d in inner:
                parts[AXES.index(d)] = coords[dims.index(d)][pos[d]]
            val = sps[who[1]].c09_id + "|" + "|".join(parts)
        cells.append(",".join(coords[j][idx[j]] for j in range(len(dims))) + "=" + val)
    return "dims:" + ",".join(dims) + " " + " ".join(cells)


def dort_case(rng, co, serial, parallel_jobs=()):
    from smrt.core.sensor import passive, active
    from smrt.core.model import JoblibParallelRunner
    model = dort_model()
    n = int(rng.integers(1, 6))
    sps = [mk_snowpack(rng, "d%d_%d" % (serial, i)) for i in range(n)]
    nf = int(rng.integers(1, 4))
    fr = [float(x) for x in rng.choice(FREQS[1:6], nf, replace=False)]
    th = sorted(float(x) for x in rng.choice(ANGLES[2:10], int(rng.integers(1, 4)), replace=False))
    if rng.random() < 0.75:
        sensor = passive(fr if nf > 1 else fr[0], th)
    else:
        sensor = active(fr if nf > 1 else fr[0], th)
    kind = ["list", "dict", "series", "study"][int(rng.integers(0, 4))]
    cont, kw, frag = gen_container(rng, sps, kind)
    snowdim = frag.split(" dim ")[1].split(" ")[0] if " dim " in frag else None
    ind, shape = dort_individual(model, sensor, sps)
    line = f"{zip_mode()} {','.join(DORT_BC)} one {dort_sensor_tokens(sensor, shape)} {frag}"
    desc = {"kind": "dort", "n": n, "nf": nf, "container": kind, "line": line}

    def run(**extra):
        try:
            r = model.run(sensor, cont, **kw, **extra)
            sd = [d for d in r.data.dims if d not in AXES]
            return dort_batch_line(r, sensor, sps, ind, sd[0] if sd else None), r
        except Exception as e:  # noqa
            return C.err_kind(e), None
    out, r1 = run()
    co.add("run.dort.batch", "run " + line, out, C.EXACT, desc=desc)
    out2, r2 = run()
    same = r1 is not None and r2 is not None and np.asarray(r1.data.values).tobytes() == np.asarray(r2.data.values).tobytes()
    co.add("run.dort.repeat", "run " + line, out2 if same else "repeat-differs", C.EXACT, desc=desc, nontrivial=False)
    for nj in parallel_jobs:
        out3, r3 = run(runner=JoblibParallelRunner(progressbar=False, n_jobs=nj))
        same = r1 is not None and r3 is not None and np.asarray(r1.data.values).tobytes() == np.asarray(r3.data.values).tobytes()
        co.add("run.dort.joblib", "run " + line, out3 if same else "parallel-differs-from-sequential", C.EXACT, desc=dict(desc, n_jobs=nj), nontrivial=False)
        co.note("joblib n_jobs=%d" % nj)
    co.note("dort batch n=%d nf=%d %s" % (n, nf, sensor.mode))


# ---------------------------------------------------------------------------------------------
# write sets

ATOM = (int, float, complex, str, bytes, bool, type(None), np.generic)


def fp_atom(x):
    if isinstance(x, (float, np.floating)):
        return "f:" + float(x).hex()
    return type(x).__name__ + ":" + repr(x)


def walk(obj, path, out, seen, depth=0):
    """canonical attribute walk: location path -> fingerprint; an object reached twice is recorded once, then by reference"""
    if isinstance(obj, ATOM):
        out[path] = fp_atom(obj); return
    if isinstance(obj, np.ndarray):
        if obj.dtype == object:
            if id(obj) in seen:
                out[path] = "->" + seen[id(obj)]; return
            seen[id(obj)] = path
            out[path + ".#shape"] = str(obj.shape)
            for i, v in enumerate(obj.ravel()):
                walk(v, f"{path}[{i}]", out, seen, depth + 1)
            return
        out[path] = "nd:%s:%s:%s" % (obj.dtype, obj.shape, hashlib.sha1(np.ascontiguousarray(obj).tobytes()).hexdigest()[:16]); return
    if isinstance(obj, (types.FunctionType, types.BuiltinFunctionType, types.MethodType, functools.partial)) or inspect.isclass(obj) or inspect.ismodule(obj):
        out[path] = "ref:" + getattr(obj, "__qualname__", getattr(obj, "__name__", type(obj).__name__)); return
    if id(obj) in seen:
        out[path] = "->" + seen[id(obj)]; return
    seen[id(obj)] = path
    if depth > 12:
        out[path] = "deep:" + type(obj).__name__; return
    if isinstance(obj, (list, tuple)):
        out[path + ".#len"] = "%s:%d" % (type(obj).__name__, len(obj))
        for i, v in enumerate(obj):
            walk(v, f"{path}[{i}]", out, seen, depth + 1)
        return
    if isinstance(obj, (set, frozenset)):
        out[path] = "set:" + repr(sorted(map(repr, obj))); return
    if isinstance(obj, dict):
        out[path + ".#keys"] = repr([repr(k) for k in obj.keys()])
        for k, v in obj.items():
            walk(v, f"{path}[{k!r}]", out, seen, depth + 1)
        return
    if isinstance(obj, pd.Index):
        out[path] = "index:" + repr(obj.name) + repr(list(map(repr, obj.tolist()))); return
    if isinstance(obj, pd.Series):
        walk(obj.index, path + ".index", out, seen, depth + 1)
        for i, v in enumerate(obj.tolist()):
            walk(v, f"{path}.iloc[{i}]", out, seen, depth + 1)
        return
    if isinstance(obj, pd.DataFrame):
        walk(obj.index, path + ".index", out, seen, depth + 1)
        out[path + ".#columns"] = repr(list(obj.columns))
        for c in obj.columns:
            for i, v in enumerate(obj[c].tolist()):
                walk(v, f"{path}[{c!r}].iloc[{i}]", out, seen, depth + 1)
        return
    d = getattr(obj, "__dict__", None)
    out[path + ".#type"] = type(obj).__module__ + "." + type(obj).__qualname__
    if d is not None:
        out[path + ".#attrs"] = repr(sorted(d.keys()))
        for k in sorted(d.keys()):
            walk(d[k], f"{path}.{k}", out, seen, depth + 1)
    elif not getattr(type(obj), "__slots__", None):
        out[path] = "opaque:" + repr(obj)[:80]


def class_state(out, seen):
    """data attributes of every class and data globals / memo caches of every loaded smrt module"""
    for name, mod in sorted(sys.modules.items()):
        if not (name == "smrt" or name.startswith("smrt.")) or mod is None or ".test" in name:
            continue
        for k, v in sorted(vars(mod).items()):
            if (k.startswith("__") and k.endswith("__")) or inspect.ismodule(v):
                continue
            if inspect.isclass(v):
                if getattr(v, "__module__", None) != name:
                    continue
                for ck, cv in sorted(vars(v).items()):
                    if (ck.startswith("__") and ck.endswith("__")) or isinstance(cv, (types.FunctionType, staticmethod, classmethod, property)):
                        continue
                    walk(cv, f"class:{name}.{v.__qualname__}.{ck}", out, seen, 8)
                continue
            if callable(v):
                if getattr(v, "__module__", None) != name:
                    continue
                ci = getattr(v, "cache_info", None)
                if ci is not None:
                    out[f"cache:{name}.{k}"] = "lru:%d" % ci().currsize
                for fk, fv in (getattr(v, "__dict__", None) or {}).items():
                    if not fk.startswith("__") and isinstance(fv, dict):
                        out[f"cache:{name}.{k}.{fk}"] = "keys:" + repr(sorted(map(repr, fv.keys())))
                continue
            walk(v, f"global:{name}.{k}", out, seen, 8)


def snapshot(roots):
    out, seen = {}, {}
    for name, o in roots.items():
        walk(o, name, out, seen)
    class_state(out, seen)
    return out


def changed(a, b):
    return sorted(k for k in set(a) | set(b) if a.get(k) != b.get(k))


SHARED_NAMES = [("cache:smrt.core.plugin.import_class", "import_class"),
                ("cache:smrt.core.lib.cached_roots_legendre", "cached_roots_legendre"),
                ("cache:smrt.rtsolver.dort.compiled_todiag", "compiled_todiag"),
                ("class:smrt.substrate.reflector_backscatter.ReflectorBackscatter.stop_pol2_warning", "ReflectorBackscatter.stop_pol2_warning")]


def classify(locs):
    """changed locations -> (locations in the caller's objects, normalised; shared locations by model name; anything else)"""
    import re
    user, shared, other = set(), set(), set()
    for l in locs:
        if l.startswith(("cache:", "class:", "global:")):
            for pre, nm in SHARED_NAMES:
                if l.startswith(pre):
                    shared.add(nm); break
            else:
                other.add(l)
            continue
        if l.endswith((".#attrs", ".#keys")):
            continue
        m = re.match(r"snowpacks\[\d+\]\.(substrate|atmosphere)\.(.*)", l)
        if m:
            user.add(m.group(1) + "." + m.group(2)); continue
        m = re.match(r"snowpacks\[\d+\]\.(layers|interfaces)\[(\d+)\]\.(.*)", l)
        if m:
            user.add({"layers": "layer", "interfaces": "interface"}[m.group(1)] + "." + m.group(3)); continue
        m = re.match(r"snowpacks\[\d+\]\.(.*)", l)
        if m:
            user.add("snowpack." + m.group(1)); continue
        user.add(l)
    return sorted(user), sorted(shared), sorted(other)


SUBSTRATES = ["none", "other:flat", "other:soil_wegmuller", "reflectorUnset", "other:reflectorSet", "reflectorBackscatterUnset", "reflectorBackscatterSet"]


def mk_substrate(kind):
    from smrt.substrate.reflector import make_reflector
    from smrt.substrate.reflector_backscatter import make_reflector as make_rb
    from smrt.inputs.make_soil import make_soil
    if kind == "none":
        return None
    if kind == "other:flat":
        return make_soil("flat", complex(5, 0.5), 265.)
    if kind == "other:soil_wegmuller":
        return make_soil("soil_wegmuller", complex(5, 0.5), 265., roughness_rms=0.01)
    if kind == "reflectorUnset":
        return make_reflector(temperature=260.)
    if kind == "other:reflectorSet":
        return make_reflector(temperature=260., specular_reflection=0.4)
    if kind == "reflectorBackscatterUnset":
        return make_rb(temperature=260.)
    if kind == "reflectorBackscatterSet":
        return make_rb(temperature=260., specular_reflection=0.4, backscattering_coefficient={"VV": 0.1, "HH": 0.1})
    raise ValueError(kind)


_WARM = {}


def warm_up():
    """the first active simulation over a ReflectorBackscatter of the process sets warn-once flags (class flag, and - depending on which
    method runs first - the flag on the caller's substrate instance): run it once on a throw-away object and remember what it wrote"""
    if "done" in _WARM:
        return _WARM["first"]
    from smrt.core.sensor import active, passive
    rng = np.random.default_rng(12345)
    m = dort_model()
    m.run(passive(18.7e9, 55.), mk_snowpack(rng, "w0", 2))
    m.run(active(13e9, 35.), mk_snowpack(rng, "w1", 2))
    sp = mk_snowpack(rng, "w", 2, substrate=mk_substrate("reflectorBackscatterSet"))
    roots = {"snowpacks": [sp]}
    a = snapshot(roots)
    try:
        m.run(active(13e9, 35.), [sp])
    except Exception:  # noqa
        pass
    _WARM["first"] = classify(changed(a, snapshot(roots)))
    _WARM["done"] = True
    return _WARM["first"]


def writeset_run(rng, kind, active_mode, n, nlayer, batch_kind="list"):
    from smrt.core.sensor import passive, active
    m = dort_model()
    sps = [mk_snowpack(rng, "ws%d" % i, nlayer, substrate=mk_substrate(kind)) for i in range(n)]
    sensor = active([13e9, 17e9][: int(rng.integers(1, 3))], [30., 40.]) if active_mode else passive([18.7e9, 36.5e9][: int(rng.integers(1, 3))], [35., 55.])
    cont = sps if batch_kind == "list" else pd.Series(sps, index=pd.Index(range(n), name="t"), dtype=object)
    roots = {"snowpacks": sps, "sensor": sensor, "model": m, "container": cont}
    a = snapshot(roots)
    err = None
    try:
        m.run(sensor, cont)
    except Exception as e:  # noqa
        err = C.err_kind(e)
    user, shared, other = classify(changed(a, snapshot(roots)))
    return user, shared, other, err, len(a)


def writeset_case(rng, co, kind, active_mode):
    n, nlayer = int(rng.integers(1, 4)), int(rng.integers(1, 4))
    user, shared, other, err, nloc = writeset_run(rng, kind, active_mode, n, nlayer, "list" if rng.random() < 0.7 else "series")
    if err is not None:
        co.note("writeset run raised " + err)
        return
    sk = kind.split(":")[0]
    line = f"writes {write_mode()} 0 {nlayer} {sk} {int(active_mode)} iba 16"
    impl = f"user:{','.join(user)} changed:{','.join(user)} shared:ok"

    def post(mo, shared=tuple(shared), other=tuple(other)):
        u, c, s = mo.split(" ")
        allowed = set(s.split(":", 1)[1].split(","))
        bad = [x for x in shared if x not in allowed] + list(other)
        return f"{u} {c} shared:{'ok' if not bad else 'unexpected:' + ';'.join(bad)}"
    co.add("run.writeset", line, impl, C.EXACT, desc={"kind": "writeset", "substrate": kind, "active": bool(active_mode), "n": n, "nlayer": nlayer,
                                                      "changed_user": user, "changed_shared": shared}, post=post)
    co.note("writeset substrate=%s %s: %d locations walked" % (kind, "active" if active_mode else "passive", nloc), 0)
    co.note("writeset substrate=%s %s" % (kind, "active" if active_mode else "passive"))
    for x in user:
        co.note("user location written: " + x)
    for x in shared:
        co.note("shared location written: " + x)


# ---------------------------------------------------------------------------------------------

def correspond(ctx):
    co = Corr(PROP, DRIVER)
    rng = ctx.np
    first = warm_up()
    co.note("warm-up (first active ReflectorBackscatter run of the process) wrote user=%s shared=%s" % (first[0], first[1]))
    for k in range(ctx.n(120, 1500)):
        stub_case(rng, co, k)
    for k in range(ctx.n(30, 300)):
        sensorlist_case(rng, co, k, multi=(k % 2 == 0))
    refusal_cases(rng, co)
    nd = ctx.n(12, 80)
    jobs = [1, 2, 4] if not ctx.thorough else [1, 2, 4, 8, 16]
    for k in range(nd):
        pj = ()
        if k < len(jobs):
            pj = (jobs[k],)
        elif ctx.thorough and k % 8 == 0:
            pj = (jobs[int(rng.integers(0, len(jobs)))],)
        dort_case(rng, co, k, pj)
    for rep in range(ctx.n(1, 6)):
        for kind in SUBSTRATES:
            for act in (False, True):
                writeset_case(rng, co, kind, act)
    co.note("zip order modelled: " + zip_mode())
    co.note("write mode modelled: " + write_mode())
    return co


# ---------------------------------------------------------------------------------------------
# the property itself on the implementation (independent of the Lean model)

def check_sensorlist(nsp, freqs, theta):
    """a list of identical multi-frequency sensors, one per snowpack, through real DORT: every (frequency, snowpack) value must be the
    individual simulation's"""
    from smrt.core.sensor import passive
    rng = np.random.default_rng(7)
    m = dort_model()
    sps = [mk_snowpack(rng, "o%d" % i, 1 + i % 3) for i in range(nsp)]
    sensors = [passive(list(freqs), theta) for _ in range(nsp)]
    r = m.run(sensors, sps)
    bad = []
    for fi, f in enumerate(freqs):
        for si, sp in enumerate(sps):
            want = np.asarray(m.run(passive(f, theta), sp).data.values).ravel()
            got = np.asarray(r.data.sel(frequency=f, snowpack=si).values).ravel()
            if want.tobytes() != got.tobytes():
                bad.append(((fi, si), got.tolist(), want.tolist()))
    return bad


def check_sensorlist_angles(nsp, freq):
    """a list of sensors that view at different angles (equally many), one per snowpack: the value found at (snowpack k, angle of sensor k)
    is the individual simulation's"""
    from smrt.core.sensor import passive
    rng = np.random.default_rng(11)
    m = dort_model()
    sps = [mk_snowpack(rng, "a%d" % i, 1 + i % 3) for i in range(nsp)]
    angles = [[40. + 5 * i, 50. + 5 * i] for i in range(nsp)]
    r = m.run([passive(freq, th) for th in angles], sps)
    bad = []
    for si, (sp, th) in enumerate(zip(sps, angles)):
        want = np.asarray(m.run(passive(freq, th), sp).data.values)
        for ti, t in enumerate(th):
            try:
                got = np.asarray(r.data.sel(snowpack=si, theta=t).values).ravel()
            except KeyError:
                bad.append(((si, t), "no such coordinate", want[ti].tolist())); continue
            if want[ti].ravel().tobytes() != got.tobytes():
                bad.append(((si, t), got.tolist(), want[ti].ravel().tolist()))
    return bad


def check_rough_repeat(seed):
    """snowpacks under the same very rough (geometrical-optics) surface, differing only below it, simulated as a batch, again, and one by
    one: the same numbers every time"""
    from smrt import make_snowpack, make_interface
    from smrt.core.sensor import passive
    rng = np.random.default_rng(seed)
    m = dort_model()
    sps = []
    for i in range(3):
        sps.append(make_snowpack([0.3, 1.0], "sticky_hard_spheres", density=[250., 350.], radius=[2e-4, float(rng.integers(2, 7)) * 1e-4], stickiness=0.2,
                                 temperature=[255., 262.], surface=make_interface("geometrical_optics", mean_square_slope=0.05)))
    sensor = passive([19e9, 37e9], [40., 55.])
    r1 = np.asarray(m.run(sensor, sps).data.values)
    r2 = np.asarray(m.run(sensor, sps).data.values)
    ind = [np.asarray(m.run(sensor, sp).data.values) for sp in sps]
    problems = []
    if r1.tobytes() != r2.tobytes():
        problems.append(("rough-surface:repeat", float(np.nanmax(np.abs(r1 - r2)))))
    r1s = np.asarray(m.run(sensor, sps).data.sel(snowpack=0).values)
    for si in range(3):
        got = np.asarray(m.run(sensor, sps).data.sel(snowpack=si).values) if si else r1s
        if not np.allclose(got, ind[si], rtol=0, atol=1e-9):
            problems.append(("rough-surface:batch", si, float(np.nanmax(np.abs(got - ind[si])))))
    return problems


def check_sensors_untouched():
    """a list of sensors that carry channel definitions (one radiometer channel each), one per snowpack: the run leaves the sensors as they
    were, and a sensor reused afterwards for a batch gives every snowpack's value under its channel name"""
    import copy
    from smrt.inputs import sensor_list as sl
    rng = np.random.default_rng(5)
    m = dort_model()
    sps = [mk_snowpack(rng, "u%d" % i, 1 + i % 2) for i in range(3)]
    s19, s37 = sl.amsre("19V"), sl.amsre("37V")
    before = [copy.deepcopy(dict(x.channel_map)) for x in (s19, s37)]
    m.run([s19, s37], sps[:2])
    after = [dict(x.channel_map) for x in (s19, s37)]
    if before != after:
        return ("user-write:sensor.channel_map", f"Model.run([amsre('19V'), amsre('37V')], [sp0, sp1]) changed the sensors' channel_map: {after} (was {before})",
                str(after), str(before))
    r = m.run(s19, sps)
    got = np.atleast_1d(np.asarray(r.Tb(channel="19V"), dtype=float)).ravel()
    want = np.array([float(np.asarray(m.run(s19, sp).Tb(channel="19V"))) for sp in sps])
    if got.shape != want.shape or not np.array_equal(got, want):
        return ("user-write:sensor.channel_map", f"after a sensor-list run, m.run(amsre('19V'), [3 snowpacks]).Tb(channel='19V') = {got.tolist()}", got.tolist(), want.tolist())
    return None


def check_coherent_untouched():
    """the option process_coherent_layers=True (a thin ice lens treated as a coherent interface) leaves the caller's snowpack as it was, and
    the same snowpack simulated afterwards at a frequency where the lens is not coherent gives the individual simulation's value"""
    from smrt import make_snowpack, make_model
    from smrt.core.sensor import passive
    mk = lambda: make_snowpack([0.3, 0.01, 0.5, 1.0], "sticky_hard_spheres", density=[250., 900., 300., 350.], radius=[2e-4, 1e-4, 3e-4, 4e-4],
                               stickiness=0.2, temperature=[255., 258., 262., 266.])
    sp = mk()
    m = make_model("iba", "dort", rtsolver_options=dict(n_max_stream=16, process_coherent_layers=True))
    shape0 = (len(sp.layers), [type(i).__name__ for i in sp.interfaces], [float(l.thickness) for l in sp.layers])
    m.run(passive(5e9, 40.), sp)
    shape1 = (len(sp.layers), [type(i).__name__ for i in sp.interfaces], [float(l.thickness) for l in sp.layers])
    if shape0 != shape1:
        return ("user-write:snowpack.layers", f"a run with process_coherent_layers=True changed the caller's snowpack: {shape1} (was {shape0})", str(shape1), str(shape0))
    got = np.asarray(m.run(passive(37e9, 40.), sp).data.values)
    want = np.asarray(m.run(passive(37e9, 40.), mk()).data.values)
    if not np.array_equal(got, want):
        return ("user-write:snowpack.layers", "a snowpack simulated at 5 GHz with process_coherent_layers=True gives another value at 37 GHz afterwards than a fresh one",
                got.tolist(), want.tolist())
    return None


def check_untouched(kind, active_mode, n=1, nlayer=2):
    rng = np.random.default_rng(11)
    user, shared, other, err, _ = writeset_run(rng, kind, active_mode, n, nlayer)
    return user, other, err


def check_batch(seed, n_jobs=None):
    """batch vs individual, repeated, optionally joblib: bitwise against the individual (frequency, snowpack) runs of the same sensor, and to
    1e-9 K against the individual (frequency, snowpack, angle) runs; the container type, its key order and the order of the viewing angles
    are drawn at random"""
    from smrt.core.sensor import passive
    from smrt.core.model import JoblibParallelRunner
    import pandas as pd
    rng = np.random.default_rng(seed)
    m = dort_model()
    n = int(rng.integers(2, 6))
    sps = [mk_snowpack(rng, "b%d" % i) for i in range(n)]
    if n_jobs and n_jobs > 1:
        # simulations of very different cost, the expensive ones submitted first: the workers finish out of submission order
        n = max(n, 4)
        sps = [mk_snowpack(rng, "b%d" % i, nlayer=(30 if i % 3 == 0 else 1)) for i in range(n)]
    fr = [float(x) for x in rng.choice(FREQS[1:6], int(rng.integers(2, 4)), replace=False)]
    th = sorted(float(x) for x in rng.choice([15., 25., 35., 45., 55., 65.], int(rng.integers(3, 5)), replace=False))
    th = [th[1], th[0]] + th[2:]          # neither ascending nor descending; the permutation that sorts the cosines is not its own inverse
    sensor = passive(fr, th)
    kind = ["list", "dict", "series"][int(rng.integers(0, 3))]
    labels = [str(x) for x in rng.permutation(["site_%s" % c for c in "ABCDEFG"[:n]])]       # insertion order is not sorted order
    if kind == "dict":
        cont, dim, keys = dict(zip(labels, sps)), "snowpack", labels
    elif kind == "series":
        cont, dim, keys = pd.Series(sps, index=pd.Index(labels, name="site")), "site", labels
    else:
        cont, dim, keys = sps, "snowpack", list(range(n))
    r = m.run(sensor, cont)
    problems = []
    for f in fr:
        for si, sp in enumerate(sps):
            want = np.asarray(m.run(passive(f, th), sp).data.values)
            got = np.asarray(r.data.sel(**{"frequency": f, dim: keys[si]}).values)
            if want.tobytes() != got.tobytes():
                problems.append(("batch", kind, f, si, float(np.max(np.abs(want - got)))))
            for t in th:
                one = np.asarray(m.run(passive(f, t), sp).data.values).ravel()
                g = np.asarray(r.data.sel(**{"frequency": f, dim: keys[si], "theta": t}).values).ravel()
                if not float(np.max(np.abs(one - g))) <= 1e-9:
                    problems.append(("batch-angle", kind, f, si, t, float(np.max(np.abs(one - g)))))
    # the per-layer diagnostics stored with the result (ks, ka, thickness, effective permittivity) are values of the individual
    # simulations too, and a result already returned does not change when the model runs again
    def diag(res, sel=None):
        out = {}
        for k_ in ("ks", "ka", "thickness"):
            if k_ in res.other_data:
                v = res.other_data[k_] if sel is None else res.other_data[k_].sel(**sel)
                v = np.asarray(v.values, dtype=float).ravel()
                out[k_] = v[np.isfinite(v)]
        return out
    before = {k_: np.array(np.asarray(v.values, dtype=float)) for k_, v in r.other_data.items() if k_ in ("ks", "ka", "thickness")}
    for f in fr[:1]:
        for si, sp in enumerate(sps):
            one = diag(m.run(passive(f, th), sp))
            got = diag(r, {"frequency": f, dim: keys[si]})
            for k_ in one:
                if k_ in got and (one[k_].shape != got[k_].shape or not np.array_equal(one[k_], got[k_])):
                    problems.append(("batch-diagnostics", kind, k_, f, si, got[k_].tolist()[:4], one[k_].tolist()[:4]))
                    break
    after = {k_: np.asarray(r.other_data[k_].values, dtype=float) for k_ in before}
    for k_ in before:
        if before[k_].shape != after[k_].shape or not np.array_equal(before[k_], after[k_], equal_nan=True):
            problems.append(("result-changed-later", k_))
            break
    r2 = m.run(sensor, cont)
    if np.asarray(r.data.values).tobytes() != np.asarray(r2.data.values).tobytes():
        problems.append(("repeat", float(np.max(np.abs(r.data.values - r2.data.values)))))
    if n_jobs:
        r3 = m.run(sensor, cont, runner=JoblibParallelRunner(progressbar=False, n_jobs=n_jobs))
        if np.asarray(r.data.values).tobytes() != np.asarray(r3.data.values).tobytes():
            problems.append(("parallel", n_jobs, float(np.max(np.abs(r.data.values - r3.data.values)))))
    return problems


def check_duplicate_labels(seed, frame=False):
    """a Series (or DataFrame column) of snowpacks whose index labels repeat (several pits at one site): one row of results per snowpack, in
    order, each equal to the individual run"""
    from smrt.core.sensor import passive
    import pandas as pd
    rng = np.random.default_rng(seed)
    m = dort_model()
    n = int(rng.integers(3, 6))
    sps = [mk_snowpack(rng, "d%d" % i) for i in range(n)]
    labels = ["site_%s" % "ABC"[int(x)] for x in rng.integers(0, 2, n)]
    labels[0], labels[-1] = "site_A", "site_A"
    sensor = passive([18.7e9, 36.5e9], [35., 55.])
    ser = pd.Series(sps, index=pd.Index(labels, name="site"), dtype=object)
    r = m.run(sensor, pd.DataFrame({"sp": ser, "x": np.arange(n)}), snowpack_column="sp") if frame else m.run(sensor, ser)
    if "site" not in r.data.dims or r.data.sizes["site"] != n:
        return ("duplicate-labels:rows", labels, dict(r.data.sizes), f"{n} rows along 'site'")
    if [str(x) for x in r.data["site"].values] != labels:
        return ("duplicate-labels:coords", labels, [str(x) for x in r.data["site"].values], "the labels given, in order")
    for i, sp in enumerate(sps):
        one = m.run(sensor, sp).data
        got = r.data.isel(site=i).transpose(*one.dims)
        if np.asarray(one.values).tobytes() != np.asarray(got.values).tobytes():
            return ("duplicate-labels:values", labels, float(np.max(np.abs(one.values - got.values))), f"row {i} equals the individual run")
    return None


def oracle(ctx, hints, effort):
    findings, evals = {}, 0
    first = warm_up()
    for j in range(2 if effort == "routine" else 6):
        sd = int(ctx.np.integers(0, 2**31))
        evals += 1
        r = check_duplicate_labels(sd, frame=bool(j % 2))
        if r:
            findings.setdefault("dort:" + r[0], Finding("dort:" + r[0], f"{'DataFrame' if j % 2 else 'Series'} of snowpacks with labels {r[1]}: {r[0]}",
                                                        {"kind": "duplicate-labels", "seed": sd, "frame": bool(j % 2)}, r[2], r[3]))
    # inputs untouched
    for kind in SUBSTRATES:
        for act in (False, True):
            evals += 1
            user, other, err = check_untouched(kind, act)
            for u in user:
                cls = {"reflectorUnset": "Reflector", "other:reflectorSet": "Reflector"}.get(kind, "ReflectorBackscatter" if "Backscatter" in kind else kind)
                attr = u.split(".")[-1]
                key = f"user-write:{cls}.{attr}" if u.startswith("substrate.") else "user-write:" + u
                findings.setdefault(key, Finding(key, f"Model.run changes `{u}` of the caller's snowpack (substrate {kind}, {'active' if act else 'passive'} sensor)",
                                                 {"kind": "untouched", "substrate": kind, "active": act}, user, "no location of the caller's objects changes"))
            for o in other:
                key = "shared-write:" + o
                findings.setdefault(key, Finding(key, f"Model.run changes the shared location {o}, which is not one of the enumerated memo caches",
                                                 {"kind": "untouched", "substrate": kind, "active": act}, o, "only the enumerated caches"))
    for name, fn in (("sensors", check_sensors_untouched), ("coherent", check_coherent_untouched)):
        evals += 4
        try:
            r = fn()
        except Exception as e:  # noqa
            r = ("user-write:" + name + ":raises", f"{fn.__name__} raises {C.err_kind(e)}", C.err_kind(e), "a result")
        if r is not None:
            findings.setdefault(r[0], Finding(r[0], r[1], {"kind": "untouched-" + name}, r[2], r[3]))
    # sensor list with an iterated axis
    for (nsp, freqs) in ([(2, (18.7e9, 36.5e9))] if effort == "routine" else [(2, (18.7e9, 36.5e9)), (3, (10.65e9, 18.7e9)), (3, (6.925e9, 18.7e9, 36.5e9))]):
        evals += 1
        try:
            bad = check_sensorlist(nsp, freqs, 55.)
        except Exception as e:  # noqa
            bad = [("raised", C.err_kind(e), None)]
        if bad:
            findings.setdefault(K_ORDER, Finding(K_ORDER, f"Model.run with a list of {nsp} sensors of {len(freqs)} frequencies: the value at (frequency index, snowpack index) "
                                                 f"{bad[0][0]} is not that of the individual simulation ({len(bad)} of {nsp * len(freqs)} cells misplaced)",
                                                 {"kind": "sensorlist", "nsp": nsp, "freqs": list(freqs)}, bad[0][1], bad[0][2]))
    evals += 1
    try:
        bad = check_sensorlist_angles(3, 19e9)
    except Exception as e:  # noqa
        bad = [("raised", C.err_kind(e), None)]
    if bad:
        key = K_ORDER + ":angles"
        findings.setdefault(key, Finding(key, f"Model.run with a list of 3 sensors viewing at different angles: the value at (snowpack, angle) {bad[0][0]} is not "
                                         f"that of the individual simulation ({len(bad)} cells)", {"kind": "sensorlist-angles"}, bad[0][1], bad[0][2]))
    evals += 6
    for p in check_rough_repeat(3):
        key = "dort:" + p[0]
        findings.setdefault(key, Finding(key, f"snowpacks under the same geometrical-optics surface: {p}", {"kind": "rough-repeat", "seed": 3}, p, "equal"))
    # batch vs individual, repeat, parallel
    seeds = [int(ctx.np.integers(0, 10**6)) for _ in range(4 if effort == "routine" else 10)]
    for j, sd in enumerate(seeds):
        evals += 1
        nj = ([2] + [None] * 3)[j] if effort == "routine" else [None, 1, 2, 4, 16 if ctx.thorough else 2][j % 5]
        for p in check_batch(sd, nj):
            key = "dort:" + p[0]
            findings.setdefault(key, Finding(key, f"{p[0]} run differs from the reference: {p}", {"kind": "batch", "seed": sd, "n_jobs": nj}, p, "bitwise equal"))
    if any("stop_pol2_warning" in u for u in first[0]):
        findings[K_FLAG] = Finding(K_FLAG, "the first active run of the process over a ReflectorBackscatter substrate sets `stop_pol2_warning` on the caller's substrate object",
                                   {"kind": "untouched", "substrate": "reflectorBackscatterSet", "active": True, "first": True}, first[0], "no location of the caller's objects changes")
    return list(findings.values()), evals


def replay(inp, rp=None):
    if inp["kind"] == "duplicate-labels":
        r = check_duplicate_labels(inp["seed"], inp["frame"])
        return Finding("dort:" + r[0], r[0], inp, r[2], r[3]) if r else None
    if inp["kind"] == "untouched":
        if inp.get("first"):     # observable only once per process: the replay process is fresh
            first = warm_up()
            bad = [u for u in first[0] if "stop_pol2_warning" in u]
            return Finding(K_FLAG, "the first active run over a ReflectorBackscatter substrate writes into the caller's substrate", inp, bad, "no location changes") if bad else None
        user, other, err = check_untouched(inp["substrate"], inp["active"])
        if user or other:
            return Finding("?", "Model.run changes the caller's objects", inp, user + other, "no location changes")
        return None
    if inp["kind"] in ("untouched-sensors", "untouched-coherent"):
        r = check_sensors_untouched() if inp["kind"].endswith("sensors") else check_coherent_untouched()
        return Finding(r[0], r[1], inp, r[2], r[3]) if r else None
    if inp["kind"] == "sensorlist":
        bad = check_sensorlist(inp["nsp"], tuple(inp["freqs"]), 55.)
        return Finding(K_ORDER, "sensor-list values misplaced", inp, bad[0][1], bad[0][2]) if bad else None
    if inp["kind"] == "sensorlist-angles":
        bad = check_sensorlist_angles(3, 19e9)
        return Finding(K_ORDER + ":angles", "sensor-list values misplaced", inp, bad[0][1], bad[0][2]) if bad else None
    if inp["kind"] == "rough-repeat":
        p = check_rough_repeat(inp["seed"])
        return Finding("?", "rough surface: repeat / batch differs", inp, p, "equal") if p else None
    if inp["kind"] == "batch":
        p = check_batch(inp["seed"], inp.get("n_jobs"))
        return Finding("?", "batch / repeat / parallel differs", inp, p, "bitwise equal") if p else None
    return None
